use std::sync::{Arc, Mutex};

pub struct L(pub Arc<Mutex<Vec<u8>>>);

impl L {
    /// C15.M1 positive: second lock on the same storage while the first guard lives.
    pub fn double(&self) -> bool {
        let a = self.0.lock().unwrap();
        let b = self.0.lock().unwrap();
        a.len() == b.len()
    }

    pub fn len(&self) -> usize {
        self.0.lock().unwrap().len()
    }

    /// C15.M1 positive (via callee summary): calls a method that locks self.0
    /// while holding the guard.
    pub fn nested(&self) -> usize {
        let a = self.0.lock().unwrap();
        a.len() + self.len()
    }

    /// C15.M2 positive: two parameters held together without ptr_eq.
    pub fn eq_no_check(&self, other: &L) -> bool {
        let a = self.0.lock().unwrap();
        let b = other.0.lock().unwrap();
        *a == *b
    }

    /// negative: guarded by ptr_eq (must not fire)
    pub fn eq_checked(&self, other: &L) -> bool {
        if Arc::ptr_eq(&self.0, &other.0) {
            return true;
        }
        let a = self.0.lock().unwrap();
        let b = other.0.lock().unwrap();
        *a == *b
    }

    /// negative: guard dropped before the second lock
    pub fn sequential(&self) -> usize {
        let a = self.0.lock().unwrap();
        let n = a.len();
        drop(a);
        let b = self.0.lock().unwrap();
        n + b.len()
    }
}
