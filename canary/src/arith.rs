//! C10.K3 positives / negatives: unsigned subtraction on run-time quantities.

/// positive: `len - 1` with no guard
pub fn last_index(v: &[u8]) -> usize {
    v.len() - 1
}

/// positive: separator count of a join
pub fn join_capacity(items: &[String], sep: &str) -> usize {
    let total: usize = items.iter().map(|s| s.len()).sum();
    total + sep.len() * (items.len() - 1)
}

/// negative: guarded by a comparison of the same operand
pub fn guarded_len_minus_one(v: &[u8]) -> usize {
    let n = v.len();
    if n == 0 {
        return 0;
    }
    n - 1
}

/// negative: checked arithmetic
pub fn checked(v: &[u8]) -> Option<usize> {
    v.len().checked_sub(1)
}
