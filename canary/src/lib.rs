//! Minimal positives for every "search" rule whose expected count on roto is
//! zero.  Exported with the same driver on every run; each rule must fire on
//! its canary, otherwise the check aborts (exit 2) instead of passing
//! vacuously.  This crate is never executed.
#![allow(dead_code, unused_variables, clippy::all)]

pub mod escape;
pub mod locks;
pub mod units;
pub mod arith;
pub mod prefix;
pub mod items;
