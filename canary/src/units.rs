//! C06.U1 positives: character counts used as byte offsets.
pub struct Lx<'a> {
    pub input: &'a str,
}

impl<'a> Lx<'a> {
    pub fn bump(&mut self, n: usize) -> &'a str {
        let (a, b) = self.input.split_at(n);
        self.input = b;
        a
    }

    /// positive: index from chars().enumerate() reaches split_at through bump
    pub fn scan(&mut self) -> Option<&'a str> {
        let mut chars = self.input.chars().enumerate();
        while let Some((i, c)) = chars.next() {
            if c == '"' {
                return Some(self.bump(i));
            }
        }
        None
    }

    /// positive: chars().count() used to slice
    pub fn cut(&self, s: &'a str) -> &'a str {
        let n = s.chars().count() - 1;
        &self.input[n..]
    }

    /// positive: constant offset after a possibly multi-byte char
    pub fn skip_first(&mut self) -> &'a str {
        let mut tail = self.input;
        if tail.chars().next().is_some() {
            tail = &tail[1..];
        }
        tail
    }

    /// negative: char_indices gives byte offsets
    pub fn scan_ok(&mut self) -> Option<&'a str> {
        let mut chars = self.input.char_indices();
        while let Some((i, c)) = chars.next() {
            if c == '"' {
                return Some(self.bump(i));
            }
        }
        None
    }
}

/// C09.P12 positive: the meaning of the current character is decided by looking at the raw text BEFORE the cursor
pub fn brace_is_escape(input: &str) -> Option<usize> {
    let mut chars = input.char_indices();
    while let Some((i, c)) = chars.next() {
        if c == '{' && input[..i].ends_with("\\u") {
            return Some(i);
        }
    }
    None
}

/// C09.P12 negative: suffix test on the whole token (not on the text before a scanning position)
pub fn has_suffix(token: &str) -> bool {
    token.ends_with("f32")
}
