use std::ptr::NonNull;
use std::sync::{Arc, Mutex};

pub struct Raw {
    pub ptr: NonNull<u8>,
    pub len: usize,
}

impl Raw {
    pub fn get(&self, i: usize) -> Option<NonNull<u8>> {
        if i < self.len {
            Some(unsafe { self.ptr.add(i) })
        } else {
            None
        }
    }
}

pub struct E(pub Arc<Mutex<Raw>>);

impl E {
    /// C16.M1 positive: returns a pointer obtained under the temporary guard.
    pub fn get(&self, i: usize) -> Option<NonNull<u8>> {
        self.0.lock().unwrap().get(i)
    }

    /// C16.M1 positive: user of the stale pointer.
    pub fn read(&self, i: usize) -> Option<u8> {
        let p = self.get(i)?;
        Some(unsafe { p.read() })
    }

    /// C16.M1 positive: use after explicit unlock.
    pub fn read_after_drop(&self) -> u8 {
        let g = self.0.lock().unwrap();
        let p = g.ptr;
        drop(g);
        unsafe { p.read() }
    }

    /// negative: pointer used while the guard is live
    pub fn read_locked(&self, i: usize) -> Option<u8> {
        let g = self.0.lock().unwrap();
        let p = g.get(i)?;
        let v = unsafe { p.read() };
        drop(g);
        Some(v)
    }

    /// C16.M1 positive: a slice made from the guarded pointer outlives the guard.
    pub fn as_slice(&self) -> &[u8] {
        let g = self.0.lock().unwrap();
        unsafe { std::slice::from_raw_parts(g.ptr.as_ptr(), g.len) }
    }

    /// C16.M1 positive: user of the stale slice.
    pub fn sum(&self) -> u32 {
        self.as_slice().iter().map(|b| *b as u32).sum()
    }

    /// negative: the slice is only used while the guard is live
    pub fn sum_locked(&self) -> u32 {
        let g = self.0.lock().unwrap();
        let s = unsafe { std::slice::from_raw_parts(g.ptr.as_ptr(), g.len) };
        let n = s.iter().map(|b| *b as u32).sum();
        drop(g);
        n
    }

    /// C16.M1 positive: the pointer is computed by a closure that reads through the captured guard and is used after the guard died.
    pub fn read_via_closure_after_drop(&self, i: Option<usize>) -> Option<u8> {
        let g = self.0.lock().unwrap();
        let p = i.and_then(|i| g.get(i))?;
        drop(g);
        Some(unsafe { p.read() })
    }

    /// negative: same, used while the guard is live
    pub fn read_via_closure_locked(&self, i: Option<usize>) -> Option<u8> {
        let g = self.0.lock().unwrap();
        let p = i.and_then(|i| g.get(i))?;
        let v = unsafe { p.read() };
        drop(g);
        Some(v)
    }
}
