//! Positives / negatives for the prefix-discipline rule (C13.R14 / C18.I16): a `&mut Vec` parameter that is both pushed to and read
//! (a shared prefix of a nested-list walk) is restored on every path from a push to a return.

pub struct Walker {
    pub out: Vec<Vec<u32>>,
}

impl Walker {
    /// POSITIVE: the tail call returns without restoring the prefix (segments leak into later siblings)
    pub fn tree_leaky(&mut self, prefix: &mut Vec<u32>, items: &[u32], nested: bool) -> Result<(), ()> {
        let start = prefix.len();
        for &i in items {
            prefix.push(i);
            if nested {
                return self.list_leaky(prefix, items);
            }
        }
        self.out.push(prefix.clone());
        prefix.truncate(start);
        Ok(())
    }

    fn list_leaky(&mut self, prefix: &mut Vec<u32>, items: &[u32]) -> Result<(), ()> {
        if items.len() > 3 {
            self.tree_leaky(prefix, &items[1..], false)?;
        }
        Ok(())
    }

    /// NEGATIVE: every path from the push restores the prefix
    pub fn tree_balanced(&mut self, prefix: &mut Vec<u32>, items: &[u32], nested: bool) -> Result<(), ()> {
        let start = prefix.len();
        for &i in items {
            prefix.push(i);
        }
        let res = if nested { self.list_balanced(prefix, items) } else { self.out.push(prefix.clone()); Ok(()) };
        prefix.truncate(start);
        res
    }

    fn list_balanced(&mut self, prefix: &mut Vec<u32>, items: &[u32]) -> Result<(), ()> {
        if items.len() > 3 {
            self.tree_balanced(prefix, &items[1..], false)?;
        }
        Ok(())
    }

    /// NEGATIVE: an output accumulator is only pushed to, never read: not a prefix
    pub fn collect(&mut self, out: &mut Vec<u32>, items: &[u32]) {
        for &i in items {
            out.push(i);
        }
    }
}
