//! Positive / negative for C14.D7: the list of items on its way to code generation is never shrunk.
pub mod mir {
    pub struct Item(pub u32);
}

/// POSITIVE: a pass that drops items
pub fn drop_unused(items: &mut Vec<mir::Item>) {
    items.retain(|i| i.0 != 0);
}

/// NEGATIVE: reordering / reading is fine
pub fn count(items: &Vec<mir::Item>) -> usize {
    items.iter().filter(|i| i.0 != 0).count()
}
