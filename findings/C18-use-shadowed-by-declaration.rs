// Observation (not armed): a `use m::f;` next to a `fn f()` of the same scope registers successfully and the declaration silently
// shadows the import (prints "registration succeeded; f() = 2").  Scripts behave the same way (`import m.f;` next to `fn f`).
#[test]
fn verif_use_clashes_with_declared_name() {
    let rt = Runtime::from_lib(library! {
        mod m {
            fn f() -> i32 { 1 }
        }
        fn f() -> i32 { 2 }
        use m::f;
    });
    match rt {
        Err(e) => println!("REGISTRATION ERROR: {e}"),
        Ok(rt) => {
            let mut p = FileTree::test_file(file!(), "fn main() -> i32 { f() }", line!() as usize).compile(&rt).unwrap();
            let main = p.get_function::<fn() -> i32>("main").unwrap();
            println!("registration succeeded; f() = {}", main.call());
        }
    }
}

