// Witness for a C18 defect (rule C18.I12): names are validated by lexing them, and the lexer skips whitespace and comments, so
// " foo", "foo ", "foo // hi", "foo\n" were accepted as names of registered items (which no script can then reach).  Appended to
// src/codegen/tests.rs and run with `cargo test --offline --lib verif_names_with -- --nocapture`: before the fix every line says
// ACCEPTED, after it only "foo" is accepted (reported by a round-4 seeding agent).
#[test]
fn verif_names_with_whitespace_or_comment() {
    use crate::location;
    for name in [" foo", "foo ", "foo // hi", "foo\n", "\tfoo", "foo"] {
        let mut rt = Runtime::new();
        let res = crate::Module::new(name, "", location!()).and_then(|m| rt.add(m));
        println!("module {name:?}: {}", if res.is_ok() { "ACCEPTED" } else { "rejected" });
    }
}

