// Witness for a C15 defect (rule C15.M10): `==` on two handles of the SAME list returned true without comparing the elements
// (Arc::ptr_eq shortcut), although equality of the elements need not be reflexive: the shared-vector model says `v == v` is false
// for vec![NaN].  Appended to src/codegen/tests.rs, `cargo test --offline --lib verif_aliased_list_equality -- --nocapture`:
// before the fix `script: alias(NaN) = true, distinct(NaN) = false` and `host: l == m (aliases) = true`; after it all false
// (reported by a round-4 seeding agent).
#[test]
fn verif_aliased_list_equality_with_nan() {
    let s = src!(
        "
        fn alias(x: f64) -> bool {
            let l = [x];
            let m = l;
            l == m
        }

        fn distinct(x: f64) -> bool {
            [x] == [x]
        }
    "
    );
    let mut p = compile(s);
    let alias = p.get_function::<fn(f64) -> bool>("alias").unwrap();
    let distinct = p.get_function::<fn(f64) -> bool>("distinct").unwrap();
    println!("script: alias(NaN) = {}, distinct(NaN) = {}, alias(1.0) = {}", alias.call(f64::NAN), distinct.call(f64::NAN), alias.call(1.0));
    let v = vec![f64::NAN];
    #[allow(clippy::eq_op)]
    let model = v == v;
    println!("shared-vector model: v == v is {model}");
    let l: crate::List<f64> = crate::List::new();
    l.push(f64::NAN);
    let m = l.clone();
    println!("host: l == m (aliases) = {}", l == m);
}
