// Witness for known finding C09.P11: the f32 value of a float literal is obtained by narrowing an f64 parse of its text (parser:
// `s.parse::<f64>()` for every float token, also with the suffix f32; lir::lower: `IrValue::F32(*x as f32)`), i.e. it is rounded twice.
// For a decimal just above the midpoint of two adjacent f32 values that lies within half an f64 ulp of it, the first rounding lands on
// the midpoint and the second (ties-to-even) goes the wrong way: 1.00000005960464478 is 1.0000001 as an f32 (rustc, str::parse::<f32>)
// and 1.0 in Roto, with the suffix and without it.
// Appended to src/codegen/tests.rs, `cargo test --offline --lib verif_f32_literal_double_rounding -- --nocapture` prints
//   roto suffixed = 1.0, roto by context = 1.0, rustc literal = 1.0000001, str::parse::<f32> = 1.0000001
// (read off the code by a round-5 seeding agent; the literal constructed and reproduced on the unchanged tree)
#[test]
fn verif_f32_literal_double_rounding() {
    let s = src!(
        "
        fn suffixed() -> f32 { 1.00000005960464478f32 }
        fn by_context() -> f32 { 1.00000005960464478 }
    "
    );
    let mut p = compile(s);
    let a = p.get_function::<fn() -> f32>("suffixed").unwrap().call();
    let b = p.get_function::<fn() -> f32>("by_context").unwrap().call();
    let rust: f32 = 1.00000005960464478f32;
    let parsed: f32 = "1.00000005960464478".parse().unwrap();
    println!("roto suffixed = {a:?}, roto by context = {b:?}, rustc literal = {rust:?}, str::parse::<f32> = {parsed:?}");
}
