// Witness for a C18 defect (rule C18.I11): a context type whose field type is known to the process-wide TypeRegistry (because
// another runtime registered it) but not to this runtime was accepted by Runtime::with_context_type, and compiling ANY script
// with that runtime panicked in typechecker::declare_context (unwrap of get_runtime_type).  Appended to src/codegen/tests.rs
// and run with `cargo test --offline --lib verif_context_field -- --nocapture`: before the fix "registration succeeded" +
// panic at src/typechecker/mod.rs:529; after it "REGISTRATION ERROR: Type .. of context field `foo` has not been registered
// with this runtime".
#[test]
fn verif_context_field_of_unregistered_type() {
    #[derive(Clone, Debug, PartialEq)]
    struct Foo(i32);

    #[derive(Clone, Context)]
    struct Ctx {
        pub foo: Val<Foo>,
    }

    // another runtime of the same process knows the type
    let _other = Runtime::from_lib(library! {
        #[clone] type Foo = Val<Foo>;
    })
    .unwrap();

    let rt = match Runtime::new().with_context_type::<Ctx>() {
        Ok(rt) => rt,
        Err(e) => {
            println!("REGISTRATION ERROR: {e}");
            return;
        }
    };
    println!("registration succeeded");
    let s = src!("fn main() -> i32 { 1 }");
    match s.compile(&rt) {
        Ok(_) => println!("COMPILED"),
        Err(_) => println!("REJECTED"),
    }
}
