use roto::{FileTree, Runtime, Val, library};

#[derive(Clone, PartialEq, Debug)]
struct Marker;

#[test]
fn zst_argument_in_first_position_script_to_rust() {
    let rt = Runtime::from_lib(library! {
        #[clone] type Marker = Val<Marker>;

        fn mk() -> Val<Marker> { Val(Marker) }

        fn second(_m: Val<Marker>, x: u32) -> u32 { x }
    })
    .unwrap();
    let src = "
        fn main(x: u32) -> u32 {
            second(mk(), x)
        }
    ";
    let mut pkg = FileTree::test_file("p.roto", src, 0).compile(&rt).unwrap();
    let f = pkg.get_function::<fn(u32) -> u32>("main").unwrap();
    assert_eq!(f.call(41), 41);
}

#[test]
fn zst_argument_in_first_position_rust_to_script() {
    let rt = Runtime::from_lib(library! {
        #[clone] type Marker = Val<Marker>;
    })
    .unwrap();
    let src = "
        fn pick(m: Marker, x: u32) -> u32 {
            x
        }
    ";
    let mut pkg = FileTree::test_file("p.roto", src, 0).compile(&rt).unwrap();
    let f = pkg.get_function::<fn(Val<Marker>, u32) -> u32>("pick").unwrap();
    assert_eq!(f.call(Val(Marker), 41), 41);
}

#[test]
fn zst_more_shapes() {
    let rt = Runtime::from_lib(library! {
        #[clone] type Marker = Val<Marker>;

        fn mk() -> Val<Marker> { Val(Marker) }

        fn third(a: u32, _m: Val<Marker>, b: u32) -> u32 { a * 100 + b }

        fn pass(m: Val<Marker>) -> Val<Marker> { m }
    })
    .unwrap();
    let src = "
        record R { a: u32, m: Marker, b: u32 }

        fn main(x: u32, m: Marker, y: u32) -> u32 {
            let r = R { a: x, m: pass(m), b: y };
            let l = [r.m, mk()];
            match l.get(1) {
                Some(mm) => third(r.a, mm, r.b),
                None => 0,
            }
        }

        fn ret(m: Marker, x: u32) -> Marker {
            if x > 3 { m } else { mk() }
        }
    ";
    let mut pkg = FileTree::test_file("p.roto", src, 0).compile(&rt).unwrap();
    let f = pkg.get_function::<fn(u32, Val<Marker>, u32) -> u32>("main").unwrap();
    assert_eq!(f.call(4, Val(Marker), 7), 407);
    let g = pkg.get_function::<fn(Val<Marker>, u32) -> Val<Marker>>("ret").unwrap();
    assert_eq!(g.call(Val(Marker), 5), Val(Marker));
    assert_eq!(g.call(Val(Marker), 1), Val(Marker));
}
