// Witness for a C04 / C18 defect (rule C18.I13): a registered type whose name is that of a primitive (`#[clone] type u8 = Val<Foo>;`) was
// accepted - the type checker silently skips registrations that resolve to a primitive - while the runtime recorded Val<Foo> under
// the name `u8`.  A registered `fn make_foo() -> Val<Foo>` then has the Roto type `u8`: `fn f() -> u8 { make_foo() }` compiled and
// `get_function::<fn() -> u8>("f")` succeeded (a 16-byte registered value read as a u8).  Inside a module (`mod m { type u32 = .. }`) the
// skip (a RECURSIVE lookup) left the runtime type without a declaration and any script using it hit an ICE in scope.rs.
// Appended to src/codegen/tests.rs, `cargo test --offline --lib verif_type_named_like_primitive -- --nocapture`:
// before the fix "registration succeeded / script COMPILED; get_function::<fn() -> u8> is_ok = true / in module: compile -> Err(..)" (panic);
// after it "REGISTRATION ERROR: Item `u8` already exists in this scope / in module: compile -> Ok(true)"  (reported by two seeding agents).
#[test]
fn verif_type_named_like_primitive() {
    #[derive(Clone, Debug, PartialEq)]
    struct Foo(u64, u64);

    let rt = Runtime::from_lib(library! {
        #[clone] type u8 = Val<Foo>;

        fn make_foo() -> Val<Foo> {
            Val(Foo(1, 2))
        }
    });
    match rt {
        Err(e) => println!("REGISTRATION ERROR: {e}"),
        Ok(rt) => {
            println!("registration succeeded");
            let res = FileTree::test_file(file!(), "fn f() -> u8 { make_foo() }", line!() as usize).compile(&rt);
            match res {
                Err(_) => println!("script rejected"),
                Ok(mut p) => {
                    let f = p.get_function::<fn() -> u8>("f");
                    println!("script COMPILED; get_function::<fn() -> u8> is_ok = {}", f.is_ok());
                }
            }
        }
    }
    let rt = Runtime::from_lib(library! {
        mod m {
            #[clone] type u32 = Val<Foo>;
            fn mk() -> Val<Foo> { Val(Foo(1, 2)) }
        }
    });
    match rt {
        Err(e) => println!("in module: REGISTRATION ERROR: {e}"),
        Ok(rt) => {
            println!("in module: registration succeeded");
            let r = std::panic::catch_unwind(std::panic::AssertUnwindSafe(|| {
                FileTree::test_file(file!(), "fn g() -> bool { let x = m.mk(); true }", line!() as usize).compile(&rt).is_ok()
            }));
            println!("in module: compile -> {r:?}");
        }
    }
}
