use roto::{FileTree, Runtime};

#[test]
fn none_eq_none() {
    let src = "fn f() -> bool { None == None }";
    let rt = Runtime::new();
    let res = FileTree::test_file("demo.roto", src, 0).compile(&rt);
    let mut pkg = res.unwrap();
    let f = pkg.get_function::<fn() -> bool>("f").unwrap();
    assert!(f.call());
}

#[test]
fn verdict_eq_self() {
    let src = "fn f() -> bool { let x = Some(None); x == x }";
    let rt = Runtime::new();
    let res = FileTree::test_file("demo.roto", src, 0).compile(&rt);
    let mut pkg = res.unwrap();
    let f = pkg.get_function::<fn() -> bool>("f").unwrap();
    assert!(f.call());
}
