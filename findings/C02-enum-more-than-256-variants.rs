use roto::{FileTree, Runtime};

fn big(n: usize) -> String {
    let vs: Vec<String> = (0..n).map(|i| format!("V{i}")).collect();
    format!("enum Big {{ {} }}\n", vs.join(", "))
}

#[test]
fn enum_with_300_variants_is_reported_not_a_panic() {
    let src = big(300) + "fn main() -> bool { Big.V0 == Big.V256 }";
    let rt = Runtime::new();
    let res = FileTree::test_file("demo.roto", &src, 0).compile(&rt);
    assert!(res.is_err());
}

#[test]
fn enum_with_300_variants_does_not_alias() {
    // only constructed and matched with a wildcard: no switch entry above 255
    let src = big(300)
        + "fn main() -> bool { match Big.V256 { V0 => true, _ => false } }";
    let rt = Runtime::new();
    match FileTree::test_file("demo.roto", &src, 0).compile(&rt) {
        Err(_) => {}
        Ok(mut pkg) => {
            let f = pkg.get_function::<fn() -> bool>("main").unwrap();
            assert!(!f.call(), "V256 is taken for V0");
        }
    }
}

#[test]
fn enum_with_256_variants_works() {
    let src = big(256)
        + "fn main() -> bool { Big.V255 == Big.V255 && Big.V0 != Big.V255 }";
    let rt = Runtime::new();
    let mut pkg = FileTree::test_file("demo.roto", &src, 0)
        .compile(&rt)
        .map_err(|e| e.to_string())
        .unwrap();
    let f = pkg.get_function::<fn() -> bool>("main").unwrap();
    assert!(f.call());
}
