use roto::List;

#[test]
fn contains_option() {
    let l: List<Option<u32>> = List::new();
    l.push(Some(1));
    l.push(None);
    l.push(Some(7));
    assert_eq!(l.get(0), Some(Some(1)));
    assert!(l.contains(&Some(1)), "contains Some(1)");
    assert!(l.contains(&None), "contains None");
    assert_eq!(l.index(&Some(7)), Some(2));
    assert!(!l.contains(&Some(9)));
}

#[test]
fn contains_result() {
    let l: List<Result<u8, u32>> = List::new();
    l.push(Ok(1));
    l.push(Err(5));
    assert!(l.contains(&Ok(1)), "contains Ok(1)");
    assert!(l.contains(&Err(5)), "contains Err(5)");
    assert_eq!(l.index(&Err(5)), Some(1));
}
