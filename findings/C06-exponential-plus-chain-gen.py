import sys
n=int(sys.argv[1])
print("fn main(x: u32) -> u32 { " + " + ".join(["x"]*n) + " }")
