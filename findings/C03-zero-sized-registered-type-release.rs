// Witness for known finding C03.F14 (= C05.A7): zero-sized registered types are elided from the IR (lir::lower::lower_type answers
// None for every zero-sized type before looking at its kind), so the clone and drop instructions of such values are not emitted in
// pairs: a value made by a host function and never handed on is never dropped (a, b, e), and a value used twice is dropped twice by
// the consuming host function without ever being cloned (d).  `Marker` counts live instances in new/clone/drop.
// Appended to src/codegen/tests.rs, `cargo test --offline --lib verif_zst_clone_drop_balance -- --nocapture` prints on the current tree:
//   a() = 1: live before 0, after 1      (leak)
//   b() = 1: live before 1, after 2      (leak)
//   c() = 1: live before 2, after 2      (balanced: take(m) consumes it)
//   d() = 2: live before 2, after 1      (one made, two dropped)
//   e(m) = 2: live before 1, after 2     (argument from Rust never dropped)
// (observed by a round-5 seeding agent; same root cause as the argument shift of findings/C05-zero-sized-val-argument-shift.rs)
#[test]
fn verif_zst_clone_drop_balance() {
    use std::sync::atomic::{AtomicIsize, Ordering};
    static LIVE: AtomicIsize = AtomicIsize::new(0);
    #[derive(Debug, PartialEq)]
    struct Marker;
    impl Marker {
        fn new() -> Self { LIVE.fetch_add(1, Ordering::SeqCst); Marker }
    }
    impl Clone for Marker {
        fn clone(&self) -> Self { LIVE.fetch_add(1, Ordering::SeqCst); Marker }
    }
    impl Drop for Marker {
        fn drop(&mut self) { LIVE.fetch_sub(1, Ordering::SeqCst); }
    }

    let lib = library! {
        #[clone] type Marker = Val<Marker>;
        fn mk() -> Val<Marker> { Val(Marker::new()) }
        fn take(m: Val<Marker>) -> u32 { let _ = m; 1 }
    };
    let rt = Runtime::from_lib(lib).unwrap();
    let s = src!(
        r#"
        fn a() -> u32 { let m = mk(); 1 }
        fn b() -> u32 { let m = mk(); let n = m; 1 }
        fn c() -> u32 { let m = mk(); take(m) }
        fn d() -> u32 { let m = mk(); take(m) + take(m) }
        fn e(m: Marker) -> u32 { let n = m; 2 }
        "#
    );
    let mut pkg = compile_with_runtime(s, rt);
    for name in ["a", "b", "c", "d"] {
        let f = pkg.get_function::<fn() -> u32>(name).unwrap();
        let before = LIVE.load(Ordering::SeqCst);
        let r = f.call();
        println!("{name}() = {r}: live before {before}, after {}", LIVE.load(Ordering::SeqCst));
    }
    let f = pkg.get_function::<fn(Val<Marker>) -> u32>("e").unwrap();
    let before = LIVE.load(Ordering::SeqCst);
    let r = f.call(Val(Marker::new()));
    println!("e(m) = {r}: live before {before}, after {}", LIVE.load(Ordering::SeqCst));
}
