// Witness for a C13 defect (rule C13.R11): the imports of one scope did not work "in any order".  The first segment of an import is
// looked up like any name - imports of the own scope before the enclosing scopes - but the fixpoint of TypeChecker::imports attempted
// every import in every round, so `import m.f` written BEFORE `import super.b.m` in the same block found another `m` that is visible
// from the enclosing function body and imported `f` from there.
// Appended to src/codegen/tests.rs, `cargo test --offline --lib verif_import_order_in_one_scope -- --nocapture`:
// before the fix  nested block: b.m first = 2, m.f first = 1        after it  2, 2      (observed by a round-5 seeding agent)
#[test]
fn verif_import_order_in_one_scope() {
    fn run(foo_src: &'static str) -> i32 {
        let pkg = source_file!(
            "pkg",
            "
                fn main() -> i32 {
                    foo.go()
                }
            "
        );
        let foo = crate::SourceFile {
            name: "foo".into(),
            module_name: "foo".into(),
            contents: foo_src.into(),
            location_offset: 0,
            children: Vec::new(),
        };
        let m = source_file!("m", "fn f() -> i32 { 1 }");
        let b = source_file!("b", "");
        let bm = source_file!("m", "fn f() -> i32 { 2 }");
        let tree = FileTree::file_spec(FileSpec::Directory(
            pkg,
            vec![
                FileSpec::File(foo),
                FileSpec::File(m),
                FileSpec::Directory(b, vec![FileSpec::File(bm)]),
            ],
        ));
        let mut p = compile(tree);
        p.get_function::<fn() -> i32>("main").unwrap().call()
    }
    // `m` in `import m.f` is bound by the block's own import `super.b.m` in both spellings; the enclosing function body imports another `m`
    let first = run("fn go() -> i32 { import super.m; { import super.b.m; import m.f; f() } }");
    let second = run("fn go() -> i32 { import super.m; { import m.f; import super.b.m; f() } }");
    println!("nested block: b.m first = {first}, m.f first = {second}");
}
