use roto::List;
use std::sync::{Arc, Barrier};
use std::time::{Duration, Instant};

#[test]
fn list_eq_from_two_threads_terminates() {
    let a: List<u64> = List::new();
    let b: List<u64> = List::new();
    for i in 0..4 { a.push(i); b.push(i); }
    let done = Arc::new(std::sync::atomic::AtomicUsize::new(0));
    let bar = Arc::new(Barrier::new(2));
    let mut hs = Vec::new();
    for k in 0..2 {
        let (a, b, done, bar) = (a.clone(), b.clone(), done.clone(), bar.clone());
        hs.push(std::thread::spawn(move || {
            bar.wait();
            for _ in 0..200_000 {
                let r = if k == 0 { a == b } else { b == a };
                assert!(r);
            }
            done.fetch_add(1, std::sync::atomic::Ordering::SeqCst);
        }));
    }
    let start = Instant::now();
    while done.load(std::sync::atomic::Ordering::SeqCst) < 2 {
        if start.elapsed() > Duration::from_secs(20) {
            panic!("a == b and b == a on two threads did not finish within 20 s: deadlock");
        }
        std::thread::sleep(Duration::from_millis(20));
    }
    for h in hs { h.join().unwrap(); }
}
