use std::sync::{Arc, Mutex};
use roto::{FileTree, Function, List, RotoString, Runtime, location};

// (a) a list returned by a handle is only dropped after handle+package are gone
#[test]
fn a_returned_list_dropped_after_module() {
    let rt = Runtime::new();
    let src = "fn make() -> List[String] { [\"a\", \"b\"] }";
    let mut pkg = FileTree::test_file("odd.roto", src, 0).compile(&rt).unwrap();
    let f = pkg.get_function::<fn() -> List<RotoString>>("make").unwrap();
    let l = f.call();
    drop(f);
    drop(pkg);
    drop(l);
}

// (b) same for List[u64] and ==
#[test]
fn b_returned_list_eq_after_module() {
    let rt = Runtime::new();
    let src = "fn make() -> List[u64] { [1, 2] }";
    let mut pkg = FileTree::test_file("odd.roto", src, 0).compile(&rt).unwrap();
    let f = pkg.get_function::<fn() -> List<u64>>("make").unwrap();
    let l = f.call();
    let m = f.call();
    drop(f);
    drop(pkg);
    assert!(l == m);
}

// (c) the usual declaration order: runtime outlives the package; a registered
// closure has kept a list made by the script
#[test]
fn c_closure_keeps_script_list_runtime_outlives_package() {
    let store: Arc<Mutex<Vec<List<RotoString>>>> = Default::default();
    let mut rt = Runtime::new();
    let s = store.clone();
    rt.add(Function::new("keep", "", vec!["l"], move |l: List<RotoString>| { s.lock().unwrap().push(l); }, location!()).unwrap()).unwrap();
    drop(store);
    let src = "fn go() { keep([\"a\"]); }";
    let mut pkg = FileTree::test_file("odd.roto", src, 0).compile(&rt).unwrap();
    let f = pkg.get_function::<fn()>("go").unwrap();
    f.call();
    // locals drop in reverse order: f, pkg, then rt (which now frees the kept list)
}

// (d) list constants are shared, not copied
#[test]
fn d_list_constant_changes() {
    let rt = Runtime::new();
    let src = "const FOO: List[u64] = [1];\nfn get() -> List[u64] { FOO }\nfn len() -> u64 { FOO.len() }";
    let mut pkg = FileTree::test_file("odd.roto", src, 0).compile(&rt).unwrap();
    let get = pkg.get_function::<fn() -> List<u64>>("get").unwrap();
    let len = pkg.get_function::<fn() -> u64>("len").unwrap();
    assert_eq!(len.call(), 1);
    let l = get.call();
    l.push(7);
    drop(l);
    assert_eq!(len.call(), 1, "constant changed");
}
