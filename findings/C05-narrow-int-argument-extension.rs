// Witness for a C05 / C01 defect (rule C05.A10): small integer arguments (bool, u8, i8, u16, i16) that compiled code passes BY VALUE to a
// registered host function were not extended.  The signature that codegen declares for the imported trampoline used plain
// AbiParam::new(I8 / I16), for which Cranelift leaves the upper bits of the argument register undefined, while the trampoline is an
// `extern "C"` function compiled by rustc, which - like every C compiler on x86-64 - relies on the caller having extended arguments
// narrower than 32 bits (LLVM `zeroext` / `signext`).  Only optimised builds of the host exploit that, so the suite (debug) never saw it.
// Appended to src/codegen/tests.rs, `cargo test --offline --release --lib verif_narrow_int_extension -- --nocapture`:
// before the fix  f(200,100) = 300, g(100,100) = 200, h(60000,10000) = 70000, k(30000,10000) = 40000
// after it        44, -56, 4464, -25536 (the wrapped sums, as in debug builds and in the IR evaluator)   (reported by a round-5 agent).
#[test]
fn verif_narrow_int_extension() {
    let rt = Runtime::from_lib(library! {
        fn widen_u8(x: u8) -> u32 { x as u32 }
        fn widen_i8(x: i8) -> i32 { x as i32 }
        fn widen_u16(x: u16) -> u32 { x as u32 }
        fn widen_i16(x: i16) -> i32 { x as i32 }
        fn table(x: u8) -> u32 { static T: [u32; 256] = [7; 256]; T[x as usize] }
    }).unwrap();
    let s = src!(
        "
        fn f(a: u8, b: u8) -> u32 { widen_u8(a + b) }
        fn g(a: i8, b: i8) -> i32 { widen_i8(a + b) }
        fn h(a: u16, b: u16) -> u32 { widen_u16(a + b) }
        fn k(a: i16, b: i16) -> i32 { widen_i16(a + b) }
        fn t(a: u8, b: u8) -> u32 { table(a + b) }
        fn r(a: u8, b: u8) -> u8 { a + b }
        fn ri(a: i8, b: i8) -> i8 { a + b }
    "
    );
    let mut p = compile_with_runtime(s, rt);
    let f = p.get_function::<fn(u8, u8) -> u32>("f").unwrap();
    let g = p.get_function::<fn(i8, i8) -> i32>("g").unwrap();
    let h = p.get_function::<fn(u16, u16) -> u32>("h").unwrap();
    let k = p.get_function::<fn(i16, i16) -> i32>("k").unwrap();
    let t = p.get_function::<fn(u8, u8) -> u32>("t").unwrap();
    let r = p.get_function::<fn(u8, u8) -> u8>("r").unwrap();
    let ri = p.get_function::<fn(i8, i8) -> i8>("ri").unwrap();
    println!("f(200,100) = {} (expected 44)", f.call(200, 100));
    println!("g(100,100) = {} (expected -56)", g.call(100, 100));
    println!("h(60000,10000) = {} (expected 4464)", h.call(60000, 10000));
    println!("k(30000,10000) = {} (expected -25536)", k.call(30000, 10000));
    println!("r(200,100) as u32 = {} (expected 44)", r.call(std::hint::black_box(200), 100) as u32);
    println!("ri(100,100) as i32 = {} (expected -56)", ri.call(std::hint::black_box(100), 100) as i32);
    println!("t(200,100) = {} (expected 7)", t.call(200, 100));
}
