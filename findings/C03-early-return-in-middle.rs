// Witness for the C03 defect fixed in 0dd5d49 (rule C03.F11).
// Appended to src/codegen/tests.rs of the pinned tree (before the fix) and run with
//   cargo test --offline --lib verif_question_mark_in_middle -- --nocapture
// it printed
//   arg(false) = None: made 1 dropped 0      <- earlier argument leaked
//   tl(false)  = None: made 1 dropped 0      <- list (and its element) leaked
//   rec(false) = None: made 1 dropped 2      <- field `c` dropped although it was never initialised
// and after the fix made == dropped on every line.
#[test]
fn verif_question_mark_in_middle() {
    use std::sync::atomic::Ordering;

    static MADE: AtomicUsize = AtomicUsize::new(0);
    static DROPS: AtomicUsize = AtomicUsize::new(0);

    #[derive(Debug, PartialEq)]
    struct Tracked(#[allow(dead_code)] u64);

    impl Clone for Tracked {
        fn clone(&self) -> Self {
            MADE.fetch_add(1, Ordering::Relaxed);
            Tracked(self.0)
        }
    }

    impl Drop for Tracked {
        fn drop(&mut self) {
            DROPS.fetch_add(1, Ordering::Relaxed);
        }
    }

    let rt = Runtime::from_lib(library! {
        #[clone] type Tracked = Val<Tracked>;

        fn mk(x: u64) -> Val<Tracked> {
            MADE.fetch_add(1, Ordering::Relaxed);
            Val(Tracked(x))
        }

        fn take2(_a: Val<Tracked>, _b: u32) -> u32 {
            1
        }
    })
    .unwrap();

    let s = src!(
        "
        fn opt(some: bool) -> u32? {
            if some { Some(1) } else { None }
        }

        fn rec(some: bool) -> u32? {
            let r = { a: mk(1), b: opt(some)?, c: mk(3) };
            Some(r.b)
        }

        fn lst(some: bool) -> u32? {
            let l = [opt(true)?, opt(some)?, 3];
            Some(1)
        }

        fn tlst(some: bool) -> u32? {
            let l = [take2(mk(1), 1), opt(some)?, 3];
            Some(1)
        }

        fn optt(some: bool) -> Tracked? {
            if some { Some(mk(7)) } else { None }
        }

        fn tl(some: bool) -> u32? {
            let l = [mk(1), optt(some)?, mk(3)];
            Some(1)
        }

        fn arg(some: bool) -> u32? {
            Some(take2(mk(1), opt(some)?))
        }
    "
    );

    let mut p = compile_with_runtime(s, rt);
    for name in ["arg", "tlst", "lst", "rec", "tl"] {
        for some in [true, false] {
            let f = p.get_function::<fn(bool) -> Option<u32>>(name).unwrap();
            let before = (MADE.load(Ordering::Relaxed), DROPS.load(Ordering::Relaxed));
            let out = f.call(some);
            let after = (MADE.load(Ordering::Relaxed), DROPS.load(Ordering::Relaxed));
            println!(
                "{name}({some}) = {out:?}: made {} dropped {}",
                after.0 - before.0,
                after.1 - before.1
            );
        }
    }
}
