// Witness for a C03 defect (rule C03.F11, popped-frame token): the frame holding the fields extracted for a match arm was popped
// BEFORE the guard expression was lowered, so an early return inside the guard (`Some(t) if opt(k)? => ..`) returned without
// dropping them.  Appended to src/codegen/tests.rs and run with `cargo test --offline --lib verif_guard_early_return -- --nocapture`:
// before the fix `f(0) = None: made 3 dropped 2`, after it `made 3 dropped 3` (first reported by a round-4 seeding agent).
#[test]
fn verif_guard_early_return() {
    use std::sync::atomic::Ordering;

    static MADE: AtomicUsize = AtomicUsize::new(0);
    static DROPS: AtomicUsize = AtomicUsize::new(0);

    #[derive(Debug, PartialEq)]
    struct Tracked(#[allow(dead_code)] u64);

    impl Clone for Tracked {
        fn clone(&self) -> Self {
            MADE.fetch_add(1, Ordering::Relaxed);
            Tracked(self.0)
        }
    }

    impl Drop for Tracked {
        fn drop(&mut self) {
            DROPS.fetch_add(1, Ordering::Relaxed);
        }
    }

    let rt = Runtime::from_lib(library! {
        #[clone] type Tracked = Val<Tracked>;

        fn mk(x: u64) -> Val<Tracked> {
            MADE.fetch_add(1, Ordering::Relaxed);
            Val(Tracked(x))
        }
    })
    .unwrap();

    let s = src!(
        "
        fn opt(k: u32) -> bool? {
            if k == 0 { None } else { Some(k == 1) }
        }

        fn f(k: u32) -> bool? {
            let x = Some(mk(1));
            let r = match x {
                Some(t) if opt(k)? => true,
                Some(t) => false,
                None => false,
            };
            Some(r)
        }
    "
    );

    let mut p = compile_with_runtime(s, rt);
    for k in [0u32, 1, 2] {
        let f = p.get_function::<fn(u32) -> Option<bool>>("f").unwrap();
        let before = (MADE.load(Ordering::Relaxed), DROPS.load(Ordering::Relaxed));
        let out = f.call(k);
        let after = (MADE.load(Ordering::Relaxed), DROPS.load(Ordering::Relaxed));
        println!("f({k}) = {out:?}: made {} dropped {}", after.0 - before.0, after.1 - before.1);
    }
}
