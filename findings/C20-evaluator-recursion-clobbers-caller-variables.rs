use roto::{FileTree, Runtime};

#[test]
fn recursion() {
    let src = "
        fn sum(n: u32) -> u32 {
            if n == 0 { 0 } else { sum(n - 1) + n }
        }
        fn main(n: u32) -> u32 { sum(n) }
    ";
    let rt = Runtime::new();
    let lir = FileTree::test_file("demo.roto", src, 0)
        .parse().unwrap().typecheck(&rt).unwrap().lower_to_mir().lower_to_lir();
    let mut mem = Default::default();
    let res = lir.eval(&mut mem, 0u32.into(), vec![5u32.into()]);
    let evaluated = format!("{res:?}");
    let mut pkg = lir.codegen();
    let f = pkg.get_function::<fn(u32) -> u32>("main").unwrap();
    assert_eq!(evaluated, format!("Some(U32({}))", f.call(5)));
}
