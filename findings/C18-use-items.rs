// Witnesses for two C18 observations on `use` items of a registered library (appended to src/codegen/tests.rs and run
// with `cargo test --offline --lib verif_use_ -- --nocapture --test-threads 1`).
//
// verif_use_of_nothing (rule C18.I10, fixed): `use foo::nothing;` registered successfully and a script that mentions
//   `nothing` panicked in typechecker/scope.rs (unwrap on a missing declaration); after the fix registration fails with
//   "Cannot import `nothing`: no such item".
// verif_use_in_module_scope (rule C18.I9, known finding): `mod bar { use foo::one; }` makes `one` usable at the top level
//   (prints "one() at top level: COMPILED") and not at bar: declare_imports descends into a module without switching to
//   the module's scope, unlike its sibling passes.
#[test]
fn verif_use_in_module_scope() {
    let rt = Runtime::from_lib(library! {
        mod foo {
            fn one() -> i32 { 1 }
        }
        mod bar {
            use foo::one;
        }
    });
    let rt = match rt {
        Ok(rt) => rt,
        Err(e) => { println!("REGISTRATION ERROR: {e}"); return; }
    };
    for (what, s) in [
        ("bar.one()", "fn main() -> i32 { bar.one() }"),
        ("one() at top level", "fn main() -> i32 { one() }"),
    ] {
        let tree = FileTree::test_file(file!(), s, line!() as usize);
        match tree.compile(&rt) {
            Ok(_) => println!("{what}: COMPILED"),
            Err(_) => println!("{what}: REJECTED"),
        }
    }
}

#[test]
fn verif_use_of_nothing() {
    let rt = Runtime::from_lib(library! {
        mod foo {
            fn one() -> i32 { 1 }
        }
        use foo::nothing;
    });
    let rt = match rt {
        Ok(rt) => rt,
        Err(e) => { println!("REGISTRATION ERROR: {e}"); return; }
    };
    println!("registration succeeded");
    let tree = FileTree::test_file(file!(), "fn main() -> i32 { nothing() }", line!() as usize);
    match tree.compile(&rt) {
        Ok(_) => println!("COMPILED"),
        Err(_) => println!("REJECTED"),
    }
}
