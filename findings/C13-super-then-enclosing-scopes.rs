// Witness for the C13 defect (rule C13.R8): a path segment that follows `super` was looked up through the
// enclosing scopes (recurse = true) instead of only among the members of that module.
// Appended to src/codegen/tests.rs of the tree before the fix and run with
//   cargo test --offline --lib verif_super_then_segment -- --nocapture
// it printed COMPILED (`super.pkg.g()` written in pkg.foo.bar resolves although pkg.foo has no member `pkg`);
// after the fix: REJECTED: cannot find value `pkg` in this scope.
#[test]
fn verif_super_then_segment_is_member_only() {
    let pkg = source_file!(
        "pkg",
        "
            fn g() -> i32 {
                1
            }
        "
    );
    let foo = source_file!(
        "foo",
        "
            fn in_foo() -> i32 {
                2
            }
        "
    );
    let bar = source_file!(
        "bar",
        "
            fn main() -> i32 {
                super.pkg.g()
            }
        "
    );

    let tree = FileTree::file_spec(FileSpec::Directory(
        pkg,
        vec![FileSpec::Directory(foo, vec![FileSpec::File(bar)])],
    ));
    let rt = Runtime::new();
    match tree.compile(&rt) {
        Ok(_) => println!("COMPILED: super.g() in pkg.foo.bar resolved although pkg.foo has no member g"),
        Err(e) => println!("REJECTED: {e}"),
    }
}
