#[test]
fn oddity_capturing_closure() {
    use crate::{Function, Library, location};
    let k: u32 = std::hint::black_box(1000);
    let f = Function::new(
        "add_k",
        "Add a captured value.",
        vec!["x"],
        move |x: u32| -> u32 { x + k },
        location!(),
    )
    .unwrap();
    let mut lib = Library::new();
    lib.add(f.into());
    let rt = Runtime::from_lib(lib).unwrap();
    let lowered = src!("fn main(v: u32) -> bool { add_k(v) == 1005 }")
        .parse()
        .unwrap()
        .typecheck(&rt)
        .unwrap()
        .lower_to_mir()
        .lower_to_lir();

    // clobber the stack a bit
    let junk = std::hint::black_box([0xABu8; 4096]);
    let _ = junk;

    let mut mem = Memory::new();
    let ctx = IrValue::Pointer(mem.allocate(0));
    let evaluated = lowered
        .eval(&mut mem, ctx, vec![IrValue::U32(5)])
        .unwrap()
        .as_bool();
    let mut pkg = lowered.codegen();
    let f = pkg.get_function::<fn(u32) -> bool>("main").unwrap();
    let compiled = f.call(5);
    assert!(compiled);
    assert_eq!(evaluated, compiled);
}
