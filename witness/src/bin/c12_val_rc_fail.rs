// must FAIL (E0277): Val<Rc<_>> is not a legal boundary type (Transformed: Send + Sync).
use std::rc::Rc;
fn takes_value<T: roto::Value>() {}
fn main() {
    takes_value::<roto::Val<Rc<i32>>>();
}
