// must FAIL: RotoFunc is sealed; only fn(..) -> R pointer types implement it.
struct Mine;
fn takes_func<F: roto::RotoFunc>() {}
fn main() {
    takes_func::<Mine>();
}
