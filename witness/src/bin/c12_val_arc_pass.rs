// twin that must COMPILE
use std::sync::Arc;
fn takes_value<T: roto::Value>() {}
fn main() {
    takes_value::<roto::Val<Arc<i32>>>();
}
