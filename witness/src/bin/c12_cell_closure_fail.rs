// must FAIL (E0277): a closure capturing a Cell is not Sync and must not be registerable,
// because the resulting TypedFunc is Sync and would run it from several threads.
use std::cell::Cell;
fn main() {
    let counter = Cell::new(0i32);
    let _ = roto::Function::new(
        "bump",
        "",
        Vec::<&str>::new(),
        move || -> i32 {
            counter.set(counter.get() + 1);
            counter.get()
        },
        roto::location!(),
    );
}
