// must COMPILE: handles and lists may be shared between threads.
fn is_send_sync<T: Send + Sync>() {}
fn is_send<T: Send>() {}
fn main() {
    is_send_sync::<roto::TypedFunc<roto::NoCtx, fn(u32) -> u32>>();
    is_send_sync::<roto::List<u32>>();
    is_send::<roto::Package<roto::NoCtx>>();
}
