// must FAIL with E0277 (the sealed supertrait is not implemented and cannot be named):
// downstream crates cannot implement `Value`.
struct Mine;
impl roto::Value for Mine {}
fn main() {}
