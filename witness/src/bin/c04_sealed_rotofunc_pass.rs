// twin that must COMPILE
fn takes_func<F: roto::RotoFunc>() {}
fn main() {
    takes_func::<fn(u32, bool) -> Option<i64>>();
}
