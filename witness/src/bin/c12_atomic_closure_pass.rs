// twin that must COMPILE: the same closure with an atomic counter.
use std::sync::atomic::{AtomicI32, Ordering};
fn main() {
    let counter = AtomicI32::new(0);
    let _ = roto::Function::new(
        "bump",
        "",
        Vec::<&str>::new(),
        move || -> i32 { counter.fetch_add(1, Ordering::SeqCst) + 1 },
        roto::location!(),
    );
}
