// must FAIL: a foreign type does not implement Value (and cannot be made to).
struct Mine;
fn takes_value<T: roto::Value>() {}
fn main() {
    takes_value::<Mine>();
}
