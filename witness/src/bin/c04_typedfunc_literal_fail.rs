// must FAIL (E0451 private fields / E0063): a TypedFunc cannot be built outside get_function.
fn main() {
    let _f: roto::TypedFunc<roto::NoCtx, fn() -> u32> = roto::TypedFunc {
        func: std::ptr::null(),
        return_by_ref: false,
    };
}
