// twin that must COMPILE: a foreign type is usable through Val<T>.
#[derive(Clone, PartialEq)]
struct Mine;
fn takes_value<T: roto::Value>() {}
fn main() {
    takes_value::<roto::Val<Mine>>();
}
