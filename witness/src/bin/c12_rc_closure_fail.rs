// must FAIL (E0277): capturing an Rc (not Send).
use std::rc::Rc;
fn main() {
    let rc = Rc::new(1i32);
    let _ = roto::Function::new(
        "get",
        "",
        Vec::<&str>::new(),
        move || -> i32 { *rc },
        roto::location!(),
    );
}
