// must FAIL: Package has no public field / constructor.
fn main() {
    let _p: roto::Package<roto::NoCtx> = roto::Package { module: unimplemented!() };
}
