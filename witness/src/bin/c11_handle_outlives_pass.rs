// twin that must COMPILE: a handle is an owned value without a lifetime tied to the package or runtime.
fn keep(p: roto::Package<roto::NoCtx>) -> Option<roto::TypedFunc<roto::NoCtx, fn() -> u32>> {
    let mut p = p;
    let f = p.get_function::<fn() -> u32>("main").ok();
    drop(p);
    f
}
fn main() {
    let _ = keep;
}
