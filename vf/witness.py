"""Compile-pass / compile-fail witnesses: rustc's type checker and trait solver
as decision procedure for the type-level clauses (nothing is executed).

Each probe is one bin of /verif/witness (path-depending on the repo under
check); twins differ only in the offending lines.  Expectations are a table:
bin -> ('pass',) | ('fail', {codes}, message substring or None)."""
import json
import os
import shutil
import subprocess
import tempfile

from .report import RuleResult, REPO, VERIF

EXPECT = {
    # C04.G8 sealed traits / no public constructor
    "c04_sealed_value_fail": ("C04", "fail", {"E0277"}, "Sealed"),
    "c04_sealed_value2_fail": ("C04", "fail", {"E0277"}, None),
    "c04_sealed_value_pass": ("C04", "pass", None, None),
    "c04_sealed_rotofunc_fail": ("C04", "fail", {"E0277"}, None),
    "c04_sealed_rotofunc_pass": ("C04", "pass", None, None),
    "c04_typedfunc_literal_fail": ("C04", "fail", {"E0451", None}, "private"),
    # C11.H6
    "c11_package_literal_fail": ("C11", "fail", {"E0451", None}, "private"),
    "c11_handle_outlives_pass": ("C11", "pass", None, None),
    # C12.S2
    "c12_typedfunc_send_sync_pass": ("C12", "pass", None, None),
    "c12_cell_closure_fail": ("C12", "fail", {"E0277"}, "shared between threads"),
    "c12_atomic_closure_pass": ("C12", "pass", None, None),
    "c12_rc_closure_fail": ("C12", "fail", {"E0277"}, None),
    "c12_val_rc_fail": ("C12", "fail", {"E0277"}, None),
    "c12_val_arc_pass": ("C12", "pass", None, None),
}


def run_witnesses():
    """Returns dict bin -> {'errors': [(code, message)], 'built': bool}."""
    src = os.path.join(VERIF, "witness")
    work = tempfile.mkdtemp(prefix="roto-witness-", dir=os.environ.get("TMPDIR", "/tmp"))
    try:
        shutil.copytree(os.path.join(src, "src"), os.path.join(work, "src"))
        os.makedirs(os.path.join(work, ".cargo"))
        open(os.path.join(work, ".cargo", "config.toml"), "w").write("[net]\noffline = true\n")
        toml = open(os.path.join(src, "Cargo.toml")).read().replace('path = "/repo"', 'path = "%s"' % REPO)
        open(os.path.join(work, "Cargo.toml"), "w").write(toml)
        lock = os.path.join(REPO, "Cargo.lock")
        if os.path.exists(lock):
            shutil.copy(lock, os.path.join(work, "Cargo.lock"))
        env = dict(os.environ, CARGO_NET_OFFLINE="true", CARGO_TARGET_DIR=os.path.join(VERIF, ".cache", "target-witness"))
        env.pop("RUSTC_WORKSPACE_WRAPPER", None)
        p = subprocess.run(["cargo", "check", "--offline", "--bins", "--keep-going", "--message-format=json"],
                           cwd=work, env=env, stdout=subprocess.PIPE, stderr=subprocess.PIPE, text=True)
        res = {}
        dep_failed = False
        for line in p.stdout.splitlines():
            try:
                m = json.loads(line)
            except ValueError:
                continue
            if m.get("reason") == "compiler-message" and m["message"]["level"] == "error":
                t = m["target"]["name"]
                if m["target"]["kind"] != ["bin"]:
                    dep_failed = True
                    continue
                code = (m["message"].get("code") or {}).get("code")
                res.setdefault(t, {"errors": [], "built": False})["errors"].append((code, m["message"]["message"]))
            if m.get("reason") == "compiler-artifact" and m["target"]["kind"] == ["bin"]:
                res.setdefault(m["target"]["name"], {"errors": [], "built": False})["built"] = True
        return res, dep_failed, p.stderr[-2000:]
    finally:
        shutil.rmtree(work, ignore_errors=True)


def rule(prop, rule_id, desc):
    r = RuleResult(rule_id, desc, floor=len([k for k, v in EXPECT.items() if v[0] == prop]))
    res, dep_failed, err = run_witnesses()
    if dep_failed or not res:
        r.missing("witness crate could not be checked against the repo (dependency failed to compile): %s" % err[-300:])
        return r
    for name, (p, kind, codes, substr) in sorted(EXPECT.items()):
        if p != prop:
            continue
        got = res.get(name)
        if got is None:
            r.missing("witness " + name)
            continue
        ecodes = [c for c, _ in got["errors"]]
        r.inst(name, {"probe": name, "expected": kind, "errors": ecodes[:3], "compiled": got["built"]})
        if kind == "pass":
            if got["errors"] or not got["built"]:
                r.bad("witness", name, "witness/src/bin/%s.rs" % name, 0,
                      "the twin that must compile no longer does (%s): the negative probes prove nothing, or a legitimate use of the API broke" % got["errors"][:1])
        else:
            if not got["errors"]:
                r.bad("witness", name, "witness/src/bin/%s.rs" % name, 0,
                      "a program that must be rejected by the type system now compiles: the type-level guarantee it witnesses is gone")
            else:
                ok = any((c in codes) and (substr is None or substr in msg or any(substr in m2 for _, m2 in got["errors"])) for c, msg in got["errors"])
                if not ok:
                    r.bad("witness", name + " reason", "witness/src/bin/%s.rs" % name, 0,
                          "fails to compile, but not for the witnessed reason (expected %s %s, got %s)" % (sorted(str(c) for c in codes), substr or "", got["errors"][:2]))
    return r
