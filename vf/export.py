"""Export facts from /repo's current working tree with the rotofacts driver.

The export is cached under /verif/.cache/facts/<hash> keyed by the content
hash of everything the build reads (src/, macros/, Cargo.toml, Cargo.lock,
docs used by rules are read directly, not cached).  A stale or missing fact
file is a hard failure (exit 2), never a pass.
"""
import fcntl
import hashlib
import json
import os
import shutil
import subprocess
import sys
import time

VERIF = os.path.dirname(os.path.dirname(os.path.abspath(__file__)))
REPO = os.environ.get("VERIF_REPO", "/repo")
CACHE = os.environ.get("VERIF_CACHE") or os.path.join(VERIF, ".cache")
DRIVER = os.path.join(VERIF, "tools/rotofacts/target/release/rotofacts")


def _sysroot():
    return subprocess.check_output(
        ["rustc", "+nightly", "--print", "sysroot"], text=True
    ).strip()


def tree_hash(root, subdirs=("src", "macros"), files=("Cargo.toml", "Cargo.lock")):
    h = hashlib.sha256()
    paths = []
    for sd in subdirs:
        base = os.path.join(root, sd)
        for dp, dn, fn in os.walk(base):
            dn[:] = [d for d in dn if d != "target"]
            for f in fn:
                paths.append(os.path.join(dp, f))
    for f in files:
        p = os.path.join(root, f)
        if os.path.exists(p):
            paths.append(p)
    for p in sorted(paths):
        h.update(os.path.relpath(p, root).encode())
        h.update(b"\0")
        with open(p, "rb") as fh:
            h.update(fh.read())
        h.update(b"\0")
    # the driver itself is part of the key
    if os.path.exists(DRIVER):
        st = os.stat(DRIVER)
        h.update(("%d:%d" % (st.st_size, int(st.st_mtime))).encode())
    return h.hexdigest()[:24]


def build_driver():
    if os.path.exists(DRIVER):
        src_m = max(
            os.stat(os.path.join(dp, f)).st_mtime
            for dp, _, fn in os.walk(os.path.join(VERIF, "tools/rotofacts/src"))
            for f in fn
        )
        if os.stat(DRIVER).st_mtime >= src_m:
            return
    env = dict(os.environ, CARGO_NET_OFFLINE="true")
    r = subprocess.run(
        ["cargo", "build", "--release", "--offline"],
        cwd=os.path.join(VERIF, "tools/rotofacts"),
        env=env,
        stdout=subprocess.PIPE,
        stderr=subprocess.STDOUT,
        text=True,
    )
    if r.returncode != 0:
        sys.stderr.write(r.stdout)
        sys.stderr.write("rotofacts: driver build failed\n")
        sys.exit(2)


def _run_export(crate_dir, out, stamp, target, crates, features=None, fp_names=()):
    env = dict(os.environ)
    env["CARGO_NET_OFFLINE"] = "true"
    env["LD_LIBRARY_PATH"] = _sysroot() + "/lib"
    env["RUSTFLAGS"] = "-Zmir-opt-level=0 -Awarnings"
    env["RUSTC_WORKSPACE_WRAPPER"] = DRIVER
    env["ROTOFACTS_OUT"] = out
    env["ROTOFACTS_STAMP"] = stamp
    env["ROTOFACTS_CRATES"] = crates
    env["CARGO_TARGET_DIR"] = target
    env.pop("RUSTC_WRAPPER", None)
    # force the workspace members through the wrapper again
    fp = os.path.join(target, "debug", ".fingerprint")
    if os.path.isdir(fp):
        for d in os.listdir(fp):
            if any(d.startswith(n + "-") for n in fp_names):
                shutil.rmtree(os.path.join(fp, d), ignore_errors=True)
    cmd = ["cargo", "+nightly", "check", "--offline", "--lib"]
    if features is not None:
        cmd += features
    r = subprocess.run(
        cmd, cwd=crate_dir, env=env, stdout=subprocess.PIPE, stderr=subprocess.STDOUT, text=True
    )
    return r


def export_repo(features=None, tag="default"):
    """Returns the directory holding fresh facts for /repo."""
    os.makedirs(CACHE, exist_ok=True)
    build_driver()
    lock = open(os.path.join(CACHE, "lock"), "w")
    fcntl.flock(lock, fcntl.LOCK_EX)
    try:
        stamp = tree_hash(REPO) + "-" + tag
        out = os.path.join(CACHE, "facts", stamp)
        meta = os.path.join(out, "roto.meta.json")
        if os.path.exists(meta):
            try:
                if json.load(open(meta)).get("stamp") == stamp:
                    return out
            except Exception:
                pass
        shutil.rmtree(out, ignore_errors=True)
        os.makedirs(out, exist_ok=True)
        target = os.path.join(CACHE, "target-" + tag)
        t0 = time.time()
        r = _run_export(
            REPO, out, stamp, target, "roto,roto_macros", features,
            fp_names=("roto", "roto-macros", "roto_macros"),
        )
        if r.returncode != 0 or not os.path.exists(meta):
            sys.stderr.write(r.stdout[-6000:])
            sys.stderr.write(
                "\nrotofacts: export of %s failed (does the tree compile?)\n" % REPO
            )
            shutil.rmtree(out, ignore_errors=True)
            sys.exit(2)
        if json.load(open(meta)).get("stamp") != stamp:
            sys.stderr.write("rotofacts: stale fact file\n")
            sys.exit(2)
        with open(os.path.join(out, "export_wall_s"), "w") as fh:
            fh.write("%.1f" % (time.time() - t0))
        # prune old exports (keep the 4 most recent)
        base = os.path.join(CACHE, "facts")
        ds = sorted(
            (d for d in os.listdir(base) if d != os.path.basename(out)),
            key=lambda d: os.stat(os.path.join(base, d)).st_mtime,
        )
        for d in ds[:-3]:
            shutil.rmtree(os.path.join(base, d), ignore_errors=True)
        return out
    finally:
        fcntl.flock(lock, fcntl.LOCK_UN)
        lock.close()


def export_canary():
    os.makedirs(CACHE, exist_ok=True)
    build_driver()
    lock = open(os.path.join(CACHE, "lock-canary"), "w")
    fcntl.flock(lock, fcntl.LOCK_EX)
    try:
        cdir = os.path.join(VERIF, "canary")
        stamp = tree_hash(cdir, subdirs=("src",), files=("Cargo.toml",)) + "-canary"
        out = os.path.join(CACHE, "facts", stamp)
        meta = os.path.join(out, "canary.meta.json")
        if os.path.exists(meta):
            try:
                if json.load(open(meta)).get("stamp") == stamp:
                    os.utime(out)
                    return out
            except Exception:
                pass
        shutil.rmtree(out, ignore_errors=True)
        os.makedirs(out, exist_ok=True)
        target = os.path.join(CACHE, "target-canary")
        r = _run_export(cdir, out, stamp, target, "canary", None, fp_names=("canary",))
        if r.returncode != 0 or not os.path.exists(meta):
            sys.stderr.write(r.stdout[-6000:])
            sys.stderr.write("\nrotofacts: canary export failed\n")
            sys.exit(2)
        return out
    finally:
        fcntl.flock(lock, fcntl.LOCK_UN)
        lock.close()


if __name__ == "__main__":
    print(export_repo())
    if os.path.isdir(os.path.join(VERIF, "canary")):
        print(export_canary())
