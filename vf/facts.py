"""Loader for rotofacts output."""
import json
import os


class Body:
    __slots__ = ("path", "file", "line", "def_kind", "hir", "mir", "_preds", "_doms")

    def __init__(self, d):
        self.path = d["path"]
        self.file = d["file"]
        self.line = d["line"]
        self.def_kind = d["def_kind"]
        self.hir = d["hir"]
        self.mir = d["mir"]
        self._preds = None
        self._doms = None

    @property
    def blocks(self):
        return self.mir["blocks"] if self.mir else []

    def __repr__(self):
        return "<Body %s>" % self.path


class Facts:
    def __init__(self, directory, crate):
        self.dir = directory
        self.crate = crate
        self.meta = json.load(open(os.path.join(directory, crate + ".meta.json")))
        self.items = json.load(open(os.path.join(directory, crate + ".items.json")))
        self.index = {}
        for e in self.meta["index"]:
            # several bodies may share one def-path string (e.g. {closure#0} in
            # generic impls printed identically) - keep all
            self.index.setdefault(e[0], []).append(e)
        self._fh = open(os.path.join(directory, crate + ".bodies.jsonl"), "rb")
        self._cache = {}
        self._all = None

    # --- bodies -----------------------------------------------------------
    def paths(self):
        return list(self.index.keys())

    def has(self, path):
        return path in self.index

    def bodies_named(self, path):
        out = []
        for e in self.index.get(path, []):
            key = (e[1], e[2])
            if key not in self._cache:
                self._fh.seek(e[1])
                self._cache[key] = Body(json.loads(self._fh.read(e[2])))
            out.append(self._cache[key])
        return out

    def body(self, path):
        bs = self.bodies_named(path)
        return bs[0] if bs else None

    def find(self, pred):
        """Paths whose string satisfies pred."""
        return [p for p in self.index if pred(p)]

    def all_bodies(self):
        if self._all is None:
            self._all = []
            self._fh.seek(0)
            for line in self._fh:
                if line.strip():
                    self._all.append(Body(json.loads(line)))
        return self._all

    def bodies_in(self, file_suffixes):
        """Bodies whose file ends with one of the suffixes (via the index)."""
        out = []
        for p, es in self.index.items():
            for e in es:
                if any(e[3].endswith(s) for s in file_suffixes):
                    key = (e[1], e[2])
                    if key not in self._cache:
                        self._fh.seek(e[1])
                        self._cache[key] = Body(json.loads(self._fh.read(e[2])))
                    out.append(self._cache[key])
        return out

    # --- items ------------------------------------------------------------
    def adt(self, path):
        for a in self.items["adts"]:
            if a["path"] == path:
                return a
        return None

    def adts(self):
        return self.items["adts"]

    def impls(self):
        return [i for i in self.items["impls"] if not i.get("is_trait_decl")]

    def traits(self):
        return [i for i in self.items["impls"] if i.get("is_trait_decl")]

    def statics(self):
        return self.items["statics"]

    def fns(self):
        return self.items["fns"]

    def layouts(self):
        return {l["ty"]: (l["size"], l["align"]) for l in self.items["layouts"]}


def relfile(path):
    """Repo-relative file name for reports."""
    for marker in ("/repo/", "/canary/"):
        if marker in path:
            return path.split(marker, 1)[1]
    return path
