"""Loader for rotofacts output."""
import json
import os


class Body:
    __slots__ = ("path", "file", "line", "def_kind", "hir", "mir", "_preds", "_doms")

    def __init__(self, d):
        self.path = d["path"]
        self.file = d["file"]
        self.line = d["line"]
        self.def_kind = d["def_kind"]
        self.hir = d["hir"]
        self.mir = d["mir"]
        self._preds = None
        self._doms = None

    @property
    def blocks(self):
        return self.mir["blocks"] if self.mir else []

    def __repr__(self):
        return "<Body %s>" % self.path


def fingerprint(b):
    """(parent path, argument types, return type) of a function body; None for closures, constants and bodies without MIR"""
    if "{closure" in b.path or "{constant#" in b.path or b.def_kind not in ("AssocFn", "Fn") or not b.mir:
        return None     # items inside anonymous constants (the `library!` bodies) are named by position, not by what they are
    n = b.mir.get("argc", 0)
    tys = [str(l.get("ty")) for l in b.mir["locals"][:n + 1]]
    return [b.path.rsplit("::", 1)[0] if "::" in b.path else "", tys[1:], tys[0]]


REFERENCE = os.path.join(os.path.dirname(os.path.abspath(__file__)), "reference_names.json")


class Facts:
    def __init__(self, directory, crate, normalise=True):
        self.dir = directory
        self.crate = crate
        self.meta = json.load(open(os.path.join(directory, crate + ".meta.json")))
        self.items = json.load(open(os.path.join(directory, crate + ".items.json")))
        self.index = {}
        for e in self.meta["index"]:
            # several bodies may share one def-path string (e.g. {closure#0} in
            # generic impls printed identically) - keep all
            self.index.setdefault(e[0], []).append(e)
        self._fh = open(os.path.join(directory, crate + ".bodies.jsonl"), "rb")
        self._cache = {}
        self._all = None
        self.renames = {}       # name in this tree -> name in the reference tree
        if normalise and crate == "roto" and os.path.exists(REFERENCE):
            self._find_renames()

    # --- renamed / moved functions ------------------------------------------
    def _find_renames(self):
        """A private function that an edit renamed (or moved to another impl block / made a method) is the same function: the rules
        name the functions they read, so the facts are normalised to the names of the reference tree first.  A function of this tree
        that the reference tree does not have is matched with a reference function this tree no longer has when they agree on
        (parent, argument types, return type) - or on (name, argument types without the receiver, return type) for a move - and the
        match is unique in both directions.  Nothing is decided here; an ambiguous or wrong match leaves the rule to fail closed."""
        ref = json.load(open(REFERENCE))
        cur = {p for p in self.index if "{closure" not in p}
        # methods of trait impls are what they are by (type, trait): `<X as Drop>::drop` disappearing and `<Y as Drop>::drop` appearing
        # is a change of who implements the trait, never a rename
        is_trait_impl = lambda p: p.startswith("<") and " as " in p.split(">::")[0]
        missing = [p for p in ref if p not in cur and not is_trait_impl(p)]
        fresh = []
        for p in cur:
            if p in ref or is_trait_impl(p):
                continue
            b = self._load(self.index[p][0])
            fp = fingerprint(b)
            if fp is not None:
                fresh.append((p, fp))
        if not missing or not fresh:
            return
        last = lambda p: p.rsplit("::", 1)[-1]
        noself = lambda tys: [t for t in tys[:1] if not ("Self" in t or t.lstrip("&").replace("mut ", "").strip() in ())] + list(tys[1:])

        def strip_recv(parent, tys):
            # argument types without a receiver of the parent's own type
            if tys and parent and parent.split("::<")[0].split("<")[0] in tys[0].replace("&mut ", "").replace("&", ""):
                return tys[1:]
            return tys
        pairs = []
        for mp in missing:
            mparent, margs, mret = ref[mp]
            same_parent = [q for q, fp in fresh if fp[0] == mparent and fp[1] == margs and fp[2] == mret]
            moved = [q for q, fp in fresh if last(q) == last(mp) and fp[2] == mret and strip_recv(fp[0], fp[1]) == strip_recv(mparent, margs)]
            cands = same_parent or moved
            if len(cands) == 1:
                pairs.append((cands[0], mp))
        taken = {}
        for q, mp in pairs:
            taken.setdefault(q, []).append(mp)
        for q, mps in taken.items():
            if len(mps) == 1:
                self.renames[q] = mps[0]
        if not self.renames:
            return
        # longest names first, so that a name that is a prefix of another is not replaced inside it
        self._subst = sorted(((q.encode(), m.encode()) for q, m in self.renames.items()), key=lambda x: -len(x[0]))
        new_index = {}
        for p, es in self.index.items():
            np = p
            for q, m in self.renames.items():
                if p == q or p.startswith(q + "::{"):
                    np = m + p[len(q):]
            new_index.setdefault(np, []).extend([np] + list(e[1:]) for e in es)
        self.index = new_index
        self._cache = {}

    def _norm(self, raw):
        if self.renames:
            for q, m in self._subst:
                if q in raw:
                    raw = raw.replace(q + b'"', m + b'"').replace(q + b"::{", m + b"::{")
        return raw

    def _load(self, e):
        self._fh.seek(e[1])
        return Body(json.loads(self._norm(self._fh.read(e[2]))))

    # --- bodies -----------------------------------------------------------
    def paths(self):
        return list(self.index.keys())

    def has(self, path):
        return path in self.index

    def bodies_named(self, path):
        out = []
        for e in self.index.get(path, []):
            key = (e[1], e[2])
            if key not in self._cache:
                self._cache[key] = self._load(e)
            out.append(self._cache[key])
        return out

    def body(self, path):
        bs = self.bodies_named(path)
        return bs[0] if bs else None

    def find(self, pred):
        """Paths whose string satisfies pred."""
        return [p for p in self.index if pred(p)]

    def all_bodies(self):
        if self._all is None:
            self._all = []
            self._fh.seek(0)
            for line in self._fh:
                if line.strip():
                    self._all.append(Body(json.loads(self._norm(line))))
        return self._all

    def bodies_in(self, file_suffixes):
        """Bodies whose file ends with one of the suffixes (via the index)."""
        out = []
        for p, es in self.index.items():
            for e in es:
                if any(e[3].endswith(s) for s in file_suffixes):
                    key = (e[1], e[2])
                    if key not in self._cache:
                        self._cache[key] = self._load(e)
                    out.append(self._cache[key])
        return out

    # --- items ------------------------------------------------------------
    def adt(self, path):
        for a in self.items["adts"]:
            if a["path"] == path:
                return a
        return None

    def adts(self):
        return self.items["adts"]

    def impls(self):
        return [i for i in self.items["impls"] if not i.get("is_trait_decl")]

    def traits(self):
        return [i for i in self.items["impls"] if i.get("is_trait_decl")]

    def statics(self):
        return self.items["statics"]

    def fns(self):
        return self.items["fns"]

    def layouts(self):
        return {l["ty"]: (l["size"], l["align"]) for l in self.items["layouts"]}


def relfile(path):
    """Repo-relative file name for reports."""
    for marker in ("/repo/", "/canary/"):
        if marker in path:
            return path.split(marker, 1)[1]
    return path
