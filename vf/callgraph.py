"""Call graph over MIR-lite: edges caller -> callee body paths.  Trait method
calls that rustc could resolve are resolved; closures constructed in a body
and function items passed as values are treated as may-be-called."""
from . import mir


def walk_ops(body):
    for b in body.blocks:
        for s in b["stmts"]:
            if s["k"] == "assign":
                rv = s["rv"]
                for key in ("o", "a", "b"):
                    if key in rv:
                        yield rv[key]
                for o in rv.get("ops", []):
                    yield o
        t = b["term"]
        if t["k"] in ("call", "tailcall"):
            for a in t["args"]:
                yield a
            if "ind" in t["f"]:
                yield t["f"]["ind"]


class CallGraph:
    def __init__(self, F):
        self.F = F
        self.edges = {}
        self.unknown = {}  # caller -> count of indirect calls
        names = set(F.paths())
        self.names = names
        for b in F.all_bodies():
            if not b.mir:
                continue
            out = set()
            for bl in b.blocks:
                t = bl["term"]
                if t["k"] in ("call", "tailcall"):
                    f = t["f"]
                    if "ind" in f:
                        self.unknown[b.path] = self.unknown.get(b.path, 0) + 1
                    else:
                        for n in (f.get("resolved"), f.get("def")):
                            if n and n in names:
                                out.add(n)
                        # unresolved trait method: all impls of that method in the crate
                        if f.get("trait") and not f.get("resolved"):
                            meth = f["def"].rsplit("::", 1)[-1]
                            tr = f["trait"]
                            for n in self._impl_methods(tr, meth):
                                out.add(n)
                for s in bl["stmts"]:
                    if s["k"] == "assign" and s["rv"]["k"] == "agg" and s["rv"].get("ak") == "closure":
                        d = s["rv"].get("def")
                        if d in names:
                            out.add(d)
            for o in walk_ops(b):
                c = mir.op_const(o)
                if c and "fn" in c and c["fn"] in names:
                    out.add(c["fn"])
            self.edges[b.path] = out

    _impl_cache = None

    def _impl_methods(self, trait, meth):
        if self._impl_cache is None:
            self._impl_cache = {}
            for n in self.names:
                if n.startswith("<") and " as " in n:
                    tr = n[n.index(" as ") + 4:]
                    tr = tr.split(">::", 1)
                    if len(tr) == 2:
                        tname = tr[0].split("<", 1)[0]
                        self._impl_cache.setdefault((tname, tr[1]), []).append(n)
        return self._impl_cache.get((trait, meth), [])

    def reachable(self, roots):
        seen = set()
        parent = {}
        work = [r for r in roots if r in self.edges]
        for r in work:
            parent[r] = None
        while work:
            n = work.pop()
            if n in seen:
                continue
            seen.add(n)
            for m in self.edges.get(n, ()):
                if m not in seen:
                    parent.setdefault(m, n)
                    work.append(m)
        return seen, parent

    @staticmethod
    def chain(parent, n, limit=12):
        out = [n]
        while parent.get(n) is not None and len(out) < limit:
            n = parent[n]
            out.append(n)
        return list(reversed(out))
