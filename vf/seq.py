"""Order of what is appended to a vector (or to a vector field of a struct) - across helpers.

The rules that speak about "return pointer, then context, then the parameters" need the ORDER in which values end up in an argument
vector or in `Signature::params`, wherever the code that appends them lives: in the function itself, in a helper that takes the
vector by value or by `&mut`, or in a helper that builds and returns the whole thing.  This module computes, by a forward dataflow
over the MIR with summaries of crate helpers, the set of possible tag sequences of every vector identity.

identity  = (root local, tuple of field names)       e.g. (5, ()) for `let mut v = Vec::new()`, (7, ("params",)) for `sig.params`
tag       = what the appended value stands for: a name from `keymap` found in the origins of the value (or, if the value says
            nothing, in the origins of the condition that guards the append), ("param", i) inside a helper, or "?".
"""
import re

from . import mir, hir
from .props.c08 import deps

APPENDERS = ("push", "extend", "append", "extend_from_slice", "push_back")
MAXLEN = 8
MAXSEQS = 24


def _fields(proj):
    return tuple(x[-1] if isinstance(x[-1], str) else str(x[1]) for x in proj if isinstance(x, list) and x and x[0] == "f")


def _collapse(seq):
    out = []
    for t in seq:
        if not out or out[-1] != t:
            out.append(t)
    return tuple(out[:MAXLEN])


def deep_keys(b, defs, local, depth=0, seen=None):
    """Origin keys (with their full field paths) of every place a local is computed from, through calls, iterators and assignments."""
    if seen is None:
        seen = set()
    out = set()
    if local in seen or depth > 40:
        return out
    seen.add(local)
    argc = b.mir["argc"]
    if 1 <= local <= argc:
        return {"arg%d" % local}
    for d in defs.defs.get(local, []):
        s = d[3]
        ops = []
        if d[2] == "call":
            ops = list(s["args"])
        elif d[2] == "assign":
            rv = s["rv"]
            for k in ("o", "a", "b"):
                if k in rv:
                    ops.append(rv[k])
            ops += rv.get("ops", []) or []
            if "p" in rv:
                ops.append(["cp", rv["p"]])
        for o in ops:
            if mir.is_place_op(o):
                out.add(mir.origin_key(b, defs, o[1]))
                if not (1 <= o[1][0] <= argc):
                    out |= deep_keys(b, defs, o[1][0], depth + 1, seen)
    return out


class Sequences:
    def __init__(self, F, keymap, max_depth=3):
        self.F = F
        self.keymap = keymap
        self.max_depth = max_depth
        self.memo = {}

    # ---- classification -------------------------------------------------------------------------------------------------
    def _tags_of_deps(self, ds):
        hits = []
        for d in sorted(ds):
            comps = re.split(r"[.:]", d)
            for name, tag in self.keymap.items():
                if name in comps and tag not in hits:
                    hits.append(tag)
        return hits

    def classify(self, b, defs, dom, bi, op):
        ds = set()
        if mir.is_place_op(op):
            ds = deps(b, defs, op[1][0])
            argc = b.mir["argc"]
            if 1 <= op[1][0] <= argc:
                ds = {"arg%d" % op[1][0] + "".join("." + x for x in mir.normalize_path(mir.proj_str(op[1][1:])))}
            ds = set(ds) | {mir.origin_key(b, defs, op[1])} | deep_keys(b, defs, op[1][0])
        hits = self._tags_of_deps(ds)
        if hits:
            return hits[0]
        # the value does not say what it is: ask the innermost condition that decides whether this append happens
        best = None
        cond_param = None
        for sb in sorted(dom[bi], key=lambda x: len(dom[x])):          # outermost first
            t = b.blocks[sb]["term"]
            if t["k"] != "switch" or sb == bi or not mir.is_place_op(t["o"]):
                continue
            succ = list(mir.succs(b.blocks[sb]))
            reach = [x for x in succ if x == bi or bi in mir.reachable_from(b, x, stop={sb})]
            if len(reach) == len(succ):
                continue
            cds = set(deps(b, defs, t["o"][1][0])) | {mir.origin_key(b, defs, t["o"][1])} | deep_keys(b, defs, t["o"][1][0])
            h = self._tags_of_deps(cds)
            if h:
                best = h[0]          # dominators are visited outermost first: the last hit is the innermost
            cps = sorted({int(m.group(1)) for d in cds for m in [re.match(r"arg(\d+)", d)] if m and int(m.group(1)) >= 2})
            if cps:
                cond_param = ("param", cps[-1])
        if best:
            return best
        ps = sorted({int(m.group(1)) for d in ds for m in [re.match(r"arg(\d+)", d)] if m and int(m.group(1)) >= 2})
        if ps:
            return ("param", ps[-1])
        if cond_param:
            return cond_param
        return "?"

    # ---- per body analysis ----------------------------------------------------------------------------------------------
    def analyse(self, b, depth=0):
        """-> (state at every block entry, state after every block, helper: ident_of(operand), aliases)"""
        defs = mir.Defs(b)
        dom = mir.dominators(b)
        argc = b.mir["argc"]
        ret_alias = {}        # dest local of a helper call -> local of the argument the helper returns

        def root(local, seen=()):
            if local in ret_alias and local not in seen:
                return root(ret_alias[local], seen + (local,))
            ds = defs.whole_defs(local)
            if len(ds) == 1 and ds[0][2] == "assign" and local not in seen:
                rv = ds[0][3]["rv"]
                if rv["k"] == "use" and mir.is_place_op(rv["o"]) and len(rv["o"][1]) == 1:
                    return root(rv["o"][1][0], seen + (local,))
            return local

        def ident_of_place(pl, seen=()):
            base = pl[0]
            fs = _fields(pl[1:])
            ds = defs.whole_defs(base)
            if len(ds) == 1 and ds[0][2] == "assign" and base not in seen and not (1 <= base <= argc):
                rv = ds[0][3]["rv"]
                if rv["k"] in ("ref", "rawptr"):
                    r0, f0 = ident_of_place(rv["p"], seen + (base,))
                    return r0, f0 + fs
                if rv["k"] == "use" and mir.is_place_op(rv["o"]):
                    r0, f0 = ident_of_place(rv["o"][1], seen + (base,))
                    return r0, f0 + fs
            if len(ds) == 1 and ds[0][2] == "call" and base not in seen:
                # deref / index_mut / as_mut of something we track stays the same identity
                t = ds[0][3]
                n = hir.last(mir.callee_def(t) or "")
                if n in ("deref", "deref_mut", "as_mut", "as_ref", "borrow_mut", "as_mut_slice", "as_slice") and t["args"] and mir.is_place_op(t["args"][0]):
                    r0, f0 = ident_of_place(t["args"][0][1], seen + (base,))
                    return r0, f0 + fs
            return root(base), fs

        # summaries of the crate helpers called here
        summ = {}
        for bi, t in mir.calls(b):
            c = mir.callee(t) or ""
            hb = self.F.body(c)
            if hb is not None and hb.mir and depth < self.max_depth and c != b.path:
                s = self.summary(hb, depth + 1)
                summ[bi] = s
                if s and s.get("ret_base") and t.get("dest") and len(t["dest"]) == 1:
                    i = s["ret_base"]
                    if i - 1 < len(t["args"]) and mir.is_place_op(t["args"][i - 1]) and len(t["args"][i - 1][1]) == 1:
                        ret_alias[t["dest"][0]] = t["args"][i - 1][1][0]

        def map_tag(tag, t, bi):
            if isinstance(tag, tuple) and tag[0] == "param":
                j = tag[1]
                if j - 1 < len(t["args"]):
                    return self.classify(b, defs, dom, bi, t["args"][j - 1])
                return "?"
            return tag

        def events(bi):
            """list of (identity, set of sequences to append | ('set', seqs))"""
            t = b.blocks[bi]["term"]
            out = []
            if t["k"] != "call":
                return out
            d = mir.callee_def(t) or ""
            n = hir.last(d)
            if n in APPENDERS and ("Vec" in d or "Extend" in d or "vec" in d) and len(t["args"]) >= 2 and mir.is_place_op(t["args"][0]):
                out.append((ident_of_place(t["args"][0][1]), {(self.classify(b, defs, dom, bi, t["args"][1]),)}))
            elif (n in ("into_vec", "box_assume_init_into_vec_unsafe") or (n == "from" and "Vec" in d)) and t["args"] and mir.is_place_op(t["args"][0]) and t.get("dest") and len(t["dest"]) == 1:
                # vec![a, b, ..]: the elements of the boxed array, in order.  The array is either the value that was boxed, or (newer
                # expansions) written through a pointer derived from the still uninitialised box.
                def origins(l, acc, dd=0):
                    if l in acc or dd > 12:
                        return acc
                    acc.add(l)
                    for x in defs.defs.get(l, []):
                        if x[2] == "assign":
                            for y in mir.rv_locals(x[3]["rv"]):
                                origins(y, acc, dd + 1)
                        elif x[2] == "call":
                            for a_ in x[3]["args"]:
                                if mir.is_place_op(a_):
                                    origins(a_[1][0], acc, dd + 1)
                    return acc
                box_locals = origins(t["args"][0][1][0], set())
                arr = None
                for bj, blk in enumerate(b.blocks):
                    for st_ in blk["stmts"]:
                        if st_["k"] == "assign" and st_["rv"]["k"] == "agg" and st_["rv"].get("ak") == "array":
                            if st_["p"][0] in box_locals or (origins(st_["p"][0], set()) & box_locals):
                                arr = (bj, st_["rv"]["ops"])
                if arr is not None:
                    out.append(((root(t["dest"][0]), ()), ("set", {tuple(self.classify(b, defs, dom, arr[0], o) for o in arr[1])})))
            elif n == "insert" and "Vec" in d and len(t["args"]) >= 3 and mir.is_place_op(t["args"][0]):
                out.append((ident_of_place(t["args"][0][1]), ("prepend", self.classify(b, defs, dom, bi, t["args"][2]))))
            elif bi in summ and summ[bi]:
                s = summ[bi]
                for i, per_field in s["params"].items():
                    if i - 1 >= len(t["args"]) or not mir.is_place_op(t["args"][i - 1]):
                        continue
                    r0, f0 = ident_of_place(t["args"][i - 1][1])
                    for f, seqs in per_field.items():
                        out.append(((r0, f0 + f), {tuple(map_tag(x, t, bi) for x in sq) for sq in seqs}))
                if not s.get("ret_base") and t.get("dest") and len(t["dest"]) == 1:
                    for f, seqs in (s.get("ret") or {}).items():
                        out.append(((root(t["dest"][0]), f), ("set", {tuple(map_tag(x, t, bi) for x in sq) for sq in seqs})))
            return out

        nb = len(b.blocks)
        sin = [None] * nb
        sout = [None] * nb
        sin[0] = {}
        work = [0]
        guard = 0
        while work and guard < 40000:
            guard += 1
            bi = work.pop()
            st = {k: set(v) for k, v in sin[bi].items()}
            tt = b.blocks[bi]["term"]
            if tt["k"] == "call" and tt.get("dest") and len(tt["dest"]) == 1 and tt["dest"][0] not in ret_alias and root(tt["dest"][0]) == tt["dest"][0]:
                # the local is (re)created by this call: whatever an earlier loop iteration appended to it is gone
                for k in [k for k in st if k[0] == tt["dest"][0]]:
                    del st[k]
            for ident, ev in events(bi):
                cur = st.get(ident, {()})
                if isinstance(ev, tuple) and ev and ev[0] == "set":
                    st[ident] = {_collapse(sq) for sq in ev[1]}
                elif isinstance(ev, tuple) and ev and ev[0] == "prepend":
                    st[ident] = {_collapse((ev[1],) + sq) for sq in cur}
                else:
                    new = {_collapse(sq + add) for sq in cur for add in ev}
                    st[ident] = set(sorted(new, key=repr)[:MAXSEQS])
            sout[bi] = st
            for sx in mir.succs(b.blocks[bi]):
                if b.blocks[sx].get("cleanup"):
                    continue
                if sin[sx] is None:
                    sin[sx] = {k: set(v) for k, v in st.items()}
                    work.append(sx)
                else:
                    ch = False
                    for k, v in st.items():
                        old = sin[sx].get(k)
                        if old is None:
                            # the vector exists on this path only (or was empty on the other): keep the empty sequence as an alternative
                            sin[sx][k] = set(v) | {()}
                            ch = True
                        elif not v <= old:
                            old |= v
                            ch = True
                    for k in list(sin[sx].keys()):
                        if k not in st and () not in sin[sx][k]:
                            sin[sx][k].add(())
                            ch = True
                    if ch:
                        work.append(sx)
        return {"sin": sin, "sout": sout, "ident_of_place": ident_of_place, "root": root, "defs": defs, "dom": dom}

    def summary(self, hb, depth):
        if hb.path in self.memo:
            return self.memo[hb.path]
        self.memo[hb.path] = None          # recursion guard
        a = self.analyse(hb, depth)
        argc = hb.mir["argc"]
        params, ret = {}, {}
        ret_base = None
        r0 = a["root"](0)
        if 1 <= r0 <= argc:
            ret_base = r0
        for bi, blk in enumerate(hb.blocks):
            if blk["term"]["k"] != "return" or a["sin"][bi] is None:
                continue
            for (rt, fs), seqs in a["sin"][bi].items():
                if 1 <= rt <= argc:
                    params.setdefault(rt, {}).setdefault(fs, set()).update(seqs)
                elif rt == r0:
                    ret.setdefault(fs, set()).update(seqs)
        s = {"params": params, "ret": ret, "ret_base": ret_base}
        if not params and not ret and not ret_base:
            s = None
        self.memo[hb.path] = s
        return s

    def at_call(self, b, a, bi, op):
        """Possible sequences of the vector that operand `op` refers to, when the call in block `bi` is reached."""
        if not mir.is_place_op(op):
            return None
        ident = a["ident_of_place"](op[1])
        st = a["sin"][bi]
        if st is None:
            return None
        return ident, st.get(ident)


def sorted_by(seq, order):
    """is the sequence, restricted to the tags in `order`, non-decreasing in that order?"""
    ranks = [order.index(t) for t in seq if t in order]
    return all(x <= y for x, y in zip(ranks, ranks[1:]))
