"""Rule results, known findings, evidence files, exit protocol."""
import json
import os
import subprocess
import sys
import time

VERIF = os.path.dirname(os.path.dirname(os.path.abspath(__file__)))
EVDIR = os.environ.get("VERIF_EVIDENCE_DIR") or os.path.join(VERIF, "evidence")
REPO = os.environ.get("VERIF_REPO", "/repo")


class Violation:
    def __init__(self, rule, item, disc, file, line, msg):
        self.rule = rule
        self.item = item
        self.disc = disc
        self.file = file
        self.line = line
        self.msg = msg

    @property
    def key(self):
        return "%s|%s|%s" % (self.rule, self.item, self.disc)

    def text(self):
        return "%s:%s  %s  [%s]  %s" % (self.file, self.line, self.rule, self.key, self.msg)


class RuleResult:
    def __init__(self, rule, desc, floor=0):
        self.rule = rule
        self.desc = desc
        self.floor = floor
        self.instances = []  # instance keys (strings)
        self.samples = []  # written-out instances
        self.violations = []
        self.notes = []  # cross references, not verdicts
        self.anchor_missing = []

    def inst(self, key, sample=None):
        self.instances.append(key)
        if sample is not None and len(self.samples) < 6:
            self.samples.append(sample)

    def bad(self, item, disc, file, line, msg):
        self.violations.append(Violation(self.rule, item, disc, file, line, msg))

    def missing(self, what):
        self.anchor_missing.append(what)

    def note(self, s):
        self.notes.append(s)


def load_known():
    p = os.path.join(VERIF, "known_findings.json")
    if not os.path.exists(p):
        return {"findings": [], "fixed": []}
    return json.load(open(p))


def repo_commit():
    try:
        h = subprocess.check_output(
            ["git", "-C", REPO, "rev-parse", "--short", "HEAD"], text=True, stderr=subprocess.DEVNULL
        ).strip()
        dirty = subprocess.check_output(
            ["git", "-C", REPO, "status", "--porcelain", "--untracked-files=no"], text=True, stderr=subprocess.DEVNULL
        ).strip()
        return h + ("+dirty" if dirty else "")
    except Exception:
        return "unknown"


def finish(prop, tier, results, canary_results, explanation, assumptions, t0, facts_meta, extra=None):
    """Apply floors / known findings, write evidence + replay file, print the
    verdict lines and exit."""
    known = load_known()
    known_keys = {f["key"]: f for f in known.get("findings", []) if f.get("property") == prop}
    violations = []
    known_hits = []
    rule_rows = []
    total_inst = 0
    distinct = set()
    samples = []
    for r in results:
        vs = list(r.violations)
        for m in r.anchor_missing:
            vs.append(
                Violation(r.rule, "anchor", m, "-", 0,
                          "anchor missing: %s - rule cannot be evaluated (fail closed)" % m)
            )
        if len(r.instances) < r.floor:
            vs.append(
                Violation(r.rule, "floor", "instances", "-", 0,
                          "only %d instances found, %d were confirmed by hand on the reference tree - rule cannot be evaluated (fail closed)"
                          % (len(r.instances), r.floor))
            )
        kf = [v for v in vs if v.key in known_keys]
        nv = [v for v in vs if v.key not in known_keys]
        violations.extend(nv)
        known_hits.extend(kf)
        total_inst += len(r.instances)
        distinct.update("%s|%s" % (r.rule, k) for k in r.instances)
        for s in r.samples[:3]:
            samples.append({"rule": r.rule, "instance": s})
        rule_rows.append(
            {
                "rule": r.rule,
                "what": r.desc,
                "instances": len(r.instances),
                "floor": r.floor,
                "discharged": len(r.instances) - len({v.key for v in r.violations}),
                "violations": [v.text() for v in nv],
                "known_findings": [v.key for v in kf],
                "notes": r.notes,
            }
        )
    canary_rows = []
    canary_ok = True
    for cr in canary_results:
        fired = len(cr["fired"])
        ok = fired >= cr["expect_min"] and not any(n in k for n in cr.get("expect_absent", []) for k in cr["fired"])
        canary_ok &= ok
        canary_rows.append(
            {"rule": cr["rule"], "fired": fired, "expected_min": cr["expect_min"], "ok": ok,
             "sample": cr["fired"][:2]}
        )
    wall = time.time() - t0
    os.makedirs(os.path.join(EVDIR, "replay"), exist_ok=True)
    replay = os.path.join(EVDIR, "replay", "%s.txt" % prop)
    with open(replay, "w") as fh:
        fh.write("property %s tier %s repo %s\n" % (prop, tier, repo_commit()))
        for v in violations:
            fh.write("VIOLATION " + v.text() + "\n")
        for v in known_hits:
            fh.write("KNOWN " + v.text() + "\n")
    if not samples:
        samples = [{"note": "no instances"}]
    n_obl = total_inst
    n_dis = total_inst - len({v.key for r in results for v in r.violations})
    cov = {
        "explanation": explanation,
        "evaluations": max(total_inst, 1),
        "distinct_nontrivial": len(distinct),
        "rule": "each instance is one code site / table row / CFG path obligation enumerated from the "
                "type-resolved program (HIR/MIR facts exported by rotofacts from the current /repo tree); "
                "distinct = distinct (rule, item, discriminator) keys",
        "obligations": n_obl,
        "discharged": n_dis,
        "samples": samples[:12],
        "rules": rule_rows,
        "canary": canary_rows,
        "analysed": facts_meta,
        "repo_commit": repo_commit(),
        "known_findings_reported": [v.key for v in known_hits],
        "exhaustive": True,
    }
    if extra:
        cov.update(extra)
    ev = {
        "property_id": prop,
        "tier": tier,
        "seed": int(os.environ.get("VERIF_SEED", "0") or 0),
        "level": "other",
        "coverage": cov,
        "assumptions": assumptions,
        "wall_s": round(wall, 2),
        "violations": len(violations),
    }
    with open(os.path.join(EVDIR, "%s.json" % prop), "w") as fh:
        json.dump(ev, fh, indent=1)
    # output
    for row in rule_rows:
        print("%-10s instances=%-4d floor=%-4d violations=%d known=%d  %s" % (
            row["rule"], row["instances"], row["floor"], len(row["violations"]),
            len(row["known_findings"]), row["what"]))
    for c in canary_rows:
        print("canary %-10s fired=%d (min %d) %s" % (c["rule"], c["fired"], c["expected_min"], "ok" if c["ok"] else "SILENT"))
    for v in known_hits:
        print("KNOWN-FINDING: property=%s %s" % (prop, known_keys[v.key].get("what_fails", v.msg)))
    if not canary_ok:
        print("ERROR: a canary stayed silent - the rule engine is broken; no verdict")
        sys.exit(2)
    if violations:
        for v in violations:
            print("  " + v.text())
        print("VIOLATION property=%s replay=%s" % (prop, replay))
        sys.exit(1)
    print("OK property=%s tier=%s rules=%d instances=%d wall=%.1fs" % (prop, tier, len(results), total_inst, wall))
    sys.exit(0)
