"""Entry point: python3 -m vf.main <property id> [--tier quick|thorough]"""
import importlib
import os
import sys
import time

from . import export, facts, report


def main(argv):
    if len(argv) < 2:
        print("usage: check <Cxx> [--tier quick|thorough]")
        return 2
    prop = argv[1].upper()
    tier = os.environ.get("VERIF_TIER", "quick") or "quick"
    if "--tier" in argv:
        tier = argv[argv.index("--tier") + 1]
    if tier not in ("quick", "thorough"):
        tier = "quick"
    t0 = time.time()
    try:
        mod = importlib.import_module("vf.props." + prop.lower())
    except ModuleNotFoundError:
        print("no check for property %s" % prop)
        return 2
    fdir = export.export_repo()
    F = facts.Facts(fdir, "roto")
    FM = facts.Facts(fdir, "roto_macros")
    meta = {
        "crates": ["roto", "roto_macros"],
        "bodies": F.meta["bodies"] + FM.meta["bodies"],
        "mir_blocks": F.meta["mir_blocks"] + FM.meta["mir_blocks"],
        "adts": len(F.adts()),
        "impls": len(F.impls()),
        "facts_stamp": F.meta["stamp"],
    }
    if F.renames:
        # functions of this tree that were recognised as renamed / moved functions of the reference tree (vf/facts.py): the rules
        # read them under their reference names
        meta["renamed_functions"] = dict(sorted(F.renames.items()))
        for q, m in sorted(F.renames.items()):
            print("note: %s is read as the reference tree's %s (renamed or moved)" % (q, m))
    ctx = {"F": F, "FM": FM, "tier": tier}
    results = mod.rules(ctx)
    if tier == "thorough" and hasattr(mod, "thorough_rules"):
        results += mod.thorough_rules(ctx)
    canary_results = []
    if hasattr(mod, "canary"):
        cdir = export.export_canary()
        C = facts.Facts(cdir, "canary")
        canary_results = mod.canary(C)
    extra = None
    if hasattr(mod, "extra"):
        extra = mod.extra(ctx)
    if tier == "thorough" and os.environ.get("VERIF_NO_SELFTEST") != "1" and export.REPO == "/repo":
        # checker self-test: seeded single-site mutants on a scratch copy; a surviving mutant is a
        # weakness of the checker reported in the evidence, not a violation of the property
        import subprocess
        st = subprocess.run([sys.executable, os.path.join(export.VERIF, "tools", "mutants.py"), "--json", prop],
                            stdout=subprocess.PIPE, stderr=subprocess.STDOUT, text=True,
                            env=dict(os.environ, VERIF_TIER="quick", VERIF_NO_SELFTEST="1"))
        try:
            import json as _json
            data = _json.loads(st.stdout[st.stdout.index("{\"selftest\""):].splitlines()[0])
        except Exception:
            data = {"selftest": "could not parse", "tail": st.stdout[-400:]}
        extra = dict(extra or {})
        extra["checker_self_test"] = data.get("selftest", data)
        sv = data.get("selftest", {}) if isinstance(data.get("selftest"), dict) else {}
        print("self-test: %s mutants, %s killed, %s survived" % (sv.get("mutants"), sv.get("killed"), sv.get("survived")))
    report.finish(prop, tier, results, canary_results, mod.EXPLANATION, mod.ASSUMPTIONS, t0, meta, extra)


if __name__ == "__main__":
    sys.exit(main(sys.argv))
