"""Entry point: python3 -m vf.main <property id> [--tier quick|thorough]"""
import importlib
import os
import sys
import time

from . import export, facts, report


def main(argv):
    if len(argv) < 2:
        print("usage: check <Cxx> [--tier quick|thorough]")
        return 2
    prop = argv[1].upper()
    tier = os.environ.get("VERIF_TIER", "quick") or "quick"
    if "--tier" in argv:
        tier = argv[argv.index("--tier") + 1]
    if tier not in ("quick", "thorough"):
        tier = "quick"
    t0 = time.time()
    try:
        mod = importlib.import_module("vf.props." + prop.lower())
    except ModuleNotFoundError:
        print("no check for property %s" % prop)
        return 2
    fdir = export.export_repo()
    F = facts.Facts(fdir, "roto")
    FM = facts.Facts(fdir, "roto_macros")
    meta = {
        "crates": ["roto", "roto_macros"],
        "bodies": F.meta["bodies"] + FM.meta["bodies"],
        "mir_blocks": F.meta["mir_blocks"] + FM.meta["mir_blocks"],
        "adts": len(F.adts()),
        "impls": len(F.impls()),
        "facts_stamp": F.meta["stamp"],
    }
    ctx = {"F": F, "FM": FM, "tier": tier}
    results = mod.rules(ctx)
    canary_results = []
    if hasattr(mod, "canary"):
        cdir = export.export_canary()
        C = facts.Facts(cdir, "canary")
        canary_results = mod.canary(C)
    extra = None
    if hasattr(mod, "extra"):
        extra = mod.extra(ctx)
    report.finish(prop, tier, results, canary_results, mod.EXPLANATION, mod.ASSUMPTIONS, t0, meta, extra)


if __name__ == "__main__":
    sys.exit(main(sys.argv))
