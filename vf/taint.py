"""Unit-discipline taint: a *character* count must never be used as a *byte*
offset into a str.  Flow-insensitive per body, interprocedural through
parameter summaries (which parameters of a crate function reach a byte sink)."""
from . import mir

# calls whose result is a character count / character index
def is_char_source(t):
    d = mir.callee_def(t)
    g = t["f"].get("gargs") or []
    g0 = g[0] if g else ""
    if d == "std::iter::Iterator::next" and "Enumerate<std::str::Chars" in g0:
        return "index of chars().enumerate()"
    if d == "std::iter::Iterator::count" and "std::str::Chars" in g0 and "CharIndices" not in g0:
        return "chars().count()"
    if d in ("std::iter::Iterator::position", "std::iter::Iterator::rposition") and "std::str::Chars" in g0 and "CharIndices" not in g0:
        return "chars().position()"
    return None


# byte sinks: (callee def suffix, argument index)
DIRECT_SINKS = [
    ("core::str::<impl str>::split_at", 1),
    ("core::str::<impl str>::split_at_checked", 1),
    ("core::str::<impl str>::is_char_boundary", 1),
]


def usizeish(ty):
    return "usize" in ty


class BodyTaint:
    def __init__(self, body, sink_params):
        """sink_params: callee path -> set of arg indexes (0-based) that reach a byte sink."""
        self.body = body
        self.defs = mir.Defs(body)
        self.locals = body.mir["locals"]
        self.sink_params = sink_params
        # local -> set of reasons; reason 'param<k>' marks dependence on parameter k
        self.taint = {}

    def seed_params(self):
        argc = self.body.mir["argc"]
        for i in range(1, argc + 1):
            if usizeish(self.locals[i]["ty"]):
                self.taint.setdefault(i, set()).add("param%d" % i)

    def _srcs(self, rv):
        out = []
        for key in ("o", "a", "b"):
            if key in rv and mir.is_place_op(rv[key]):
                out.append(rv[key][1][0])
        if "p" in rv and rv["k"] in ("ref", "rawptr", "discr"):
            out.append(rv["p"][0])
        for o in rv.get("ops", []):
            if mir.is_place_op(o):
                out.append(o[1][0])
        return out

    def run(self):
        body = self.body
        changed = True
        rounds = 0
        while changed and rounds < 40:
            changed = False
            rounds += 1
            for bl in body.blocks:
                for s in bl["stmts"]:
                    if s["k"] != "assign":
                        continue
                    d = s["p"][0]
                    if not usizeish(self.locals[d]["ty"]):
                        continue
                    rv = s["rv"]
                    if rv["k"] == "bin" and rv["op"] in ("Eq", "Ne", "Lt", "Le", "Gt", "Ge"):
                        continue
                    for src in self._srcs(rv):
                        if src in self.taint:
                            new = self.taint[src] - self.taint.get(d, set())
                            if new:
                                self.taint.setdefault(d, set()).update(new)
                                changed = True
                t = bl["term"]
                if t["k"] != "call":
                    continue
                d = t["dest"][0]
                why = is_char_source(t)
                if why and usizeish(self.locals[d]["ty"]):
                    if why not in self.taint.get(d, set()):
                        self.taint.setdefault(d, set()).add(why)
                        changed = True
                # value-preserving calls on usize (min, max, saturating_sub, checked ops, unwrap, clone ...)
                name = mir.callee_def(t)
                if usizeish(self.locals[d]["ty"]) and (
                        name.startswith("core::num::<impl usize>::") or name.startswith("std::cmp::")
                        or name.startswith("std::option::Option::<T>::") or name.startswith("std::clone::Clone")
                        or name in ("std::convert::Into::into", "std::convert::From::from")):
                    for a in t["args"]:
                        if mir.is_place_op(a) and a[1][0] in self.taint:
                            new = self.taint[a[1][0]] - self.taint.get(d, set())
                            if new:
                                self.taint.setdefault(d, set()).update(new)
                                changed = True

    def sink_hits(self):
        """Yield (bb, terminator, arg index, reasons, sink description)."""
        for bi, t in mir.calls(self.body):
            name = mir.callee_def(t)
            rname = mir.callee(t)
            idxs = set()
            desc = None
            for suf, ai in DIRECT_SINKS:
                if name == suf:
                    idxs.add(ai)
                    desc = name
            if name in ("std::ops::Index::index", "std::ops::IndexMut::index_mut") or name in ("core::str::<impl str>::get", "core::str::<impl str>::get_mut", "core::str::<impl str>::get_unchecked"):
                g = t["f"].get("gargs") or []
                is_str = (g and g[0] in ("str", "std::string::String")) or name.startswith("core::str::")
                if is_str:
                    idxs.add(1)
                    desc = "str index"
            for nm in (rname, name):
                if nm in self.sink_params:
                    idxs |= self.sink_params[nm]
                    desc = desc or ("byte-offset parameter of " + nm)
            for ai in idxs:
                if ai >= len(t["args"]):
                    continue
                a = t["args"][ai]
                if not mir.is_place_op(a):
                    continue
                l = a[1][0]
                if l in self.taint:
                    yield bi, t, ai, self.taint[l], desc


def _callees(b):
    out = set()
    for _, t in mir.calls(b):
        out.add(mir.callee_def(t))
        out.add(mir.callee(t))
    return out


STR_SINK_NAMES = {"std::ops::Index::index", "std::ops::IndexMut::index_mut", "core::str::<impl str>::get",
                  "core::str::<impl str>::get_mut", "core::str::<impl str>::get_unchecked"} | {s for s, _ in DIRECT_SINKS}


def analyse(bodies):
    """Returns (violations, sink_params, n_sources, n_sinks_checked).
    violations: list of (body, terminator, reasons(set of source descriptions), sink desc)."""
    sink_params = {}
    bodies = [b for b in bodies if b.mir]
    callees = {id(b): _callees(b) for b in bodies}
    # 1. parameter summaries to fixpoint (only bodies that can reach a sink are re-analysed)
    for _ in range(8):
        changed = False
        keys = set(sink_params)
        for b in bodies:
            cs = callees[id(b)]
            if not (cs & STR_SINK_NAMES or cs & keys):
                continue
            bt = BodyTaint(b, sink_params)
            bt.seed_params()
            bt.run()
            for bi, t, ai, reasons, desc in bt.sink_hits():
                for rs in reasons:
                    if rs.startswith("param"):
                        k = int(rs[5:]) - 1
                        if k not in sink_params.get(b.path, set()):
                            sink_params.setdefault(b.path, set()).add(k)
                            changed = True
        if not changed:
            break
    # 2. sources
    violations = []
    n_sources = 0
    n_sinks = 0
    keys = set(sink_params)
    for b in bodies:
        cs = callees[id(b)]
        for bi, t in mir.calls(b):
            name = mir.callee_def(t)
            if name in keys or mir.callee(t) in keys or name in STR_SINK_NAMES:
                n_sinks += 1
        srcs = [t for _, t in mir.calls(b) if is_char_source(t)]
        if not srcs:
            continue
        n_sources += len(srcs)
        bt = BodyTaint(b, sink_params)
        bt.run()
        for bi, t, ai, reasons, desc in bt.sink_hits():
            rs = {x for x in reasons if not x.startswith("param")}
            if rs:
                violations.append((b, t, rs, desc))
    return violations, sink_params, n_sources, n_sinks
