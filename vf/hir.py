"""Helpers over HIR-lite trees."""


def walk(node):
    """Pre-order generator over every dict node of a HIR-lite tree."""
    stack = [node]
    while stack:
        n = stack.pop()
        if isinstance(n, dict):
            yield n
            # push children in reverse so that traversal is in source order
            vals = list(n.values())
            for v in reversed(vals):
                if isinstance(v, (dict, list)):
                    stack.append(v)
        elif isinstance(n, list):
            for v in reversed(n):
                if isinstance(v, (dict, list)):
                    stack.append(v)


def nodes(node, kind):
    for n in walk(node):
        if n.get("k") == kind:
            yield n


def strip(e):
    """Strip wrappers that do not change the value: blocks with only a tail
    expression, address-of, deref, casts are kept."""
    while isinstance(e, dict):
        if e.get("k") == "block" and not e.get("stmts") and e.get("expr") is not None:
            e = e["expr"]
            continue
        break
    return e


def peel_refs(e):
    """Strip &, *, trivial blocks and transparent method calls (clone, into,
    as_ref, deref)."""
    while isinstance(e, dict):
        e = strip(e)
        k = e.get("k")
        if k == "addr":
            e = e["e"]
            continue
        if k == "un" and e.get("op") == "*":
            e = e["a"]
            continue
        if k == "mcall" and e.get("m") in ("clone", "into", "as_ref", "deref", "to_owned", "as_mut", "borrow", "to_string") and not e["args"]:
            e = e["recv"]
            continue
        break
    return e


def res_def(node):
    """def-path of a path expression / pattern resolution, or None."""
    if not isinstance(node, dict):
        return None
    r = node.get("res")
    if isinstance(r, dict):
        if "ctor_of" in r:
            return r["ctor_of"]
        if "def" in r:
            return r["def"]
    return None


def res_local(node):
    if not isinstance(node, dict):
        return None
    r = node.get("res")
    if isinstance(r, dict) and "local" in r:
        return r["local"]
    return None


def call_def(e):
    """Callee def-path of a call/mcall expression."""
    if not isinstance(e, dict):
        return None
    if e.get("k") == "mcall":
        return e.get("def")
    if e.get("k") == "call":
        f = e.get("f")
        if isinstance(f, dict) and f.get("k") == "path":
            return res_def(f)
    return None


def pat_paths(pat):
    """Set of resolved variant/const paths a pattern names at its top level
    (or-patterns flattened); '_' for wildcard / binding."""
    k = pat.get("k")
    if k == "or":
        out = []
        for p in pat["pats"]:
            out.extend(pat_paths(p))
        return out
    if k in ("wild",):
        return ["_"]
    if k == "bind":
        if "sub" in pat:
            return pat_paths(pat["sub"])
        return ["_"]
    if k in ("pts", "pstruct", "ppath"):
        d = res_def(pat)
        return [d or "?"]
    if k == "plit":
        return ["lit:%r" % (pat.get("v"),)]
    if k == "pref":
        return pat_paths(pat["pat"])
    if k == "ptuple":
        return ["(" + ",".join("|".join(pat_paths(p)) for p in pat["pats"]) + ")"]
    return ["?" + str(k)]


def pat_bindings(pat):
    """All bindings (name, local) in a pattern, in source order."""
    return [(n["name"], n["local"]) for n in walk(pat) if n.get("k") == "bind"]


def last(path):
    return path.rsplit("::", 1)[-1] if path else path


def tail2(path):
    parts = path.split("::")
    return "::".join(parts[-2:])


def find_matches(body_hir, scrut_pred=None):
    for m in nodes(body_hir, "match"):
        if scrut_pred is None or scrut_pred(m):
            yield m


def result_desc(e):
    """Short descriptor of what an arm body evaluates to: resolved path of a
    unit variant / constructor call / struct literal, literal value, or
    method name."""
    e = strip(e)
    if not isinstance(e, dict):
        return None
    k = e.get("k")
    if k == "path":
        d = res_def(e)
        if d:
            return d
        l = res_local(e)
        if l is not None:
            return "local:" + e["res"]["name"]
    if k == "call":
        d = call_def(e)
        if d:
            return d + "(..)"
    if k == "mcall":
        return "." + e["m"] + "(..)"
    if k == "struct":
        d = res_def({"res": e["path"]})
        return (d or "?") + "{..}"
    if k == "lit":
        return "lit:%r" % (e.get("v"),)
    if k == "ret":
        return "return " + str(result_desc(e["e"]) if e.get("e") else "")
    if k == "block":
        if e.get("expr") is not None:
            return result_desc(e["expr"])
        if e.get("stmts"):
            lastst = e["stmts"][-1]
            if lastst.get("k") == "semi":
                return result_desc(lastst["e"])
    if k == "semi":
        return result_desc(e["e"])
    if k == "tup":
        return "(" + ",".join(str(result_desc(x)) for x in e["elems"]) + ")"
    return k


def has_macro(n, name):
    return name in (n.get("mac") or [])


def diverges(e):
    """Expression never completes normally (type `!`, or a block ending in a
    return/break/continue/diverging expression)."""
    e = strip(e)
    if not isinstance(e, dict):
        return False
    if e.get("ty") == "!":
        return True
    k = e.get("k")
    if k in ("ret", "break", "continue"):
        return True
    if k == "semi":
        return diverges(e["e"])
    if k == "block":
        if e.get("expr") is not None:
            return diverges(e["expr"])
        for s in e.get("stmts") or []:
            if diverges(s):
                return True
        return False
    if k == "if":
        return e.get("else") is not None and diverges(e["then"]) and diverges(e["else"])
    if k == "match":
        return bool(e["arms"]) and all(diverges(a["body"]) for a in e["arms"])
    return False
