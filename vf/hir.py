"""Helpers over HIR-lite trees."""


def walk(node):
    """Pre-order generator over every dict node of a HIR-lite tree."""
    stack = [node]
    while stack:
        n = stack.pop()
        if isinstance(n, dict):
            yield n
            # push children in reverse so that traversal is in source order
            vals = list(n.values())
            for v in reversed(vals):
                if isinstance(v, (dict, list)):
                    stack.append(v)
        elif isinstance(n, list):
            for v in reversed(n):
                if isinstance(v, (dict, list)):
                    stack.append(v)


def nodes(node, kind):
    for n in walk(node):
        if n.get("k") == kind:
            yield n


def strip(e):
    """Strip wrappers that do not change the value: blocks with only a tail
    expression, address-of, deref, casts are kept."""
    while isinstance(e, dict):
        if e.get("k") == "block" and not e.get("stmts") and e.get("expr") is not None:
            e = e["expr"]
            continue
        break
    return e


def peel_refs(e):
    """Strip &, *, trivial blocks and transparent method calls (clone, into,
    as_ref, deref)."""
    while isinstance(e, dict):
        e = strip(e)
        k = e.get("k")
        if k == "addr":
            e = e["e"]
            continue
        if k == "un" and e.get("op") == "*":
            e = e["a"]
            continue
        if k == "mcall" and e.get("m") in ("clone", "into", "as_ref", "deref", "to_owned", "as_mut", "borrow", "to_string") and not e["args"]:
            e = e["recv"]
            continue
        break
    return e


def res_def(node):
    """def-path of a path expression / pattern resolution, or None."""
    if not isinstance(node, dict):
        return None
    r = node.get("res")
    if isinstance(r, dict):
        if "ctor_of" in r:
            return r["ctor_of"]
        if "def" in r:
            return r["def"]
    return None


def res_local(node):
    if not isinstance(node, dict):
        return None
    r = node.get("res")
    if isinstance(r, dict) and "local" in r:
        return r["local"]
    return None


def call_def(e):
    """Callee def-path of a call/mcall expression."""
    if not isinstance(e, dict):
        return None
    if e.get("k") == "mcall":
        return e.get("def")
    if e.get("k") == "call":
        f = e.get("f")
        if isinstance(f, dict) and f.get("k") == "path":
            return res_def(f)
    return None


def pat_paths(pat):
    """Set of resolved variant/const paths a pattern names at its top level
    (or-patterns flattened); '_' for wildcard / binding."""
    k = pat.get("k")
    if k == "or":
        out = []
        for p in pat["pats"]:
            out.extend(pat_paths(p))
        return out
    if k in ("wild",):
        return ["_"]
    if k == "bind":
        if "sub" in pat:
            return pat_paths(pat["sub"])
        return ["_"]
    if k in ("pts", "pstruct", "ppath"):
        d = res_def(pat)
        return [d or "?"]
    if k == "plit":
        return ["lit:%r" % (pat.get("v"),)]
    if k == "pref":
        return pat_paths(pat["pat"])
    if k == "ptuple":
        return ["(" + ",".join("|".join(pat_paths(p)) for p in pat["pats"]) + ")"]
    return ["?" + str(k)]


def pat_bindings(pat):
    """All bindings (name, local) in a pattern, in source order."""
    return [(n["name"], n["local"]) for n in walk(pat) if n.get("k") == "bind"]


def last(path):
    return path.rsplit("::", 1)[-1] if path else path


def tail2(path):
    parts = path.split("::")
    return "::".join(parts[-2:])


def find_matches(body_hir, scrut_pred=None):
    for m in nodes(body_hir, "match"):
        if scrut_pred is None or scrut_pred(m):
            yield m


def result_desc(e):
    """Short descriptor of what an arm body evaluates to: resolved path of a
    unit variant / constructor call / struct literal, literal value, or
    method name."""
    e = strip(e)
    if not isinstance(e, dict):
        return None
    k = e.get("k")
    if k == "path":
        d = res_def(e)
        if d:
            return d
        l = res_local(e)
        if l is not None:
            return "local:" + e["res"]["name"]
    if k == "call":
        d = call_def(e)
        if d:
            return d + "(..)"
    if k == "mcall":
        return "." + e["m"] + "(..)"
    if k == "struct":
        d = res_def({"res": e["path"]})
        return (d or "?") + "{..}"
    if k == "lit":
        return "lit:%r" % (e.get("v"),)
    if k == "ret":
        return "return " + str(result_desc(e["e"]) if e.get("e") else "")
    if k == "block":
        if e.get("expr") is not None:
            return result_desc(e["expr"])
        if e.get("stmts"):
            lastst = e["stmts"][-1]
            if lastst.get("k") == "semi":
                return result_desc(lastst["e"])
    if k == "semi":
        return result_desc(e["e"])
    if k == "tup":
        return "(" + ",".join(str(result_desc(x)) for x in e["elems"]) + ")"
    return k


def has_macro(n, name):
    return name in (n.get("mac") or [])


def diverges(e):
    """Expression never completes normally (type `!`, or a block ending in a
    return/break/continue/diverging expression)."""
    e = strip(e)
    if not isinstance(e, dict):
        return False
    if e.get("ty") == "!":
        return True
    k = e.get("k")
    if k in ("ret", "break", "continue"):
        return True
    if k == "semi":
        return diverges(e["e"])
    if k == "block":
        if e.get("expr") is not None:
            return diverges(e["expr"])
        for s in e.get("stmts") or []:
            if diverges(s):
                return True
        return False
    if k == "if":
        return e.get("else") is not None and diverges(e["then"]) and diverges(e["else"])
    if k == "match":
        return bool(e["arms"]) and all(diverges(a["body"]) for a in e["arms"])
    return False


# ---------------------------------------------------------------------------
# table extraction

def pat_desc(pat):
    """Canonical, position-free descriptor of a pattern using the last two
    path segments (Enum::Variant)."""
    k = pat.get("k")
    if k == "or":
        return "|".join(pat_desc(p) for p in pat["pats"])
    if k == "wild":
        return "_"
    if k == "bind":
        if "sub" in pat:
            return pat_desc(pat["sub"])
        return "_"
    if k == "pref":
        return pat_desc(pat["pat"])
    if k == "ppath":
        return tail2(res_def(pat) or "?")
    if k == "pts":
        inner = ",".join(pat_desc(p) for p in pat["pats"])
        return "%s(%s)" % (tail2(res_def(pat) or "?"), inner)
    if k == "pstruct":
        inner = ",".join("%s:%s" % (f[0], pat_desc(f[1])) for f in pat["fields"])
        return "%s{%s}" % (tail2(res_def(pat) or "?"), inner)
    if k == "ptuple":
        return "(" + ",".join(pat_desc(p) for p in pat["pats"]) + ")"
    if k == "plit":
        return "lit:%r" % (pat.get("v"),)
    if k == "prange":
        return "range"
    if k == "pslice":
        parts = [pat_desc(p) for p in pat["before"]]
        if pat.get("mid") is not None:
            parts.append("..")
        parts += [pat_desc(p) for p in pat["after"]]
        return "[" + ",".join(parts) + "]"
    return "?" + str(k)


def pat_alternatives(pat):
    """Top-level or-alternatives of a pattern as descriptors."""
    k = pat.get("k")
    if k == "or":
        out = []
        for p in pat["pats"]:
            out.extend(pat_alternatives(p))
        return out
    if k == "pref":
        return pat_alternatives(pat["pat"])
    if k == "bind" and "sub" in pat:
        return pat_alternatives(pat["sub"])
    return [pat_desc(pat)]


def short_result(e):
    d = result_desc(e)
    if isinstance(d, str) and "::" in d:
        suffix = ""
        for s in ("(..)", "{..}"):
            if d.endswith(s):
                suffix = s
                d = d[: -len(s)]
        return tail2(d) + suffix
    return d


def table(match_node):
    rows = []
    for arm in match_node["arms"]:
        rows.append({
            "alts": pat_alternatives(arm["pat"]),
            "guard": arm.get("guard"),
            "body": arm["body"],
            "result": short_result(arm["body"]),
            "line": arm.get("line"),
            "pat": arm["pat"],
        })
    return rows


def find_match_on(body_hir, variant_substr, min_arms=2):
    """Matches whose arm patterns mention `variant_substr` in at least
    min_arms arms."""
    out = []
    for m in nodes(body_hir, "match"):
        n = 0
        for arm in m["arms"]:
            if any(variant_substr in a for a in pat_alternatives(arm["pat"])):
                n += 1
        if n >= min_arms:
            out.append(m)
    return out


class LocalDefs:
    """Binding sites of HIR locals inside one body: local id ->
    (pattern node, init expr or None, path inside the pattern)."""

    def __init__(self, body_hir):
        self.defs = {}
        self.roots = {}
        self.root = None
        for n in walk(body_hir):
            k = n.get("k")
            if k in ("letstmt", "let") and n.get("pat") is not None:
                self.root = n["pat"]
                self._bind(n["pat"], n.get("init"), ())
            elif k == "match":
                for arm in n["arms"]:
                    self.root = arm["pat"]
                    self._bind(arm["pat"], n["e"], ("arm",))
        for p in body_hir.get("params", []) if isinstance(body_hir, dict) else []:
            self.root = p
            self._bind(p, None, ("param",))

    def _bind(self, pat, init, path):
        k = pat.get("k")
        if k == "bind":
            self.defs[pat["local"]] = (pat, init, path)
            self.roots[pat["local"]] = self.root
            if "sub" in pat:
                self._bind(pat["sub"], init, path)
        elif k in ("ptuple", "pts"):
            for i, p in enumerate(pat["pats"]):
                self._bind(p, init, path + (i,))
        elif k == "pstruct":
            for f in pat["fields"]:
                self._bind(f[1], init, path + (f[0],))
        elif k == "pref":
            self._bind(pat["pat"], init, path)
        elif k == "or":
            for p in pat["pats"]:
                self._bind(p, init, path)
        elif k == "pslice":
            for i, p in enumerate(pat["before"]):
                self._bind(p, init, path + (i,))

    def get(self, local):
        return self.defs.get(local)

    def root_pat(self, local):
        """The whole pattern in which a local is bound."""
        return self.roots.get(local)


def local_origin(ld, e, depth=0):
    """Origin of an expression through let-bindings: returns a tuple
    ('local', name, id, path) for a root binding (param / pattern binding
    without initialiser expression to follow), or ('expr', node)."""
    e = peel_refs(e)
    if not isinstance(e, dict) or depth > 20:
        return ("expr", e)
    if e.get("k") == "path":
        l = res_local(e)
        if l is not None:
            d = ld.get(l)
            name = e["res"]["name"]
            if d is None:
                return ("local", name, l, ())
            pat, init, path = d
            if init is None or (path and path[0] == "arm"):
                return ("local", name, l, path)
            if path == ():
                return local_origin(ld, init, depth + 1)
            # element of a destructured initialiser: keep position
            sub = local_origin(ld, init, depth + 1)
            return ("proj", sub, path, name)
    return ("expr", e)


def walk_ctx(node, anc=None):
    """Pre-order generator yielding (node, ancestors) for dict nodes."""
    anc = anc or []
    if isinstance(node, dict):
        yield node, anc
        for v in node.values():
            if isinstance(v, (dict, list)):
                for x in walk_ctx(v, anc + [node]):
                    yield x
    elif isinstance(node, list):
        for v in node:
            if isinstance(v, (dict, list)):
                for x in walk_ctx(v, anc):
                    yield x


def param_index(body_hir):
    """local id -> position of the parameter whose pattern binds it (0 = first parameter, usually self)."""
    out = {}
    for i, p in enumerate(body_hir.get("params", [])):
        for n in walk(p):
            if n.get("k") == "bind":
                out[n["local"]] = i
    return out


def param_roots(body_hir, ld, e, depth=0, pidx=None):
    """Positions of the parameters an expression is computed from, following let-initialisers and, for bindings
    of a `match` on a tuple expression, only the scrutinee element the binding's pattern position belongs to.
    Independent of the names of locals and parameters."""
    if pidx is None:
        pidx = param_index(body_hir)
    out = set()
    if depth > 30 or not isinstance(e, (dict, list)):
        return out
    for n in walk(e):
        if n.get("k") != "path" or res_local(n) is None:
            continue
        l = res_local(n)
        if l in pidx:
            out.add(pidx[l])
            continue
        d = ld.get(l)
        if d is None or d[1] is None:
            continue
        pat, init, path = d
        if path and path[0] == "arm":
            sc = strip(init)
            if sc.get("k") == "tup" and len(path) > 1 and isinstance(path[1], int) and path[1] < len(sc["elems"]):
                out |= param_roots(body_hir, ld, sc["elems"][path[1]], depth + 1, pidx)
            else:
                out |= param_roots(body_hir, ld, init, depth + 1, pidx)
        else:
            ini = strip(init)
            if ini.get("k") == "tup" and path and isinstance(path[0], int) and path[0] < len(ini["elems"]):
                out |= param_roots(body_hir, ld, ini["elems"][path[0]], depth + 1, pidx)
            else:
                out |= param_roots(body_hir, ld, init, depth + 1, pidx)
    return out


def walk_expanded(ld, e, depth=0, seen=None):
    """Nodes of `e` plus, for every let-bound local it mentions, the nodes of that local's initialiser (transitively): what the
    expression is made of regardless of how many intermediate `let`s were introduced."""
    seen = seen if seen is not None else set()
    for n in walk(e):
        yield n
        if n.get("k") == "path" and res_local(n) is not None and depth < 5 and ld is not None:
            l = res_local(n)
            if l in seen:
                continue
            seen.add(l)
            d = ld.get(l)
            if d and d[1] is not None and not (d[2] and d[2][0] == "arm"):
                for m in walk_expanded(ld, d[1], depth + 1, seen):
                    yield m


def with_callees(F, b, depth=2, same_file=False):
    """b plus the crate functions (and closures) its HIR calls, to the given depth - for rules that look for a table or a test that a
    maintainer may have moved into a private helper."""
    out, seen, work = [], set(), [(b, 0)]
    while work:
        x, d = work.pop(0)
        if x is None or x.path in seen or not x.hir:
            continue
        seen.add(x.path)
        out.append(x)
        if d >= depth:
            continue
        for n in walk(x.hir.get("value") or {}):
            c = call_def(n) if n.get("k") in ("call", "mcall") else None
            if c is None and n.get("k") == "path":
                c = res_def(n)      # a function item passed as a value (`.and_then(token_to_binop)`)
            if c and F.has(c) and c not in seen:
                cb = F.body(c)
                if cb is not None and cb.hir and (not same_file or cb.file == b.file):
                    work.append((cb, d + 1))
    return out


def walk_deep(F, node, depth=2, _seen=None):
    """walk(node), continued into the bodies of the crate functions it calls (to the given depth): what the code does, wherever a
    maintainer put it.  Functions with more than 150 HIR nodes of calls (the big dispatchers: expr, block ..) are not entered."""
    _seen = _seen if _seen is not None else set()
    for n in walk(node):
        yield n
        if depth <= 0:
            continue
        c = call_def(n) if n.get("k") in ("call", "mcall") else None
        if c and c not in _seen and F.has(c):
            cb = F.body(c)
            if cb is not None and cb.hir:
                _seen.add(c)
                ncalls = sum(1 for x in walk(cb.hir.get("value") or {}) if x.get("k") in ("call", "mcall"))
                if ncalls <= 150:
                    for m in walk_deep(F, cb.hir.get("value") or {}, depth - 1, _seen):
                        yield m


def nodes_deep(F, node, kind, depth=2):
    for n in walk_deep(F, node, depth):
        if n.get("k") == kind:
            yield n
