"""Guard-liveness dataflow over MIR-lite (shared by C12, C15, C16).

A *token* is one `Mutex::lock` call site.  Its holders are the locals that
currently contain the guard (the `LockResult`, the `MutexGuard` after
`unwrap`, a user variable it was moved into).  A token dies when its holder
is dropped (Drop terminator), goes StorageDead, or is moved into a call that
does not return a guard (`mem::drop`).
"""
from . import mir

LOCK_FNS = ("std::sync::Mutex::<T>::lock", "std::sync::RwLock::<T>::write", "std::sync::RwLock::<T>::read")
GUARD_PASS = (
    "std::result::Result::<T, E>::unwrap",
    "std::result::Result::<T, E>::expect",
    "std::result::Result::<T, E>::unwrap_or_else",
    "std::sync::PoisonError::<T>::into_inner",
)


def is_lock_call(t):
    return t["k"] == "call" and mir.callee_def(t) in LOCK_FNS


def has_locks(body):
    return any(is_lock_call(b["term"]) for b in body.blocks)


class LockAnalysis:
    """Forward may-analysis.  state: frozenset of (token_bb, holder_local)."""

    def __init__(self, body):
        self.body = body
        self.defs = mir.Defs(body)
        self.tokens = {}  # token bb -> origin key of the mutex
        for bi, b in enumerate(body.blocks):
            t = b["term"]
            if is_lock_call(t):
                a0 = t["args"][0]
                key = mir.origin_key(body, self.defs, a0[1]) if mir.is_place_op(a0) else "?"
                self.tokens[bi] = key
        self.in_state = {}
        self.live_at_term = {}  # bb -> set of tokens live when the terminator executes
        self._run()

    def _transfer_stmts(self, state, block):
        """Holders are locals, or (local, field index) for a guard that sits in a field of a tuple / struct built in place
        (`let (a, b) = if .. { (ga, gb) } else { .. }`)."""
        state = set(state)

        def local_of(h):
            return h[0] if isinstance(h, tuple) else h
        for s in block["stmts"]:
            if s["k"] == "assign":
                rv = s["rv"]
                if rv["k"] == "use" and mir.is_place_op(rv["o"]) and rv["o"][0] == "mv" and len(s["p"]) == 1:
                    src = rv["o"][1]
                    if len(src) == 1:
                        moved = {(t, h) for (t, h) in state if local_of(h) == src[0]}
                        if moved:
                            state -= moved
                            state |= {(t, (s["p"][0], h[1]) if isinstance(h, tuple) else s["p"][0]) for (t, h) in moved}
                    elif len(src) == 2 and isinstance(src[1], list) and src[1] and src[1][0] == "f":
                        moved = {(t, h) for (t, h) in state if h == (src[0], src[1][1])}
                        if moved:
                            state -= moved
                            state |= {(t, s["p"][0]) for (t, _) in moved}
                elif rv["k"] == "agg" and len(s["p"]) == 1:
                    for i, o in enumerate(rv.get("ops", [])):
                        if mir.is_place_op(o) and o[0] == "mv" and len(o[1]) == 1:
                            moved = {(t, h) for (t, h) in state if h == o[1][0]}
                            if moved:
                                state -= moved
                                state |= {(t, (s["p"][0], i)) for (t, _) in moved}
            elif s["k"] == "dead":
                state = {(t, h) for (t, h) in state if local_of(h) != s["l"]}
        return state

    def _transfer_term(self, state, bi, block):
        """returns dict succ -> state"""
        t = block["term"]
        out = {}
        k = t["k"]
        st = set(state)
        if k == "drop":
            p = t["p"]
            if len(p) == 1:
                st = {(tok, h) for (tok, h) in st if (h[0] if isinstance(h, tuple) else h) != p[0]}
            elif len(p) == 2 and isinstance(p[1], list) and p[1] and p[1][0] == "f":
                st = {(tok, h) for (tok, h) in st if h != (p[0], p[1][1])}
            for s in mir.succs(block):
                out[s] = st
            return out
        if k == "call":
            moved_tokens = set()
            for a in t["args"]:
                if mir.is_place_op(a) and a[0] == "mv" and len(a[1]) == 1:
                    l = a[1][0]
                    hit = {(tok, h) for (tok, h) in st if h == l}
                    if hit:
                        st -= hit
                        moved_tokens |= {tok for (tok, _) in hit}
            dest = t["dest"]
            if moved_tokens and mir.callee_def(t) in GUARD_PASS and len(dest) == 1:
                st |= {(tok, dest[0]) for tok in moved_tokens}
            if is_lock_call(t) and len(dest) == 1:
                st |= {(bi, dest[0])}
            for s in mir.succs(block):
                out[s] = st
            return out
        for s in mir.succs(block):
            out[s] = st
        return out

    def _run(self):
        body = self.body
        n = len(body.blocks)
        if n == 0:
            return
        self.in_state = {0: frozenset()}
        work = [0]
        while work:
            b = work.pop()
            block = body.blocks[b]
            st = self._transfer_stmts(self.in_state[b], block)
            self.live_at_term[b] = {tok for (tok, _) in st}
            self._holders_at_term = getattr(self, "_holders_at_term", {})
            self._holders_at_term[b] = set(st)
            outs = self._transfer_term(st, b, block)
            for s, sst in outs.items():
                old = self.in_state.get(s)
                new = frozenset(sst) if old is None else (old | frozenset(sst))
                if old is None or new != old:
                    self.in_state[s] = new
                    work.append(s)

    def live_tokens_at_call(self, bi):
        """Tokens live while the call terminating block bi executes, excluding
        tokens whose holder is moved into that very call."""
        block = self.body.blocks[bi]
        t = block["term"]
        st = set(self._holders_at_term.get(bi, set()))
        if t["k"] == "call":
            for a in t["args"]:
                if mir.is_place_op(a) and a[0] == "mv" and len(a[1]) == 1:
                    st = {(tok, h) for (tok, h) in st if h != a[1][0]}
        return {tok for (tok, _) in st}

    def holders_at_term(self, bi):
        return set(self._holders_at_term.get(bi, set()))


def lock_summaries(bodies):
    """For each body: set of (arg index, normalized path string) of mutexes it
    may lock directly (origin rooted at an argument)."""
    summ = {}
    for b in bodies:
        if not b.mir or not has_locks(b):
            continue
        la = LockAnalysis(b)
        s = set()
        for tok, key in la.tokens.items():
            if key.startswith("arg"):
                root, _, rest = key.partition(".")
                s.add((int(root[3:]), rest))
        if s:
            summ[b.path] = s
    return summ
