"""Evaluation of small, pure decision code over a finite domain.

Several rules need to know *what a few lines of Rust decide* for every combination of a handful of
enumerated inputs (two `MustBeSigned` flags, an `Ordering`, two booleans), independently of how the lines
are written (two `if` branches with a call each, or one `let (a, b) = if .. {..} else {..};` followed by
a single call, a `match`, early returns ...).  This module interprets the type-resolved HIR-lite tree of
such a function on *symbolic atoms*: parameters are bound to opaque symbols or to enum-variant names, the
only operations understood are those whose meaning is fixed by the language (`==`, `!=`, `&&`, `||`, `!`,
`if`, `match` on paths / tuples / literals, tuples, constructor calls, `.clone()`, references, blocks and
`let`), and every method call is *recorded* with its evaluated receiver and arguments instead of being
executed.  Anything else makes the evaluation give up (`Unknown`), in which case the rule that asked says
so instead of guessing.  Nothing of roto is executed: this is table extraction with the guards evaluated.
"""
from . import hir


class Unknown(Exception):
    pass


class Return(Exception):
    def __init__(self, value):
        self.value = value


class Sym(str):
    """An opaque value (a parameter we know nothing about)."""


def ctor(name, *args):
    return ("ctor", name) + tuple(args)


class Machine:
    def __init__(self, body_hir, env, transparent=("clone", "into", "to_owned", "as_ref", "borrow", "deref", "copied", "cloned"), F=None, depth=0):
        self.body = body_hir
        self.env = dict(env)
        self.events = []
        self.transparent = set(transparent)
        self.F = F          # facts: when given, calls of crate functions whose HIR is known are evaluated (inlined), to a depth of 4
        self.depth = depth

    def _enum_order(self, recv_node, a, b):
        """Ordering of two values of a field-less enum whose PartialOrd/Ord is derived: by declaration order of the variants"""
        if not (isinstance(a, str) and isinstance(b, str)) or isinstance(a, Sym) or isinstance(b, Sym):
            return None
        ty = str(hir.strip(recv_node).get("ty") or "").replace("&", "").strip()
        adt = self.F.adt(ty)
        if adt is None:
            return None
        names = [v["name"] for v in adt.get("variants") or []]
        derived = any(i.get("self_adt") == ty and i.get("trait") in ("std::cmp::Ord", "std::cmp::PartialOrd") and i.get("derived") for i in self.F.impls())
        if not derived or a not in names or b not in names:
            return None
        ia, ib = names.index(a), names.index(b)
        return "Less" if ia < ib else "Greater" if ia > ib else "Equal"

    def _inline(self, path, args):
        """Evaluate a crate function on already evaluated arguments; its recorded events are appended to ours.  Returns (done, value)."""
        if self.F is None or self.depth >= 4 or not path or not self.F.has(path):
            return False, None
        cb = self.F.body(path)
        if cb is None or not cb.hir or len(cb.hir.get("params") or []) != len(args):
            return False, None
        sub = Machine(cb.hir, {}, transparent=self.transparent, F=self.F, depth=self.depth + 1)
        for p_, v in zip(cb.hir["params"], args):
            if not sub.bind(p_, v):
                raise Unknown("parameter pattern of %s" % path)
        val = sub.run()
        self.events.extend(sub.events)
        return True, val

    # -- patterns -----------------------------------------------------------------------------
    def bind(self, pat, val):
        """Bind pattern to value; returns False if the (refutable) pattern does not match."""
        k = pat.get("k")
        if k == "bind":
            self.env[pat["local"]] = val
            if "sub" in pat and pat["sub"] is not None:
                return self.bind(pat["sub"], val)
            return True
        if k == "wild":
            return True
        if k == "pref":
            return self.bind(pat["pat"], val)
        if k == "ptuple":
            if not (isinstance(val, tuple) and (not val or val[0] != "ctor") and len(val) == len(pat["pats"])):
                raise Unknown("tuple pattern on %r" % (val,))
            return all(self.bind(p, v) for p, v in zip(pat["pats"], val))
        if k == "ppath":
            name = hir.last(hir.res_def({"res": pat.get("res") or {}}) or "")
            return self._same_variant(val, name)
        if k == "pts":
            name = hir.last(hir.res_def({"res": pat.get("res") or {}}) or "")
            if isinstance(val, tuple) and val and val[0] == "ctor":
                if val[1] != name:
                    return False
                subs = pat.get("pats") or []
                if len(subs) != len(val) - 2:
                    raise Unknown("arity of %s" % name)
                return all(self.bind(p, v) for p, v in zip(subs, val[2:]))
            if isinstance(val, str) and not isinstance(val, Sym):
                return val == name and not pat.get("pats")
            raise Unknown("tuple-struct pattern on %r" % (val,))
        if k == "plit":
            return val == pat.get("v")
        if k == "or":
            for p in pat["pats"]:
                if self.bind(p, val):
                    return True
            return False
        raise Unknown("pattern " + str(k))

    def _same_variant(self, val, name):
        if isinstance(val, Sym):
            raise Unknown("opaque value matched against " + name)
        if isinstance(val, tuple) and val and val[0] == "ctor":
            return val[1] == name
        return val == name

    # -- expressions --------------------------------------------------------------------------
    def ev(self, e):
        e = hir.strip(e)
        k = e.get("k")
        if k == "lit":
            return e.get("v")
        if k == "path":
            l = hir.res_local(e)
            if l is not None:
                if l not in self.env:
                    raise Unknown("unbound local %s" % e["res"].get("name"))
                return self.env[l]
            d = hir.res_def(e) or ""
            return hir.last(d)
        if k in ("ref", "cast", "addr"):
            return self.ev(e["e"])
        if k == "un":
            v = self.ev(e["a"])
            if e.get("op") == "!":
                if not isinstance(v, bool):
                    raise Unknown("! on non-bool")
                return not v
            if e.get("op") == "*":
                return v
            raise Unknown("unary " + str(e.get("op")))
        if k == "bin":
            op = e.get("op")
            if op in ("&&", "||"):
                a = self.ev(e["a"])
                if not isinstance(a, bool):
                    raise Unknown("%s on non-bool" % op)
                if (op == "&&" and not a) or (op == "||" and a):
                    return a
                b = self.ev(e["b"])
                if not isinstance(b, bool):
                    raise Unknown("%s on non-bool" % op)
                return b
            a, b = self.ev(e["a"]), self.ev(e["b"])
            if op in ("==", "!="):
                if isinstance(a, Sym) and isinstance(b, Sym) and a != b:
                    raise Unknown("comparison of two opaque values")
                return (a == b) if op == "==" else (a != b)
            if op in ("<", "<=", ">", ">=", "+", "-") and isinstance(a, int) and isinstance(b, int) and not isinstance(a, bool):
                return {"<": a < b, "<=": a <= b, ">": a > b, ">=": a >= b, "+": a + b, "-": a - b}[op]
            raise Unknown("binary %s" % op)
        if k == "tup":
            return tuple(self.ev(x) for x in e["elems"])
        if k == "call":
            f = hir.strip(e["f"])
            d = hir.call_def(e) or ""
            dk = (f.get("res") or {}).get("dk") or ""
            args = [self.ev(a) for a in e["args"]]
            if "Ctor" in dk or d[:1].isupper() or hir.last(d)[:1].isupper():
                return ctor(hir.last(d), *args)
            done, val = self._inline(d, args)
            if done:
                return val
            self.events.append(("call", hir.last(d), tuple(args)))
            return Sym("result of %s" % hir.last(d))
        if k == "mcall":
            recv = self.ev(e["recv"])
            args = [self.ev(a) for a in e["args"]]
            if e["m"] in self.transparent and not args:
                return recv
            if e["m"] in ("cmp", "partial_cmp") and len(args) == 1 and self.F is not None:
                o = self._enum_order(e["recv"], recv, args[0])
                if o is not None:
                    return o if e["m"] == "cmp" else ctor("Some", o)
            if e["m"] == "matches" and False:
                pass
            done, val = self._inline(e.get("def"), [recv] + args)
            if done:
                return val
            self.events.append(("mcall", e["m"], recv, tuple(args)))
            return Sym("result of %s" % e["m"])
        if k == "field":
            v = self.ev(e["e"])
            if isinstance(v, tuple) and v and v[0] != "ctor" and str(e.get("n")).isdigit():
                return v[int(e["n"])]
            return Sym("%s.%s" % (v, e.get("n")))
        if k == "if":
            c = e["cond"]
            cs = hir.strip(c)
            if cs.get("k") == "let":
                v = self.ev(cs["init"])
                taken = self.bind(cs["pat"], v)
            else:
                taken = self.ev(c)
                if not isinstance(taken, bool):
                    raise Unknown("if on non-bool")
            if taken:
                return self.ev(e["then"])
            if e.get("else") is not None:
                return self.ev(e["else"])
            return ()
        if k == "match":
            v = self.ev(e["e"])
            for arm in e["arms"]:
                saved = dict(self.env)
                if self.bind(arm["pat"], v):
                    g = arm.get("guard")
                    if g is not None:
                        gv = self.ev(g)
                        if not isinstance(gv, bool):
                            raise Unknown("guard on non-bool")
                        if not gv:
                            self.env = saved
                            continue
                    return self.ev(arm["body"])
                self.env = saved
            raise Unknown("no arm matches %r" % (v,))
        if k == "block":
            for s in e.get("stmts") or []:
                self.stmt(s)
            if e.get("expr") is not None:
                return self.ev(e["expr"])
            return ()
        if k == "ret":
            raise Return(self.ev(e["e"]) if e.get("e") is not None else ())
        if k == "assign":
            l = hir.res_local(hir.peel_refs(hir.strip(e["lhs"])))
            if l is None:
                raise Unknown("assignment to a place")
            self.env[l] = self.ev(e["rhs"])
            return ()
        if k == "struct":
            d = hir.res_def({"res": e.get("path") or {}}) or ""
            return ("ctor", hir.last(d)) + tuple((f[0], self.ev(f[1])) for f in e["fields"])
        raise Unknown("expression " + str(k))

    def stmt(self, s):
        k = s.get("k")
        if k == "letstmt":
            if s.get("init") is None:
                return
            v = self.ev(s["init"])
            if not self.bind(s["pat"], v):
                if s.get("els") is not None:
                    self.ev(s["els"])
                    raise Unknown("let-else fell through")
                raise Unknown("irrefutable pattern failed")
            return
        if k == "semi":
            self.ev(s["e"])
            return
        self.ev(s)

    def run(self):
        try:
            return self.ev(self.body["value"])
        except Return as r:
            return r.value


def run_function(body_hir, param_values, F=None):
    """Evaluate a function body with its parameters (by position) bound to the given values.
    Returns (result, events). Raises Unknown when the code uses something outside the understood fragment.
    With F (facts), calls of crate functions are evaluated too (helpers extracted from the function are followed)."""
    m = Machine(body_hir, {}, F=F)
    for i, p in enumerate(body_hir.get("params") or []):
        v = param_values.get(i, Sym(p.get("name") or "param%d" % i))
        try:
            if not m.bind(p, v):
                raise Unknown("parameter pattern")
        except Unknown:
            if i in param_values:
                raise
    res = m.run()
    return res, m.events
