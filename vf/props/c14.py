"""C14 - constants are evaluated once, in dependency order, before any call."""
import re
from .. import mir, hir
from ..facts import relfile
from ..report import RuleResult
from .c09 import names

EXPLANATION = (
    "Correctness of Tarjan's algorithm and completeness of the reference graph for all programs are not decided. Decided: "
    "D1 edges are recorded where references are resolved - in resolve_expression_path every path returning ResolvedPath::Function "
    "passes references.add_edge(ctx.item, dec.name) and the value arm records an edge for constants and context values; every item "
    "checker (function, filter_map, constant, test) registers its node; D2 in find_compilation_order the Ok return is reachable only "
    "after the self-reference test, the strongly-connected-component test and the success edge of context_check()?; D3 the order is "
    "honoured: the MIR lowerer emits items by iterating `order` forward, the LIR lowering puts generated helpers before user items and "
    "keeps user order, and the code generator, inside its single forward loop over the items, performs define_function < "
    "finalize_definitions < call initialiser < insert exactly once per constant."
)
EXPLANATION += (
    ' D2 examines every test on a multi-item component: the len > 1 gate dominates the rejection, and the rejection does not depend on how many constants the component holds.'
)
EXPLANATION += (  # round-3 supplement
    ' D1/D3 follow helpers (node registration, the constant define/finalize/call/insert chain) and identify values by role; D2 also understands the component test written as an iterator chain.'
)
ASSUMPTIONS = [
    "Tarjan's SCC implementation returns components in reverse topological order (trusted; covered by the crate's unit tests)",
]

REVERSERS = {"rev", "rposition", "rfind", "rfold", "next_back", "sort", "sort_by", "sort_by_key", "sort_unstable", "reverse"}


def rule_d1(F):
    r = RuleResult("C14.D1", "reference edges are recorded where paths are resolved; every item registers its node", floor=2 + 4)
    ps = [p for p in F.paths() if p.endswith("::resolve_expression_path")]
    if not ps:
        r.missing("resolve_expression_path")
        return r
    b = F.body(ps[0])
    h = b.hir["value"]
    ms = hir.find_match_on(h, "DeclarationKind::", min_arms=3)
    if not ms:
        r.missing("match over DeclarationKind in resolve_expression_path")
        return r
    fn_ok = val_ok = False
    for arm in ms[-1]["arms"]:
        d = hir.pat_desc(arm["pat"])
        edges = [c for c in hir.nodes(arm["body"], "mcall") if c["m"] == "add_edge"]

        def edge_ok(c):
            # add_edge(<context parameter>.item, <the declaration being matched on>.name) - locals identified by role, not by name
            a0 = hir.peel_refs(c["args"][0])
            a1 = hir.peel_refs(c["args"][1])
            if not (a0.get("k") == "field" and a0["n"] == "item" and a1.get("k") == "field" and a1["n"] == "name"):
                return False
            l0 = hir.res_local(hir.peel_refs(a0["e"]))
            l1 = hir.res_local(hir.peel_refs(a1["e"]))
            pidx = hir.param_index(b.hir)
            ctx_ok = l0 in pidx and "Context" in (b.hir["params"][pidx[l0]].get("ty") or "")
            sc = hir.peel_refs(hir.strip(ms[-1]["e"]))
            sc_local = hir.res_local(hir.peel_refs(sc["e"])) if sc.get("k") == "field" else hir.res_local(sc)
            return ctx_ok and l1 is not None and l1 == sc_local
        if "DeclarationKind::Function" in d and "Some" in d:
            # statement order: add_edge before the Ok(ResolvedPath::Function ..)
            st = (hir.strip(arm["body"]).get("stmts") or []) + [hir.strip(arm["body"]).get("expr")]
            ei = [i for i, s in enumerate(st) if s and any(n.get("k") == "mcall" and n["m"] == "add_edge" and edge_ok(n) for n in hir.walk(s))]
            oi = [i for i, s in enumerate(st) if s and any((hir.res_def({"res": n["path"]}) or "").endswith("ResolvedPath::Function") for n in hir.nodes(s, "struct"))]
            fn_ok = bool(ei and oi and min(ei) < min(oi))
            r.inst("function arm records edge", {"edge_stmt": ei, "result_stmt": oi})
            if not fn_ok:
                r.bad(b.path, "function edge", relfile(b.file), arm["line"], "a reference to a function is resolved without recording the edge item -> function: a constant calling it may be evaluated before the constants that function reads")
        if d.startswith("DeclarationKind::Value"):
            for iff in hir.nodes(arm["body"], "if"):
                c = iff["cond"]
                if c.get("k") == "let":
                    alts = hir.pat_alternatives(c["pat"])
                    e = [x for x in hir.nodes(iff["then"], "mcall") if x["m"] == "add_edge" and edge_ok(x)]
                    if e and any("ValueKind::Constant" in a for a in alts) and any("ValueKind::Context" in a for a in alts):
                        val_ok = True
            # every successful exit of the arm (a plain value, a field, a method call on the value) lies behind the edge for BOTH kinds
            NEED = {"Constant", "Context"}

            def helper_kinds(e):
                """a call of a private helper that records the edge: `self.reference(ctx, &dec, kind)` whose body does
                `if let Constant | Context(..) = kind { self.references.add_edge(ctx.item, dec.name) }`"""
                d = e.get("def") if e.get("k") == "mcall" else (hir.call_def(e) if e.get("k") == "call" else None)
                hb = F.body(d) if d and F.has(d) else None
                if hb is None or not hb.hir or hb.file != b.file:
                    return set()
                # the call must be given this arm's context parameter and the matched declaration
                sc = hir.peel_refs(hir.strip(ms[-1]["e"]))
                sc_local = hir.res_local(hir.peel_refs(sc["e"])) if sc.get("k") == "field" else hir.res_local(sc)
                pidx = hir.param_index(b.hir)
                arg_locals = {hir.res_local(hir.peel_refs(hir.strip(a))) for a in e.get("args", [])}
                if sc_local not in arg_locals or not any(l in pidx and "Context" in (b.hir["params"][pidx[l]].get("ty") or "") for l in arg_locals if l is not None):
                    return set()
                hp = {p_.get("local"): (p_.get("ty") or "") for p_ in hb.hir.get("params", []) if p_.get("k") == "bind"}

                def h_edge_ok(c):
                    a0 = hir.peel_refs(c["args"][0])
                    a1 = hir.peel_refs(c["args"][1])
                    if not (a0.get("k") == "field" and a0["n"] == "item" and a1.get("k") == "field" and a1["n"] == "name"):
                        return False
                    l0_ = hir.res_local(hir.peel_refs(a0["e"]))
                    l1_ = hir.res_local(hir.peel_refs(a1["e"]))
                    return "Context" in hp.get(l0_, "") and "Declaration" in hp.get(l1_, "")
                out = set()
                body = hir.strip(hb.hir["value"])
                for n in hir.walk(body):
                    if n.get("k") == "if" and hir.strip(n["cond"]).get("k") == "let" and any(x["m"] == "add_edge" and h_edge_ok(x) for x in hir.nodes(n["then"], "mcall")):
                        alts = hir.pat_alternatives(hir.strip(n["cond"])["pat"])
                        out |= {k for k in NEED if any(("ValueKind::" + k) in a for a in alts)}
                    if n.get("k") == "match":
                        for arm_ in n["arms"]:
                            if any(x["m"] == "add_edge" and h_edge_ok(x) for x in hir.nodes(arm_["body"], "mcall")):
                                alts = hir.pat_alternatives(arm_["pat"])
                                out |= {k for k in NEED if any(("ValueKind::" + k) in a for a in alts)}
                if not out and any(x["m"] == "add_edge" and h_edge_ok(x) for x in hir.nodes(body, "mcall")):
                    stmts_ = body.get("stmts") or []
                    if any(hir.strip(s_.get("e") or {}).get("k") == "mcall" and hir.strip(s_["e"])["m"] == "add_edge" for s_ in stmts_ if s_.get("k") == "semi"):
                        out = set(NEED)
                return out

            def kinds_of(stmt):
                """value kinds for which this statement records the edge"""
                e = hir.strip(stmt.get("e") if stmt.get("k") == "semi" else stmt)
                if not isinstance(e, dict):
                    return set()
                if e.get("k") in ("mcall", "call") and not (e.get("k") == "mcall" and e["m"] == "add_edge"):
                    hk = helper_kinds(e)
                    if hk:
                        return hk
                if e.get("k") == "mcall" and e["m"] == "add_edge" and edge_ok(e):
                    return set(NEED)
                if e.get("k") == "if" and hir.strip(e["cond"]).get("k") == "let":
                    if any(x["m"] == "add_edge" and edge_ok(x) for x in hir.nodes(e["then"], "mcall")):
                        alts = hir.pat_alternatives(hir.strip(e["cond"])["pat"])
                        return {k for k in NEED if any(("ValueKind::" + k) in a for a in alts)}
                if e.get("k") == "match":
                    out = set()
                    for arm_ in e["arms"]:
                        if any(x["m"] == "add_edge" and edge_ok(x) for x in hir.nodes(arm_["body"], "mcall")):
                            alts = hir.pat_alternatives(arm_["pat"])
                            out |= {k for k in NEED if any(("ValueKind::" + k) in a for a in alts)} or (set(NEED) if any(a.strip() in ("_",) for a in alts) else set())
                    return out
                return set()

            def is_exit(e):
                for n in hir.walk(e):
                    if n.get("k") == "struct" and (hir.res_def({"res": n.get("path") or {}}) or "").split("::")[-1] in ("Method", "Value") and "ResolvedPath" in (hir.res_def({"res": n.get("path") or {}}) or ""):
                        return n
                    if n.get("k") == "call" and "ResolvedPath::" in (hir.call_def(n) or "") and (hir.call_def(n) or "").split("::")[-1] in ("Method", "Value"):
                        return n
                return None
            exits = []

            def visit(e, cov):
                e = hir.strip(e)
                if not isinstance(e, dict):
                    return
                k = e.get("k")
                if k == "block":
                    cov = set(cov)
                    for st_ in e.get("stmts") or []:
                        inner = st_.get("e") if st_.get("k") == "semi" else (st_.get("init") if st_.get("k") == "letstmt" else st_)
                        if st_.get("k") == "letstmt" and st_.get("els") is not None:
                            visit(st_["els"], cov)
                        got = kinds_of(st_)
                        if got:
                            cov |= got
                            continue
                        if inner is not None:
                            visit(inner, cov)
                    if e.get("expr") is not None:
                        visit(e["expr"], cov)
                    return
                if k in ("if", "match", "loop", "while", "ret", "closure"):
                    for key in ("cond", "then", "else", "e", "body"):
                        if isinstance(e.get(key), dict):
                            visit(e[key], cov)
                    for arm_ in e.get("arms") or []:
                        visit(arm_["body"], cov)
                    if k == "ret" and e.get("e") is not None and is_exit(e["e"]) is not None and hir.strip(e["e"]).get("k") not in ("block", "if", "match"):
                        exits.append((is_exit(e["e"]), set(cov)))
                    return
                x = is_exit(e)
                if x is not None:
                    exits.append((x, set(cov)))
            visit(arm["body"], set())
            seen_lines = set()
            for x, cov in exits:
                ln = x.get("line")
                if ln in seen_lines:
                    continue
                seen_lines.add(ln)
                r.inst("value arm exit line %s" % ln, {"line": ln, "edge_recorded_for": sorted(cov)})
                if not NEED <= cov:
                    r.bad(b.path, "successful exit without the dependency edge for %s" % "/".join(sorted(NEED - cov)), relfile(b.file), ln,
                          "a path rooted at a %s value resolves successfully on this exit without the edge item -> value having been recorded: what the reference graph decides "
                          "(evaluation order of constants, 'constant uses context') does not see this use (e.g. a method call on a context variable inside a constant)" % " / ".join(sorted(NEED - cov)).lower())
            if not exits:
                r.missing("successful exits (ResolvedPath::Value / ::Method) of the value arm")
            # the edge statement itself: written in the arm, or in a private helper the arm calls (then every exit is covered by it)
            val_ok = val_ok or (bool(exits) and all(NEED <= cov for _x, cov in exits))
            r.inst("value arm records edge for constants and context", {"ok": val_ok})
            if not val_ok:
                r.bad(b.path, "value edge", relfile(b.file), arm["line"], "a reference to a constant / context value is resolved without recording the dependency edge")
    if not (fn_ok or val_ok):
        r.missing("Function/Value arms in resolve_expression_path")
    for fn in ("function", "filter_map", "constant", "test"):
        cands = [p for p in F.paths() if p.endswith("::" + fn) and "typechecker::function" in p]
        if not cands:
            r.missing("typechecker::function::" + fn)
            continue
        fb = F.body(cands[0])

        def registers(body, depth=0):
            """add_node(<ctx>.item) in this body or in a helper of the same file it calls unconditionally-or-not (one or two levels)"""
            if any(c["m"] == "add_node" and hir.peel_refs(c["args"][0]).get("n") == "item" for c in hir.nodes(body.hir["value"], "mcall")):
                return True
            if depth >= 2:
                return False
            for c in list(hir.nodes(body.hir["value"], "mcall")) + list(hir.nodes(body.hir["value"], "call")):
                d = c.get("def") or hir.call_def(c)
                hb = F.body(d) if d else None
                if hb is not None and hb.hir and hb.file == body.file and hb.path != body.path and registers(hb, depth + 1):
                    return True
            return False
        ok = registers(fb)
        r.inst("add_node in " + fn)
        if not ok:
            r.bad(fb.path, "add_node", relfile(fb.file), fb.line, "%s items are no longer registered in the reference graph: they drop out of the compilation order" % fn)
    return r


DROPPERS = {"skip", "take", "step_by", "nth", "first", "last", "next", "skip_while", "take_while", "rev", "filter_map", "find_map"}


def _closure_or_fn_body(F, b, defs, op):
    """HIR body of the closure / fn item passed as an argument."""
    if not mir.is_place_op(op):
        c = mir.op_const(op)
        if c is not None and c.get("fn"):
            fb = F.body(c["fn"])
            return fb.hir["value"] if fb is not None and fb.hir else None
        return None
    for d in defs.whole_defs(op[1][0]):
        if d[2] == "assign" and d[3]["rv"]["k"] == "agg" and d[3]["rv"].get("ak") == "closure":
            cb = F.body(d[3]["rv"]["def"])
            return cb.hir["value"] if cb is not None and cb.hir else None
        if d[2] == "assign" and d[3]["rv"]["k"] == "use":
            return _closure_or_fn_body(F, b, defs, d[3]["rv"]["o"])
    return None


def _d2_chain_form(F, b, defs, gs, dom, after):
    """The component test written as an iterator chain over the components:
    `.filter(|c| c.len() > 1).flatten()..find(is_constant)` whose Some result leads to the rejection.
    Returns None if this form is not present, True if it is complete, or a message describing what is missing."""
    for g in gs:
        if not any(any(x == e or x in dom[e] for x in g["good"] + g["bad"]) for e in after):
            continue
        names_ = [hir.last(c[2]) for c in g["chain"]]
        loop_form = "next" in names_ and not ({"find", "any", "find_map"} & set(names_))
        if "filter" not in names_ or not (({"find", "any", "find_map"} & set(names_)) or loop_form):
            continue
        if "tarjan" not in names_ and not any("tarjan" in c[2] for c in g["chain"]):
            # the chain must start at the components
            pass
        if not ({"flatten", "flat_map"} & set(names_)):
            return "the members of a multi-item component are not enumerated (no flatten over the component): not every member is tested"
        term_i = max(i for i, n in enumerate(names_) if n in ("find", "any", "find_map", "next"))
        dropped = [n for i, n in enumerate(names_) if n in DROPPERS and i != term_i]
        if dropped:
            return "the chain that looks for a constant inside a cycle narrows its input with `%s`: not every member of every multi-item component is tested" % dropped[0]
        size_ok = False
        const_ok = loop_form     # `for name in components.iter().filter(..).flatten() { if is_constant(name) { return Err } }`: the body decides
        for c in g["chain"]:
            t = b.blocks[c[0]]["term"]
            nm = hir.last(c[2])
            if nm == "filter" and len(t["args"]) > 1:
                body = _closure_or_fn_body(F, b, defs, t["args"][1])
                for cmp_ in hir.nodes(body or {}, "bin"):
                    lits = [hir.strip(x).get("v") for x in (cmp_["a"], cmp_["b"]) if hir.strip(x).get("k") == "lit"]
                    has_len = any(m["m"] == "len" for m in hir.nodes(cmp_, "mcall"))
                    lit_right = hir.strip(cmp_["b"]).get("k") == "lit"
                    op = cmp_.get("op")
                    if not lit_right:
                        op = {"<": ">", ">": "<", "<=": ">=", ">=": "<="}.get(op, op)
                    if has_len and ((op, lits) in ((">", [1]), (">=", [2]), ("!=", [1]))):
                        size_ok = True
            if nm in ("find", "any", "find_map") and len(t["args"]) > 1:
                body = _closure_or_fn_body(F, b, defs, t["args"][1])
                txt = {hir.res_def(n) or "" for n in hir.walk(body or {}) if n.get("k") == "path"} | \
                      {x for m in hir.nodes(body or {}, "match") for a in m["arms"] for x in hir.pat_paths(a["pat"])} | \
                      {x for l in hir.nodes(body or {}, "let") for x in hir.pat_paths(l["pat"])}
                callees = [hir.call_def(c2) for c2 in hir.nodes(body or {}, "call")] + [c2.get("def") for c2 in hir.nodes(body or {}, "mcall")]
                for cd in callees:
                    fb = F.body(cd) if cd else None
                    if fb is not None and fb.hir:
                        txt |= {x for m in hir.nodes(fb.hir["value"], "match") for a in m["arms"] for x in hir.pat_paths(a["pat"])}
                        txt |= {hir.pat_desc(l["pat"]) for l in hir.nodes(fb.hir["value"], "let")}
                        txt |= {hir.pat_desc(a["pat"]) for m in hir.nodes(fb.hir["value"], "match") for a in m["arms"]}
                if any("ValueKind::Constant" in x for x in txt) or any("Constant" in hir.pat_desc(mm) for mm in [a["pat"] for m in hir.nodes(body or {}, "match") for a in m["arms"]]):
                    const_ok = True
                elif body is not None and any("Constant" in str(x) for x in txt):
                    const_ok = True
        if not size_ok:
            return "the chain that looks for a constant inside a cycle does not restrict itself to (all) components with more than one member (`len() > 1`)"
        if not const_ok:
            return "the chain over the members of a cycle does not test whether a member is a constant"
        return True
    return None


def rule_d2(F):
    r = RuleResult("C14.D2", "the compilation order is returned only after self-reference, cycle and context checks passed", floor=3)
    ps = [p for p in F.paths() if p.endswith("::find_compilation_order")]
    if not ps:
        r.missing("find_compilation_order")
        return r
    b = F.body(ps[0])
    defs = mir.Defs(b)
    gs = mir.gates(b, defs)
    oks = [(bi, s) for bi, blk in enumerate(b.blocks) for s in blk["stmts"]
           if s["k"] == "assign" and s["p"] == [0] and s["rv"]["k"] == "agg" and s["rv"].get("variant") == "Ok"]
    if not oks:
        r.missing("Ok return in find_compilation_order")
        return r
    dom = mir.dominators(b)
    ctx = [g for g in gs if any(c[1].endswith("::context_check") for c in g["chain"])]
    r.inst("context_check gate", {"gates": len(ctx)})
    if not ctx or not all(any(mir.gated_by(b, g, bi) for g in ctx) for bi, _ in oks):
        r.bad(b.path, "context_check", relfile(b.file), b.line, "the order is returned without the result of context_check() having been checked: a constant reading the context would be evaluated at compile time")
    tj = [bi for bi, t in mir.calls(b) if hir.last(mir.callee(t)) == "tarjan"]
    r.inst("tarjan before Ok", {"sites": tj})
    if not tj or not all(tj[0] in dom[bi] for bi, _ in oks):
        r.bad(b.path, "tarjan", relfile(b.file), b.line, "the order is not derived from the strongly connected components")
    def rejects(c, depth=0):
        """error_recursive_constant itself, or a crate helper that builds that error"""
        if hir.last(c or "") == "error_recursive_constant":
            return True
        fb = F.body(c or "")
        return bool(fb is not None and fb.mir and depth < 2 and any(rejects(mir.callee(t2), depth + 1) for _, t2 in mir.calls(fb)))
    errs = [bi for bi, t in mir.calls(b) if rejects(mir.callee(t))]
    r.inst("recursive-constant errors", {"sites": len(errs)})
    if len(errs) < 2:
        r.bad(b.path, "recursive constant", relfile(b.file), b.line, "find_compilation_order must reject both a self-referencing constant and a constant inside a larger cycle (found %d rejection sites)" % len(errs))
    else:
        before = [e for e in errs if tj and tj[0] not in dom[e]]
        after = [e for e in errs if tj and tj[0] in dom[e]]
        if not before or not after:
            r.bad(b.path, "recursive constant placement", relfile(b.file), b.line, "expected one rejection before (self reference) and one after (component test) the SCC computation")
        else:
            # every member of a multi-item component is examined one by one: the rejection lies inside a loop over
            # the component's members, nested in the loop over the components, and is guarded by `len() > 1`
            loops = mir.natural_loops(b)
            depth = 0
            for g in gs:
                nexts = [c[0] for c in g["chain"] if hir.last(c[2]) == "next"]
                if not nexts:
                    continue
                if any(any(gt in dom[e] for gt in g["good"]) for e in after):
                    depth = max(depth, max(mir.loop_depth(b, n, loops) for n in nexts))
            chain_form = _d2_chain_form(F, b, defs, gs, dom, after) if depth < 2 else None
            r.inst("component members examined individually", {"loop_nesting_of_rejection": depth, "iterator_chain_form": chain_form})
            if chain_form is not None:
                if chain_form is not True:
                    r.bad(b.path, "component test", relfile(b.file), b.blocks[after[0]]["term"]["line"], chain_form)
                continue_size_test = False
            else:
                continue_size_test = True
            if depth < 2 and chain_form is None:
                r.bad(b.path, "component test", relfile(b.file), b.blocks[after[0]]["term"]["line"],
                      "the rejection of a cycle is not inside a loop over the members of the component: not every member is tested, so a cycle with a single constant (e.g. `const A = foo(); fn foo() { A }`) can pass")
            lens = [bi for bi, t in mir.calls(b) if hir.last(mir.callee_def(t)) == "len" and tj[0] in dom[bi]]
            gt1 = not continue_size_test
            for bi2, blk in enumerate(b.blocks):
                for st in blk["stmts"]:
                    if st["k"] == "assign" and st["rv"]["k"] == "bin" and st["rv"]["op"] in ("Gt", "Ge", "Lt", "Le", "Eq", "Ne"):
                        c = mir.op_const(st["rv"]["b"]) or mir.op_const(st["rv"]["a"])
                        if c is not None and c.get("v") in (1, 2) and tj[0] in dom[bi2] and any(bi2 in dom[e] for e in after):
                            gt1 = (st["rv"]["op"], c.get("v")) in (("Gt", 1), ("Ge", 2))
            r.inst("component size test", {"len_calls": len(lens), "is_len_gt_1": gt1})
            if not gt1:
                r.bad(b.path, "component size", relfile(b.file), b.line, "the cycle test must apply to every component with more than one member (`len() > 1`)")
    # the Ok value is the flattened components in order
    for bi, s in oks:
        ch = mir.value_chain(b, defs, s["rv"]["ops"][0][1][0]) if mir.is_place_op(s["rv"]["ops"][0]) else []
        nm = [hir.last(c[2]) for c in ch]
        r.inst("order value", {"chain": nm})
        if any(x in REVERSERS for x in nm) or "flatten" not in nm:
            r.bad(b.path, "order value", relfile(b.file), s["line"], "the returned order is not the flattened component list in Tarjan's order (chain %s)" % nm)
    return r


def rule_d3(F):
    r = RuleResult("C14.D3", "the order is honoured and each constant is evaluated exactly once, after its code is finalized", floor=4)
    # MIR lowerer: items collected by iterating `order` forward
    b = F.body("mir::lower::Lowerer::<'r>::tree")
    if b is None:
        r.missing("mir::lower::Lowerer::tree")
    else:
        defs = mir.Defs(b)
        ok = False
        for bi, t in mir.calls(b):
            if hir.last(mir.callee_def(t)) == "collect":
                ch = mir.value_chain(b, defs, t["args"][0][1][0]) if mir.is_place_op(t["args"][0]) else []
                nm = [hir.last(c[2]) for c in ch]
                if "flat_map" in nm or "filter_map" in nm or "map" in nm:
                    # the innermost iterator must be over the `order` parameter
                    last = ch[-1] if ch else None
                    src = None
                    if last is not None:
                        t2 = b.blocks[last[0]]["term"]
                        src = mir.origin_key(b, defs, t2["args"][0][1]) if t2["args"] and mir.is_place_op(t2["args"][0]) else None
                    pk = {p.get("name"): "arg%d" % (i + 1) for i, p in enumerate(b.hir["params"])}
                    r.inst("tree collects items", {"chain": nm, "source": src})
                    # every step between `order` and the collected items keeps the sequence as it is (no partition / chain /
                    # sort / skip ...: filtermaps moved behind the other items are defined after the constants that call them)
                    keepers = {"iter", "into_iter", "flat_map", "filter_map", "map", "copied", "cloned", "flatten", "by_ref", "collect", "deref", "as_slice", "as_ref", "borrow", "enumerate", "inspect"}
                    foreign = [x for x in nm if x not in keepers]
                    if src and src.startswith(pk.get("order", "?")) and not any(x in REVERSERS for x in nm) and not foreign:
                        ok = True
                    elif foreign:
                        r.note("tree: the item sequence passes through %s" % foreign)
        if not ok:
            r.bad(b.path, "order", relfile(b.file), b.line, "the lowered items are not produced by a forward iteration over the compilation order")
    # LIR: generated helpers before user functions, user order kept
    pb = None
    for p in F.paths():
        if p.endswith("::program") and "lir::lower" in p:
            pb = F.body(p)
    if pb is None:
        r.missing("lir::lower program()")
    else:
        st = pb.hir["value"].get("stmts") or []
        pld = hir.LocalDefs(pb.hir)
        # the vector that becomes the program's `functions` field, and what is appended to it, classified by where it comes from
        out_vec = None
        for sn in hir.nodes(pb.hir["value"], "struct"):
            for f in sn["fields"]:
                if f[0] == "functions":
                    out_vec = hir.res_local(hir.peel_refs(hir.strip(f[1])))
        pushed_in_loop = set()
        for lp in hir.nodes(pb.hir["value"], "loop"):
            for c in hir.nodes(lp, "mcall"):
                if c["m"] == "push":
                    l = hir.res_local(hir.peel_refs(hir.strip(c["recv"])))
                    if l is not None:
                        pushed_in_loop.add(l)

        def what(e):
            """what is appended: the generated helpers (result of a generate_* call) or the user items (collected from the MIR items)"""
            e0 = hir.peel_refs(hir.strip(e))
            l = hir.res_local(e0)
            if l in pushed_in_loop:
                return "functions"
            d = pld.get(l) if l is not None else None
            src = d[1] if d and d[1] is not None else e0
            gen = [hir.last(hir.call_def(c) or "") for c in hir.nodes(src, "call")]
            gen = [g for g in gen if g.startswith("generate_")]
            if gen:
                return gen[0]
            if any(n.get("k") == "field" and n.get("n") == "items" for n in hir.walk(src)):
                return "functions"
            return "?"
        seq = []
        for s_ in st:
            for c in hir.nodes(s_, "mcall"):
                if c["m"] in ("append", "extend") and out_vec is not None and hir.res_local(hir.peel_refs(hir.strip(c["recv"]))) == out_vec:
                    seq.append([what(c["args"][0])])
        r.inst("lir program order", {"appended": seq})
        if out_vec is None:
            r.missing("`functions` field of the lowered program")
        if not seq or seq[-1] != ["functions"] or len(seq) < 4:
            r.bad(pb.path, "helpers first", relfile(pb.file), pb.line, "user items (constants and functions) must be appended after the generated clone/drop/eq helpers, which constants need while being evaluated (sequence %s)" % seq)
        loops = [n for n in hir.nodes(pb.hir["value"], "mcall") if n["m"] in ("rev", "sort", "sort_by", "reverse")]
        if loops:
            r.bad(pb.path, "item order", relfile(pb.file), pb.line, "the item order from the MIR is reordered (%s)" % loops[0]["m"])
    # codegen: Constant arm chain
    cb = F.body("codegen::codegen")
    if cb is None:
        r.missing("codegen::codegen")
        return r
    # the chain lives in codegen() itself or in a helper it calls for a constant item (e.g. ModuleBuilder::initialize_constant)
    chain_body = cb
    helper_calls = None
    if not any("ind" in t["f"] for _, t in mir.calls(cb)):
        for bi, t in mir.calls(cb):
            hb = F.body(mir.callee(t))
            if hb is not None and hb.mir and hb.file == cb.file and any("ind" in u["f"] for _, u in mir.calls(hb)) \
                    and any(hir.last(mir.callee_def(u)) == "insert" for _, u in mir.calls(hb)):
                chain_body = hb
                helper_calls = [x for x, u in mir.calls(cb) if mir.callee(u) == hb.path]
    kb = chain_body
    dom = mir.dominators(kb)
    defs = mir.Defs(kb)
    df = [bi for bi, t in mir.calls(kb) if hir.last(mir.callee(t)) == "define_function"]
    fin = [bi for bi, t in mir.calls(kb) if hir.last(mir.callee_def(t)) == "finalize_definitions"]
    ind = [bi for bi, t in mir.calls(kb) if "ind" in t["f"]]
    ins = [bi for bi, t in mir.calls(kb) if hir.last(mir.callee_def(t)) == "insert" and t["args"] and mir.is_place_op(t["args"][0]) and "roto_constants" in mir.origin_key(kb, defs, t["args"][0][1])]
    r.inst("codegen constant chain", {"in": kb.path, "define_function": df, "finalize_definitions": fin, "initialiser_call": ind, "insert": ins, "helper_call_sites_in_codegen": helper_calls})
    ok = False
    if df and fin and ind and ins:
        for d in df:
            for f in fin:
                for i in ind:
                    for s_ in ins:
                        if d in dom[f] and f in dom[i] and i in dom[s_] and len({d, f, i, s_}) == 4:
                            ok = True
    if not ok:
        r.bad(cb.path, "constant evaluation chain", relfile(kb.file), kb.line,
              "a constant must be defined, its code finalized, its initialiser called and only then stored: define_function < finalize_definitions < initialiser < insert is not a dominance chain")
    if len(ind) != 1 or (helper_calls is not None and len(helper_calls) != 1):
        r.bad(cb.path, "single evaluation", relfile(cb.file), cb.line, "expected exactly one initialiser call site per constant in codegen (found %d%s): constants would be evaluated more or less than once"
              % (len(ind), "" if helper_calls is None else ", helper called from %d sites" % len(helper_calls)))
    dom = mir.dominators(cb)
    defs = mir.Defs(cb)
    # the item loop is a forward loop over `ir`
    for bi, t in mir.calls(cb):
        if hir.last(mir.callee_def(t)) == "into_iter":
            k = mir.origin_key(cb, defs, t["args"][0][1]) if mir.is_place_op(t["args"][0]) else ""
            if k.startswith("arg2"):
                r.inst("codegen iterates ir")
    for bi, t in mir.calls(cb):
        if hir.last(mir.callee_def(t)) in REVERSERS:
            a0 = t["args"][0] if t["args"] else None
            k = mir.origin_key(cb, defs, a0[1]) if mir.is_place_op(a0) else ""
            if k.startswith("arg2"):
                r.bad(cb.path, "item order", relfile(cb.file), t["line"], "codegen traverses the items with %s" % hir.last(mir.callee_def(t)))
    return r


def rule_d4(F):
    """A constant that TRANSITIVELY reads a context variable is rejected.  'Transitively' is a reachability question on the reference
    graph, and reference graphs have cycles (mutually recursive functions), so the answer cannot be computed by one pass over any
    linear order of the items: the function that reports `constant uses context` must get its verdict from a traversal - a recursive
    function over the references, or a worklist loop (a loop that both takes from and adds to a collection)."""
    from ..callgraph import CallGraph
    import json
    r = RuleResult("C14.D4", "the 'constant uses context' verdict comes from a graph traversal over the references (recursion or worklist), not from a single pass over an item order", floor=1)
    anchors = [b for b in F.all_bodies() if b.mir and "{closure" not in b.path and b.path.startswith("typechecker::")
               and any(hir.last(mir.callee_def(t) or "") == "error_constant_uses_context" for _, t in mir.calls(b))]
    if not anchors:
        r.missing("a caller of error_constant_uses_context in the type checker")
        return r
    cg = CallGraph(F)
    for a in anchors:
        seen, _ = cg.reachable([a.path])
        seen = {x for x in seen if x.startswith("typechecker::")}
        # closures of the anchor count as its body
        traversal = None
        for x in sorted(seen):
            xb = F.body(x)
            if xb is None or not xb.mir:
                continue
            # (a) recursion: x reaches itself, and x (or a closure of x) looks at the references
            sub, _ = cg.reachable(sorted(cg.edges.get(x, ())))
            txt = json.dumps(xb.mir["blocks"])
            if x in sub and ('"references"]' in txt or any('"references"]' in json.dumps(F.body(c).mir["blocks"]) for c in sub if c.startswith(x + "::{closure") and F.body(c) and F.body(c).mir)):
                traversal = ("recursive function", x)
                break
            # (b) worklist: a loop that pops from and pushes to a collection
            merged = {}
            for h, nodes in mir.natural_loops(xb):
                merged.setdefault(h, set()).update(nodes)
            for h, nodes in merged.items():
                names_ = {hir.last(mir.callee_def(t) or "") for bi, t in mir.calls(xb) if bi in nodes}
                if names_ & {"pop", "pop_front", "pop_back", "pop_first", "pop_last"} and names_ & {"push", "push_back", "push_front", "insert", "extend"}:
                    traversal = ("worklist loop", x)
                    break
            if traversal:
                break
        r.inst("verdict in %s" % a.path, {"reported_by": a.path, "traversal": traversal})
        if traversal is None:
            r.bad(a.path, "context use decided without a traversal", relfile(a.file), a.line,
                  "%s reports `constant uses context`, but nothing it calls walks the reference graph (no recursive function over `references`, no worklist loop): "
                  "a single pass over a list of items cannot follow references inside a cycle of mutually recursive functions, so a constant that reaches the context "
                  "only through such a cycle is accepted and its initialiser runs without a context" % hir.last(a.path))
    return r


def rule_d5(F):
    """'Afterwards every function and constant observes that one value': a read of a constant in generated code loads from the
    constant's own storage on the path that reads it.  A load remembered per item (first textual read fills a table, later reads
    reuse the temporary) ignores which reads dominate which: on a path that skipped the first read the function sees an undefined
    value.  Shared with C02.L9."""
    from . import c02
    r = c02.rule_l9(F)
    r.rule = "C14.D5"
    r.desc = "every read of a constant in generated code loads from the constant's storage on the reading path (no per-item remembered loads)"
    for v in r.violations:
        v.rule = "C14.D5"
    return r


def rule_d6(F):
    """The order in which items are compiled (and constants evaluated) is the order in which Tarjan's algorithm emits the strongly
    connected components, and an item that is in no emitted component is silently not compiled at all.  One invariant of the
    algorithm is structural: "w is on the stack" is true from w's push to w's pop - decided either by asking the stack itself, or by
    a flag that is cleared for EVERY vertex that is popped (a flag cleared for the component's root only leaves the other members
    marked forever: a later root that reaches one of them never closes its component, so a test block or a constant that calls the
    second function of a mutually recursive pair is dropped).  Shared with C19.X7."""
    r = RuleResult("C14.D6", "SCC computation: membership of the Tarjan stack is read off the stack itself, or off a flag cleared for every popped vertex", floor=1)
    cands = []
    for b in F.bodies_in(["src/typechecker/value_cycle.rs"]):
        if not b.mir or "::tests::" in b.path or "{closure" in b.path:
            continue
        defs = mir.Defs(b)
        pops = [bi for bi, t in mir.calls(b) if hir.last(mir.callee_def(t) or "") == "pop" and t["args"] and mir.is_place_op(t["args"][0]) and "stack" in mir.origin_key(b, defs, t["args"][0][1])]
        if pops:
            cands.append((b, defs, pops))
    if not cands:
        r.missing("the function of value_cycle.rs that pops the Tarjan stack")
        return r
    # the test may be made in another function of the module than the one that pops (`strongly_connect` asks, `pop_component` pops)
    asks_anywhere = []
    for xb in F.bodies_in(["src/typechecker/value_cycle.rs"]):
        if not xb.mir or "::tests::" in xb.path:
            continue
        xdefs = mir.Defs(xb)
        asks_anywhere += [(xb.path, bi) for bi, t in mir.calls(xb) if hir.last(mir.callee_def(t) or "") in ("contains", "any", "position", "find", "binary_search", "rposition")
                          and t["args"] and mir.is_place_op(t["args"][0]) and "stack" in mir.origin_key(xb, xdefs, t["args"][0][1])]
    for b, defs, pops in cands:
        asks_stack = asks_anywhere
        sets, clears = [], []
        for bi, blk in enumerate(b.blocks):
            for st in blk["stmts"]:
                if st["k"] != "assign" or st["rv"]["k"] != "use":
                    continue
                c = mir.op_const(st["rv"]["o"])
                fld = [x for x in st["p"][1:] if isinstance(x, list) and x[0] == "f"]
                if c is None or not fld or str(c.get("ty")) != "bool":
                    continue
                (sets if c.get("v") in (1, True) or str(c.get("text")) == "true" else clears).append((bi, st))
        # a clear made by a helper (`state.leave_stack(w)`): which of its parameters names the vertex that is unmarked
        from .c08 import deps as _deps
        for hbi, ht in mir.calls(b):
            hb = F.body(mir.callee(ht) or "") if (mir.callee(ht) or "").startswith("typechecker::value_cycle::") else None
            if hb is None or not hb.mir or hb.path == b.path:
                continue
            hdefs = mir.Defs(hb)
            for blk in hb.blocks:
                for st in blk["stmts"]:
                    if st["k"] != "assign" or st["rv"]["k"] != "use":
                        continue
                    c = mir.op_const(st["rv"]["o"])
                    fld = [x for x in st["p"][1:] if isinstance(x, list) and x[0] == "f"]
                    if c is None or not fld or str(c.get("ty")) != "bool" or c.get("v") in (1, True) or str(c.get("text")) == "true":
                        continue
                    for dk in _deps(hb, hdefs, st["p"][0]):
                        m_ = re.match(r"^arg(\d+)", dk)
                        if m_ and int(m_.group(1)) >= 2 and int(m_.group(1)) - 1 < len(ht["args"]) and mir.is_place_op(ht["args"][int(m_.group(1)) - 1]):
                            clears.append((hbi, {"p": [ht["args"][int(m_.group(1)) - 1][1][0]]}))
        if asks_stack:
            r.inst("%s: on-stack test" % hir.last(b.path), {"fn": b.path, "form": "asks the stack itself", "sites": len(asks_stack)})
            continue
        if not clears and not sets:
            # the flag may be initialised in a struct literal only; look for reads of a bool field instead
            r.missing("the on-stack test of %s (neither a lookup in the stack nor a flag)" % b.path)
            continue
        loops = mir.natural_loops(b)
        for pb in pops:
            inloop = [nodes for _, nodes in loops if pb in nodes]
            ok = False
            for cb_, st in clears:
                if inloop and not any(cb_ in nodes for nodes in inloop):
                    continue
                if pb in mir.back_calls(b, defs, st["p"][0]):
                    ok = True
            r.inst("%s: on-stack flag" % hir.last(b.path), {"fn": b.path, "form": "flag", "cleared_for_every_popped_vertex": ok, "clears": len(clears)})
            if not ok:
                r.bad(b.path, "on-stack flag not cleared for every popped vertex", relfile(b.file), b.blocks[pb]["term"].get("line") or b.line,
                      "the vertices popped off the Tarjan stack do not all get their on-stack mark cleared (no clear inside the pop loop that addresses the popped vertex): members of an "
                      "emitted component stay marked, a later root that reaches one of them never emits its own component, and the items in it are silently not compiled")
    return r


SHRINKERS = ("retain", "retain_mut", "remove", "swap_remove", "drain", "truncate", "pop", "extract_if", "dedup", "dedup_by", "dedup_by_key", "clear", "split_off")


def shrunk_item_lists(bodies):
    """calls that take elements out of a `Vec<mir::Item>` / `Vec<lir::Item>`"""
    out = []
    for b in bodies:
        if not b.mir or "::tests::" in b.path:
            continue
        for bi, t in mir.calls(b):
            d = mir.callee_def(t) or ""
            g = [x for x in (t["f"].get("gargs") or []) if not x.startswith("'")]
            if d.startswith("std::vec::Vec") and hir.last(d) in SHRINKERS and g and (g[0].endswith("mir::Item") or g[0].endswith("lir::Item")):
                out.append((b, t.get("line"), hir.last(d), g[0]))
    return out


def rule_d7(F):
    """Every script constant is evaluated: what the lowering emits reaches code generation - no pass in between takes an item out of
    the list (`items.retain(..)` in a dead-code stage drops a constant whose initializer "has no effect" by some approximation, and
    that constant is then evaluated zero times).  Search rule over the whole crate, canary-backed."""
    r = RuleResult("C14.D7", "no pass removes items between lowering and code generation (every constant that was lowered is evaluated)", floor=0)
    bodies = [b for b in F.all_bodies() if b.mir]
    hits = shrunk_item_lists(bodies)
    r.inst("bodies searched", {"bodies": len(bodies), "shrinking_calls_on_item_lists": len(hits)})
    for b, ln, what, ty in hits:
        r.bad(b.path, "%s on a list of items" % what, relfile(b.file), ln or b.line,
              "%s calls `%s` on a Vec<%s>: items - among them constants, whose initializers are to run exactly once - are removed before code generation" % (hir.last(b.path), what, ty))
    return r


def canary(C):
    hits = shrunk_item_lists([b for b in C.all_bodies() if b.mir])
    return [{"rule": "C14.D7", "fired": [b.path for b, _, _, _ in hits], "expect_min": 1, "expect_absent": ["items::count"]}]


def rules(ctx):
    F = ctx["F"]
    return [rule_d1(F), rule_d2(F), rule_d3(F), rule_d4(F), rule_d5(F), rule_d6(F), rule_d7(F)]
