"""C18 - registration is validated and makes items reachable where declared."""
import json
import re
from .. import mir, hir
from ..callgraph import CallGraph
from ..facts import relfile
from ..report import RuleResult
from .c08 import deps

EXPLANATION = (
    "Reachability of every item under every library is not decided. Decided: I1 the use-path walker feeds its accumulator (the scope "
    "passed to each lookup is the loop-carried variable that receives the lookup's result); I2 every public constructor that takes a "
    "name calls Rt::check_name and can only return Ok through the success edge of that check (must-pass-through on MIR); I3 Rt::add "
    "runs declare_modules < declare_types < declare_functions < declare_constants < declare_imports, each through `?`; I4 no panic "
    "site (unwrap/expect/index/remove/assert) in runtime::mod / runtime::items reachable from Rt::add and the public constructors "
    "outside a reviewed (kind, producer) table; I5 every TypeChecker::declare_runtime_* result is converted into a RegistrationError "
    "and propagated (duplicate names become errors)."
)
EXPLANATION += (
    ' I6 every get_scope_of lookup during registration takes scope and identifier from the same item (a module: the scope being walked and its ident; a type: name.scope and name.ident), which is what lets the reviewed unwraps of I4 succeed for impl blocks that are not next to their type.'
)
EXPLANATION += (  # round-3 supplement
    ' I7 declare_type looks earlier registrations up by TypeId alone, a hit is an error, the entry is added afterwards. I8 rust_type_to_roto_type maps each constructor to the Roto constructor of the same name with its components in order.'
)
EXPLANATION += (
    ' I9 sibling agreement of the recursive registration passes: each descends into a module (or impl) with the scope looked up for it, never with the scope it was called with. I10 an import is registered only after the imported name was found (some function between Rt::declare_import and the insertion gates the onward call on a lookup of the same name). I11 a context type is stored only after every field type was found among the types of this runtime (discharges the unwrap in TypeChecker::declare_context). I12 name validation: the Ok exit of check_name_internal is decided by a comparison of the lexed token\'s span with the extent of the whole name. I13 a registered type cannot take a name that is already taken in its scope, including the names of the primitives (name lookup in Rt::declare_type decides the hand-over to the type checker; the primitive skip of declare_runtime_type is scope-local). I14 get_scope_of looks names up among the members of the given scope only.'
)
ASSUMPTIONS = [
    "crate-internal generic signatures (Function::new_generic, pub(crate) unsafe) are well-formed: parse_sig/evaluate_type_expr unwraps are reachable only from there",
    "OutPtr is not exported, so HAS_OUT_PTR closures cannot be registered by downstream code",
]

CTORS = ["runtime::items::Module::new", "runtime::items::Type::new", "runtime::items::Function::new",
         "runtime::items::Function::new_generic", "runtime::items::Constant::new"]


def ok_return_blocks(b):
    out = []
    for bi, blk in enumerate(b.blocks):
        for s in blk["stmts"]:
            if s["k"] == "assign" and s["p"] == [0] and s["rv"]["k"] == "agg" and s["rv"].get("variant") == "Ok":
                out.append((bi, s))
    return out


def rule_i1(F):
    r = RuleResult("C18.I1", "use-path walking feeds its accumulator back into the next lookup", floor=1)
    b = F.body("runtime::Rt::declare_import")
    if b is None:
        r.missing("runtime::Rt::declare_import")
        return r
    def looks_up(x):
        """the body, or a closure written in it, calls get_scope_of"""
        fam_ = [x] + [F.body(q) for q in F.paths() if q.startswith(x.path + "::{closure")]
        return any(y is not None and y.mir and any(mir.callee(t2).endswith("::get_scope_of") for _, t2 in mir.calls(y)) for y in fam_)
    if not looks_up(b):
        # the walk over the leading path segments moved into a helper of declare_import
        for _, t in mir.calls(b):
            hb = F.body(mir.callee(t)) if (mir.callee(t) or "").startswith("runtime::Rt::") else None
            if hb is not None and hb.mir and looks_up(hb):
                b = hb
                break
    defs = mir.Defs(b)
    found = False
    for bi, t in mir.calls(b):
        if not mir.callee(t).endswith("::get_scope_of"):
            continue
        found = True
        # the user variable that receives the (unwrapped) result
        targets = set()
        for l, ds in defs.defs.items():
            for d in ds:
                if d[2] == "assign" and len(d[3]["p"]) == 1:
                    rv = d[3]["rv"]
                    if rv["k"] == "use" and mir.is_place_op(rv["o"]):
                        ch = mir.value_chain(b, defs, rv["o"][1][0])
                        src = rv["o"][1][0]
                        if any(c[0] == bi for c in ch) or any(c[0] == bi for c in mir.value_chain(b, defs, src)):
                            targets.add(l)
        # follow one more copy (tmp -> named var)
        more = set()
        for l, ds in defs.defs.items():
            for d in ds:
                if d[2] == "assign" and len(d[3]["p"]) == 1 and d[3]["rv"]["k"] == "use" and mir.is_place_op(d[3]["rv"]["o"]):
                    if d[3]["rv"]["o"][1][0] in targets:
                        more.add(l)
        targets |= more
        named = {l for l in targets if b.mir["locals"][l].get("name")}
        a = t["args"][1]
        root, path = mir.origin(b, defs, a[1]) if mir.is_place_op(a) else ("const", [])
        r.inst("get_scope_of in declare_import", {"scope_argument_origin": root, "result_stored_in": sorted(b.mir["locals"][l].get("name") for l in named)})
        ok = False
        if root.startswith("local"):
            idx = int(root[5:].split(":")[0])
            ok = idx in named
        if not ok:
            r.bad(b.path, "scope argument", relfile(b.file), t["line"],
                  "each path segment is looked up in `%s` instead of the scope found for the previous segment: `use a::b::c` cannot resolve" % root)
    if not found:
        # fold form: `path.iter().try_fold(scope, |current, part| get_scope_of(current, part))` - the accumulator is the closure's first
        # parameter, the lookup's result is what the closure hands back to the fold
        for p_ in F.paths():
            if not p_.startswith(b.path + "::{closure"):
                continue
            cb = F.body(p_)
            if cb is None or not cb.mir:
                continue
            cdefs = mir.Defs(cb)
            for bi, t in mir.calls(cb):
                if not mir.callee(t).endswith("::get_scope_of"):
                    continue
                owner = F.body(p_.rsplit("::{closure", 1)[0])
                folded = False
                for _, pt in mir.calls(owner) if owner is not None and owner.mir else []:
                    if hir.last(mir.callee_def(pt) or "") in ("try_fold", "fold"):
                        odefs = mir.Defs(owner)
                        for a in pt["args"]:
                            if mir.is_place_op(a) and any(d[2] == "assign" and d[3]["rv"]["k"] == "agg" and d[3]["rv"].get("def") == p_ for d in odefs.whole_defs(a[1][0])):
                                folded = True
                a = t["args"][1]
                root, _path = mir.origin(cb, cdefs, a[1]) if mir.is_place_op(a) else ("const", [])
                fed_back = bi in mir.back_calls(cb, cdefs, 0)
                found = True
                r.inst("get_scope_of in declare_import", {"form": "fold", "scope_argument_origin": root, "closure_given_to_fold": folded, "result_is_the_new_accumulator": fed_back})
                if not (folded and root == "arg2" and fed_back):
                    r.bad(cb.path, "scope argument", relfile(cb.file), t["line"],
                          "each path segment is looked up in `%s` instead of the scope found for the previous segment: `use a::b::c` cannot resolve" % root)
    if not found:
        r.missing("call to get_scope_of in declare_import")
    return r


def rule_i2(F):
    r = RuleResult("C18.I2", "every public constructor taking a name validates it (check_name gates the Ok return)", floor=5)
    for p in CTORS + ["runtime::Rt::declare_function"]:
        b = F.body(p)
        if b is None:
            r.missing(p)
            continue
        defs = mir.Defs(b)
        gs = [g for g in mir.gates(b, defs) if any(c[1].endswith("::check_name") for c in g["chain"])]
        oks = ok_return_blocks(b)
        r.inst(p, {"fn": p, "check_name_gates": len(gs), "ok_returns": len(oks)})
        if not gs:
            r.bad(p, "check_name", relfile(b.file), b.line, "%s does not validate its name with Rt::check_name (or drops the result)" % p)
            continue
        for (bi, s) in oks:
            if not any(mir.gated_by(b, g, bi) for g in gs):
                r.bad(p, "check_name gate", relfile(b.file), s["line"], "an Ok return of %s is reachable without passing the success edge of check_name" % p)
        # the checked name must be the stored name
        for bi, t in mir.calls(b):
            if mir.callee(t).endswith("::check_name"):
                a = t["args"][1]
                key = mir.origin_key(b, defs, a[1]) if mir.is_place_op(a) else "?"
                r.inst(p + " checks " + key)
    # the wrappers delegate to the validating constructor
    for w in ("runtime::items::Type::clone", "runtime::items::Type::copy", "runtime::items::Type::value"):
        b = F.body(w)
        if b is None:
            r.missing(w)
            continue
        ok = any(mir.callee(t) == "runtime::items::Type::new" for _, t in mir.calls(b))
        r.inst(w)
        if not ok:
            r.bad(w, "delegation", relfile(b.file), b.line, "%s no longer goes through Type::new (which validates the name)" % w)
    # check_name_internal: only Token::Ident is accepted, exactly one token
    b = F.body("runtime::Rt::check_name_internal")
    if b is None:
        r.missing("runtime::Rt::check_name_internal")
    else:
        okarms = []
        for m in hir.find_match_on(b.hir["value"], "Token::", min_arms=2):
            for row in hir.table(m):
                if isinstance(row["result"], str) and row["result"].startswith("Result::Ok") or (isinstance(row["result"], str) and row["result"].endswith("Ok(..)")):
                    okarms.extend(row["alts"])
        r.inst("check_name_internal accepts", {"ok_for": okarms})
        if okarms != ["Token::Ident(_)"]:
            r.bad(b.path, "accepted tokens", relfile(b.file), b.line, "check_name accepts %s; only a single identifier token is a valid name" % okarms)
        nexts = [c for c in hir.nodes(b.hir["value"], "mcall") if c["m"] == "next"]
        if len(nexts) < 2:
            r.bad(b.path, "single token", relfile(b.file), b.line, "check_name no longer checks that the name is exactly one token")
    return r


PASSES = ["declare_modules", "declare_types", "declare_functions", "declare_constants", "declare_imports"]


def rule_i3(F):
    r = RuleResult("C18.I3", "registration passes run in dependency order, each through `?`", floor=5)
    b = F.body("runtime::Rt::add")
    if b is None:
        r.missing("runtime::Rt::add")
        return r
    defs = mir.Defs(b)
    gs = mir.gates(b, defs)
    pos = {}
    for bi, t in mir.calls(b):
        n = hir.last(mir.callee(t))
        if n in PASSES:
            pos[n] = bi
    prev_gate = None
    for i, n in enumerate(PASSES):
        r.inst(n)
        if n not in pos:
            r.bad(b.path, n, relfile(b.file), b.line, "Rt::add no longer runs %s" % n)
            continue
        g = [g for g in gs if any(c[0] == pos[n] for c in g["chain"])]
        # ... or the pass is the last one and its result IS the function result
        returned = b.blocks[pos[n]]["term"]["dest"] == [0] or any(
            d[2] == "assign" and d[3]["rv"]["k"] == "use" and mir.is_place_op(d[3]["rv"]["o"]) and d[3]["rv"]["o"][1] == b.blocks[pos[n]]["term"]["dest"]
            for d in defs.whole_defs(0))
        if not g and not returned:
            r.bad(b.path, n + " result", relfile(b.file), b.line, "the result of %s is not propagated" % n)
        if i > 0 and PASSES[i - 1] in pos:
            pg = [g2 for g2 in gs if any(c[0] == pos[PASSES[i - 1]] for c in g2["chain"])]
            if not pg or not any(mir.gated_by(b, g2, pos[n]) for g2 in pg):
                r.bad(b.path, "%s after %s" % (n, PASSES[i - 1]), relfile(b.file), b.line,
                      "%s must run after %s succeeded (later passes look up what earlier passes declared)" % (n, PASSES[i - 1]))
    return r


REVIEWED = {
    # (function suffix, callee kind, producer) -> reason
    # wherever it is written (declare_* or a helper of theirs): module scopes were created by declare_modules and type scopes by
    # declare_types, which ran first (I3), and rule I6 checks for every such lookup that scope and identifier belong to the same item
    ("", "unwrap", "get_scope_of"): "module / type scopes exist after declare_modules and declare_types (I3); scope/ident pairing is rule I6",
    ("declare_function", "unwrap", "parse_sig"): "only for crate-internal generic signatures (new_generic is pub(crate) unsafe)",
    ("declare_function", "unwrap", "insert_declaration"): "crate-internal generic signatures only",
    ("declare_function", "unwrap", "evaluate_type_expr"): "crate-internal generic signatures only",
    ("declare_function::{closure#2}", "unwrap", "evaluate_type_expr"): "crate-internal generic signatures only",
    ("declare_function::{closure#4}", "unwrap", "position"): "vtables are empty unless new_generic was used (crate-internal)",
    ("parse_sig", "unwrap", "parse_signature"): "crate-internal generic signatures only",
    ("Function::new", "remove", "-"): "params.remove(0) only when HAS_OUT_PTR; OutPtr is not exported, so only crate-internal registrations take this branch",
    ("Function::new_generic", "remove", "-"): "crate-internal",
}
PANICKY = ("::unwrap", "::expect", "std::ops::Index::index", "std::ops::IndexMut::index_mut", "::remove", "::swap_remove",
           "::split_at", "::unwrap_unchecked", "core::panicking::", "std::rt::begin_panic")


def rule_i4(F):
    r = RuleResult("C18.I4", "no unreviewed panic site in runtime::mod / runtime::items reachable from Rt::add and the public constructors", floor=8)
    cg = CallGraph(F)
    roots = ["runtime::Rt::add", "runtime::items::Use::new", "runtime::items::Impl::new", "runtime::items::Library::add",
             "runtime::items::Module::add", "runtime::items::Impl::add"] + CTORS
    seen, parent = cg.reachable([x for x in roots if F.has(x)])
    for p in sorted(seen):
        b = F.body(p)
        if b is None or not b.mir:
            continue
        if not (b.file.endswith("src/runtime/mod.rs") or b.file.endswith("src/runtime/items.rs")):
            continue
        defs = None
        for bi, blk in enumerate(b.blocks):
            t = blk["term"]
            kind = None
            producer = "-"
            if t["k"] == "assert" and t["msg"] in ("BoundsCheck",):
                kind = "index"
            elif t["k"] == "call":
                d = mir.callee_def(t)
                if not any(x in d for x in PANICKY):
                    continue
                if "panicking" in d or "begin_panic" in d:
                    kind = "panic"
                else:
                    kind = hir.last(d)
                    if t["args"] and mir.is_place_op(t["args"][0]) and kind in ("unwrap", "expect"):
                        if defs is None:
                            defs = mir.Defs(b)
                        ch = mir.value_chain(b, defs, t["args"][0][1][0])
                        prods = [hir.last(c[1]) for c in ch if hir.last(c[1]) not in ("branch", "map_err", "ok_or_else", "from_residual", "deref", "as_ref")]
                        producer = prods[0] if prods else "-"
            if kind is None:
                continue
            if kind == "index":
                # Index::index on a slice with a range shows up as a call; BoundsCheck is element indexing
                pass
            fn = p
            key = (kind, producer)
            r.inst("%s|%s|%s" % (fn, kind, producer), {"fn": fn, "line": t["line"], "kind": kind, "producer": producer})
            ok = [k for k in REVIEWED if fn.endswith(k[0]) and k[1] == kind and k[2] == producer]
            if kind == "unwrap" and producer == "lock":
                continue
            if not ok:
                r.bad(fn, "%s of %s" % (kind, producer), relfile(b.file), t["line"],
                      "registration can panic here (%s on the result of %s) instead of returning a RegistrationError; reached via %s"
                      % (kind, producer, " -> ".join(hir.last(x) for x in cg.chain(parent, p))))
    return r


def rule_i6(F):
    """Obligation behind the reviewed `get_scope_of(..).unwrap()` sites: the scope and the identifier of each lookup
    belong to the same registered item (so the lookup cannot fail after the earlier passes)."""
    r = RuleResult("C18.I6", "scope lookups during registration use the scope in which the looked-up item was declared", floor=2)
    seen_fns = set()
    # helpers that only the use-path walker calls belong to it
    callers = {}
    for b in F.bodies_in(["src/runtime/mod.rs"]):
        if b.mir:
            for _, t in mir.calls(b):
                callers.setdefault(mir.callee(t), set()).add(b.path.split("::{closure")[0])
    import_helpers = {p for p, cs in callers.items() if p and p.startswith("runtime::Rt::") and cs and all("declare_import" in c and "declare_imports" not in c for c in cs)}
    for b in F.bodies_in(["src/runtime/mod.rs"]):
        if not b.mir or "::tests::" in b.path or not any(x in b.path for x in ("::declare_", "Rt::")):
            continue
        fn = b.path
        if hir.last(fn) == "declare_import" or "declare_import" in fn or fn.split("::{closure")[0] in import_helpers:
            continue  # use-paths: rule I1
        defs = None
        n = 0
        for bi, t in mir.calls(b):
            if not mir.callee(t).endswith("::get_scope_of") or len(t["args"]) < 3:
                continue
            defs = defs or mir.Defs(b)
            n += 1
            seen_fns.add(hir.last(fn))
            sk = mir.origin_key(b, defs, t["args"][1][1]) if mir.is_place_op(t["args"][1]) else "?"
            ik = mir.origin_key(b, defs, t["args"][2][1]) if mir.is_place_op(t["args"][2]) else "?"
            r.inst("%s lookup #%d" % (fn.rsplit("::", 1)[-1], n), {"fn": fn, "scope_from": sk, "ident_from": ik})
            scope_param = sk.startswith("arg") and sk[3:].isdigit() and "ScopeRef" in b.mir["locals"][int(sk[3:])]["ty"]
            module_case = scope_param and ik.endswith("ident") and ".name." not in ik
            type_case = sk.endswith(".name.scope") and ik.endswith(".name.ident") and sk[: -len(".scope")] == ik[: -len(".ident")]
            if not (module_case or type_case) and scope_param and re.match(r"^arg\d+$", ik):
                # a forwarding helper (`fn module_scope(&self, scope, ident)`): decided where it is called
                si_, ii_ = int(sk[3:]), int(ik[3:])
                sites_ = [(cb_, ct_) for cb_ in F.bodies_in(["src/runtime/mod.rs"]) if cb_.mir for _, ct_ in mir.calls(cb_) if mir.callee(ct_) == fn]
                verdicts = []
                for cb_, ct_ in sites_:
                    cd_ = mir.Defs(cb_)
                    a_s, a_i = ct_["args"][si_ - 1], ct_["args"][ii_ - 1]
                    sk2 = mir.origin_key(cb_, cd_, a_s[1]) if mir.is_place_op(a_s) else "?"
                    ik2 = mir.origin_key(cb_, cd_, a_i[1]) if mir.is_place_op(a_i) else "?"
                    sp2 = sk2.startswith("arg") and sk2[3:].isdigit() and "ScopeRef" in cb_.mir["locals"][int(sk2[3:])]["ty"]
                    verdicts.append((sp2 and ik2.endswith("ident") and ".name." not in ik2) or
                                    (sk2.endswith(".name.scope") and ik2.endswith(".name.ident") and sk2[: -len(".scope")] == ik2[: -len(".ident")]))
                if sites_ and all(verdicts):
                    module_case = True
            if not (module_case or type_case):
                r.bad(fn, "lookup #%d" % n, relfile(b.file), t["line"],
                      "get_scope_of(%s, %s): the scope and the identifier do not belong to the same item (a module is looked up in the scope being walked, a type in the scope where it was registered): the lookup fails - and the following unwrap panics - for an impl block or module that is not next to its type" % (sk, ik))
    return r


def _i7_loop_form(F, b, r):
    """The duplicate lookup written as a loop over self.types: the comparison of the two TypeIds sits in the loop, and its `equal`
    outcome can only leave the function with an error (no further condition, no way to the push)."""
    if not b.mir:
        r.missing("lookup over self.types by type id in declare_type")
        return r
    defs = mir.Defs(b)
    dom = mir.dominators(b)
    pushes = [bi for bi, t in mir.calls(b) if hir.last(mir.callee_def(t) or "") == "push" and t["args"] and mir.is_place_op(t["args"][0]) and ".types" in mir.origin_key(b, defs, t["args"][0][1])]
    oks = mir.ok_exits(b)
    cmps = []         # (block of the switch, successor taken when the ids are equal, line)
    for bi, t in mir.calls(b):
        n = hir.last(mir.callee_def(t) or "")
        if n not in ("eq", "ne") or "TypeId" not in " ".join(t["f"].get("gargs") or []) + (mir.callee(t) or ""):
            continue
        from ..seq import deep_keys
        sides = []
        for a in t["args"]:
            if mir.is_place_op(a):
                k0 = mir.origin_key(b, defs, a[1])
                sides.append(("type_id" in k0, any(".types" in k for k in ({k0} | deep_keys(b, defs, a[1][0])))))
        if not (any(tid and reg for tid, reg in sides) and any(tid and not reg for tid, reg in sides)):
            continue
        d = t["dest"][0]
        for si, blk in enumerate(b.blocks):
            tt = blk["term"]
            if tt["k"] == "switch" and mir.is_place_op(tt["o"]) and (tt["o"][1][0] == d or d in {x for dd in defs.whole_defs(tt["o"][1][0]) if dd[2] == "assign" for x in mir.rv_locals(dd[3]["rv"])}):
                tg = dict(tt["targets"])
                want = 1 if n == "eq" else 0
                cmps.append((si, tg.get(want, tt["otherwise"]), t.get("line")))
    if not cmps:
        r.missing("lookup over self.types by type id in declare_type")
        return r
    loops = mir.natural_loops(b)
    for si, eq_succ, line in cmps:
        in_loop = any(si in nodes for _, nodes in loops)
        reach = mir.reachable_from(b, eq_succ) | {eq_succ}
        leaks = [x for x in pushes + oks if x in reach]
        ok_pred = in_loop and not leaks
        r.inst("lookup predicate", {"line": line, "is_type_id_equality": ok_pred, "form": "loop over self.types"})
        if not ok_pred:
            r.bad(b.path, "duplicate lookup predicate", relfile(b.file), line,
                  "the lookup for an earlier registration does not match every entry with the same TypeId (the predicate is narrowed): the same Rust type can be registered twice, e.g. under the same name in another scope")
        errs = [x for x in mir.ok_exits(b, "Err") if x in reach]
        r.inst("hit returns Err", {"ok": bool(errs)})
        if not errs:
            r.bad(b.path, "duplicate not refused", relfile(b.file), line, "finding an earlier registration of the same Rust type does not return a RegistrationError")
        hdrs = [h for h, nodes in loops if si in nodes]
        before = bool(pushes) and all(any(h in dom[pb] for h in hdrs) for pb in pushes)
        r.inst("entry added after the lookup", {"pushes": len(pushes)})
        if not before:
            r.bad(b.path, "push before lookup", relfile(b.file), b.line, "the new entry is added to self.types before (or without) the duplicate lookup")
    return r


def rule_i7(F):
    """A Rust type is registered at most once: the lookup that guards Rt::declare_type finds ANY earlier registration of the same
    TypeId (its predicate is the type-id equality alone - a conjunction narrows it), a hit returns an error, and only then is the
    new entry pushed."""
    r = RuleResult("C18.I7", "declare_type refuses every second registration of a Rust type: lookup by TypeId alone, hit -> Err, before the entry is added", floor=3)
    b = F.body("runtime::Rt::declare_type")
    if b is None or not b.hir:
        r.missing("runtime::Rt::declare_type")
        return r
    h = b.hir["value"]
    look = None
    for c in hir.nodes(h, "mcall"):
        if c["m"] in ("find", "any", "position") and any(n.get("k") == "field" and n.get("n") == "types" for n in hir.walk(c["recv"])) and c["args"]:
            # the lookup whose predicate is about the Rust type (another one may look for the name: rule I13)
            if any(n.get("k") == "field" and n.get("n") == "type_id" for n in hir.walk(c["args"][0])):
                look = c
    if look is None:
        return _i7_loop_form(F, b, r)
    cl = hir.strip(look["args"][0])
    body = hir.strip(cl.get("body") or {}) if cl.get("k") == "closure" else {}

    def is_tid_eq(e):
        e = hir.strip(e)
        if e.get("k") != "bin" or e.get("op") != "==":
            return False
        fa = [n.get("n") for n in hir.walk(e["a"]) if n.get("k") == "field"]
        fb = [n.get("n") for n in hir.walk(e["b"]) if n.get("k") == "field"]
        return "type_id" in fa and "type_id" in fb

    def accepts_all_equal(e):
        """predicate is true whenever the type ids are equal"""
        e = hir.strip(e)
        if is_tid_eq(e):
            return True
        if e.get("k") == "bin" and e.get("op") == "||":
            return accepts_all_equal(e["a"]) or accepts_all_equal(e["b"])
        return False
    ok_pred = accepts_all_equal(body)
    r.inst("lookup predicate", {"line": look["line"], "is_type_id_equality": ok_pred})
    if not ok_pred:
        r.bad(b.path, "duplicate lookup predicate", relfile(b.file), look["line"],
              "the lookup for an earlier registration does not match every entry with the same TypeId (the predicate is narrowed): the same Rust type can be registered twice, e.g. under the same name in another scope")
    # hit -> Err
    hit_err = False
    i7ld = hir.LocalDefs(b.hir)
    for iff in hir.nodes(h, "if"):
        if any(n is look for n in hir.walk_expanded(i7ld, iff["cond"])):
            descs = [str(hir.result_desc(x.get("e"))) for x in hir.nodes(iff["then"], "ret")]
            hit_err = any("Err" in d for d in descs) and hir.diverges(iff["then"])
    r.inst("hit returns Err", {"ok": hit_err})
    if not hit_err:
        r.bad(b.path, "duplicate not refused", relfile(b.file), look["line"], "finding an earlier registration of the same Rust type does not return a RegistrationError")
    # order: lookup before push
    pushes = [c for c in hir.nodes(h, "mcall") if c["m"] == "push" and any(n.get("k") == "field" and n.get("n") == "types" for n in hir.walk(c["recv"]))]
    r.inst("entry added after the lookup", {"pushes": len(pushes)})
    if not pushes or any(c["line"] < look["line"] for c in pushes):
        r.bad(b.path, "push before lookup", relfile(b.file), b.line, "the new entry is added to self.types before (or without) the duplicate lookup")
    return r


CTOR_OF = {"Option": "option", "Verdict": "verdict", "Result": "result", "List": "list"}


def rule_i8(F):
    """'With the declared signature': the Roto type a registered item is given is built from the Rust type description component by
    component - TypeDescription::X(c0, c1) becomes Type::x(conv(c0), conv(c1)), same constructor, same order, every component
    converted by the recursive call."""
    r = RuleResult("C18.I8", "rust_type_to_roto_type: each constructor maps to the Roto constructor of the same name with its components in the same order", floor=4)
    ps = [p for p in F.paths() if p.endswith("TypeChecker::rust_type_to_roto_type")]
    if not ps:
        r.missing("TypeChecker::rust_type_to_roto_type")
        return r
    b = F.body(ps[0])
    ld = hir.LocalDefs(b.hir)
    ms = hir.find_match_on(b.hir["value"], "TypeDescription::", min_arms=4)
    if not ms:
        r.missing("match over TypeDescription in rust_type_to_roto_type")
        return r
    for arm in ms[0]["arms"]:
        v = hir.last(hir.pat_paths(arm["pat"])[0])
        if v not in CTOR_OF:
            continue
        binds = [l for (_, l) in hir.pat_bindings(arm["pat"])]
        calls = [c for c in hir.nodes(arm["body"], "call") if hir.last(hir.call_def(c) or "") == CTOR_OF[v] and "types::Type" in (hir.call_def(c) or "")]
        order = None
        if calls:
            order = []
            for a in calls[0]["args"]:
                locs = [hir.res_local(n) for n in hir.walk_expanded(ld, a) if n.get("k") == "path" and hir.res_local(n) in binds]
                rec = any((hir.call_def(n) or "").endswith("rust_type_to_roto_type") for n in hir.walk_expanded(ld, a) if n.get("k") == "call")
                order.append((binds.index(locs[0]) if len(set(locs)) == 1 else None, rec))
        r.inst("TypeDescription::%s" % v, {"constructor": v, "roto_constructor_found": bool(calls), "component_order": order})
        if not calls:
            r.bad(b.path, "TypeDescription::%s constructor" % v, relfile(b.file), arm["line"], "TypeDescription::%s is not turned into Type::%s(..)" % (v, CTOR_OF[v]))
        elif order != [(i, True) for i in range(len(binds))]:
            r.bad(b.path, "TypeDescription::%s components" % v, relfile(b.file), arm["line"],
                  "the components of %s are passed to Type::%s as %s (position, converted recursively) instead of in their own order: a registered function mentioning %s<A, B> is declared to scripts with the arguments swapped or unconverted" % (v, CTOR_OF[v], order, v))
    return r


def rule_i5(F):
    r = RuleResult("C18.I5", "every TypeChecker::declare_runtime_* result becomes a RegistrationError and is propagated", floor=6)
    n = 0
    for b in F.bodies_in(["src/runtime/mod.rs"]):
        if not b.mir:
            continue
        defs = None
        gs = None
        for bi, t in mir.calls(b):
            name = mir.callee(t)
            if "::declare_runtime_" not in name:
                continue
            if defs is None:
                defs = mir.Defs(b)
                gs = mir.gates(b, defs)
            n += 1
            g = [g for g in gs if any(c[0] == bi for c in g["chain"])]
            mapped = any(any("map_err" in c[1] for c in gg["chain"]) for gg in g)
            r.inst("%s in %s" % (hir.last(name), b.path), {"call": hir.last(name), "fn": b.path, "propagated": bool(g), "mapped": mapped})
            if not g:
                r.bad(b.path, hir.last(name), relfile(b.file), t["line"], "the result of %s is dropped: a duplicate or invalid declaration would be accepted silently" % hir.last(name))
            else:
                oks = ok_return_blocks(b)
                for (obi, s) in oks:
                    if not any(mir.gated_by(b, gg, obi) for gg in g) and bi in mir.dominators(b)[obi]:
                        r.bad(b.path, hir.last(name) + " gate", relfile(b.file), s["line"], "Ok is returned although %s failed" % hir.last(name))
    # insert_declaration refuses occupied entries
    cands = [p for p in F.paths() if p.endswith("ScopeGraph::insert_declaration")]
    if not cands:
        r.missing("ScopeGraph::insert_declaration")
    else:
        b = F.body(cands[0])
        defs = mir.Defs(b)
        dom = mir.dominators(b)
        ins = mir.vacant_only_insertions(b, defs, dom)
        # calls of the predicate parameter (`update_if`): Fn::call on something that comes from a parameter
        pred = []
        for bi, t in mir.calls(b):
            if (mir.callee_def(t) or "").startswith("std::ops::Fn") and t["args"] and mir.is_place_op(t["args"][0]):
                root, _ = mir.origin(b, defs, t["args"][0][1])
                if root.startswith("arg"):
                    pred.append(bi)
        oks = mir.ok_exits(b)
        ok = bool(oks)
        for ob in oks:
            fresh = any(ib in dom[ob] for ib in ins)
            allowed = any(pb in dom[ob] and mir.decided_by(b, defs, dom, pb, ob) for pb in pred)
            if not (fresh or allowed):
                ok = False
        r.inst("insert_declaration refuses occupied", {"ok": ok, "successful_exits": len(oks), "new_key_insertions": len(ins), "predicate_calls": len(pred)})
        if not ok:
            r.bad(b.path, "occupied", relfile(b.file), b.line, "insert_declaration no longer returns Err for a name that is already declared (unless update_if allows the overwrite)")
    return r


def rule_i9(F):
    """Sibling agreement of the recursive registration passes: each declare_* pass that walks the item tree descends into a module
    with the module's own scope (obtained from get_scope_of / declare_runtime_module), never with the scope it was called with."""
    r = RuleResult("C18.I9", "every recursive registration pass descends into a module with the module's own scope", floor=4)
    for b in F.bodies_in(["src/runtime/mod.rs"]):
        if not b.mir or "::tests::" in b.path or "{closure" in b.path:
            continue
        scope_params = [i + 1 for i in range(b.mir["argc"]) if "ScopeRef" in b.mir["locals"][i + 1]["ty"]]
        if not scope_params:
            continue
        defs = None
        for bi, t in mir.calls(b):
            if mir.callee(t) != b.path:
                continue
            defs = defs or mir.Defs(b)
            for sp in scope_params:
                if len(t["args"]) < sp or not mir.is_place_op(t["args"][sp - 1]):
                    continue
                a = t["args"][sp - 1]
                srcs = {hir.last(mir.callee(b.blocks[x]["term"]) or "") for x in mir.back_calls(b, defs, a[1][0])}
                # the deviation is descending with (a copy of) the very scope the pass was called with; a scope obtained from any
                # lookup - directly or through a helper - is the child's
                root, path = mir.origin(b, defs, a[1])
                own = not (root == "arg%d" % sp and not mir.normalize_path(path))
                r.inst("%s recursion" % hir.last(b.path), {"fn": b.path, "line": t.get("line"), "scope_from": sorted(srcs) or ["the incoming scope"]})
                if not own:
                    r.bad(b.path, "module descent with the incoming scope", relfile(b.file), t.get("line"),
                          "%s descends into the children of a module with the scope it was called with instead of the module's own scope (its sibling passes look the scope up with get_scope_of): "
                          "items of the module are declared one level too high (`mod bar { use foo::one; }` makes `one` usable at the top level)" % hir.last(b.path))
    return r


def rule_i10(F):
    """A use declaration must name an existing item: somewhere on the way from Rt::declare_import to the insertion of the import the
    name is looked up and the insertion only happens when the lookup succeeded."""
    r = RuleResult("C18.I10", "an import is only registered after the imported name was found", floor=1)
    chain = []
    for suffix in ("runtime::Rt::declare_import", "::declare_runtime_import", "::insert_import"):
        ps = [p for p in F.paths() if p.endswith(suffix) and "{closure" not in p]
        if not ps:
            r.missing(suffix)
            return r
        chain.append(F.body(ps[0]))
    LOOKUPS = ("resolve_name", "get", "contains_key", "get_declaration", "get_key_value")
    gated = []
    for i, b in enumerate(chain):
        defs = mir.Defs(b)
        dom = mir.dominators(b)
        if i + 1 < len(chain):
            onward = [(bi, t) for bi, t in mir.calls(b) if mir.callee(t) == chain[i + 1].path]
        else:
            onward = [(bi, t) for bi, t in mir.calls(b) if hir.last(mir.callee_def(t) or "") in ("insert", "entry")]
        if not onward:
            r.missing("onward call in " + hir.last(b.path))
            return r
        for obi, ot in onward:
            oroots = set()
            for a in ot["args"][1:]:
                if mir.is_place_op(a):
                    oroots |= {x.split(".")[0] for x in deps(b, defs, a[1][0])}
            for lbi, lt in mir.calls(b):
                n = hir.last(mir.callee_def(lt) or mir.callee(lt) or "")
                if n not in LOOKUPS or lbi == obi or lbi not in dom[obi]:
                    continue
                lroots = set()
                for a in lt["args"][1:]:
                    if mir.is_place_op(a):
                        lroots |= {x.split(".")[0] for x in deps(b, defs, a[1][0])}
                # the last path component of the use must be among what is looked up: get_scope_of of the leading components is not enough
                if not (lroots & oroots):
                    continue
                if mir.decided_by(b, defs, dom, lbi, obi):
                    gated.append("%s: %s decides %s" % (hir.last(b.path), n, hir.last(mir.callee(ot) or "")))
    r.inst("declare_import -> insert_import", {"existence checks": gated})
    if not gated:
        r.bad(chain[0].path, "import of a name that was never looked up", relfile(chain[1].file), chain[1].line,
              "a `use` item is registered without checking that the named item exists: registration succeeds and a script that mentions the name panics in the type checker (unwrap on a missing declaration)")
    return r


def rule_i11(F):
    """TypeChecker::declare_context unwraps Rt::get_runtime_type for every context field.  That obligation is discharged at
    registration: register_context_type looks every field type up among the types of THIS runtime (not only in the process-wide
    TypeRegistry, which other runtimes fill) and only stores the context when every lookup succeeded."""
    r = RuleResult("C18.I11", "a context type is only accepted when every field type is registered with this runtime", floor=1)
    ps = [p for p in F.paths() if p.endswith("::register_context_type") and "{closure" not in p]
    if not ps:
        r.missing("Rt::register_context_type")
        return r
    b = F.body(ps[0])
    defs = mir.Defs(b)
    dom = mir.dominators(b)
    # the store of the context: an assignment to (*self).context
    stores = []
    for bi, blk in enumerate(b.blocks):
        for st in blk["stmts"]:
            if st["k"] == "assign" and st["p"][0] == 1 and any(isinstance(x, list) and x[0] == "f" and x[-1] == "context" for x in st["p"][1:]):
                stores.append(bi)
    if not stores:
        r.missing("store to self.context in register_context_type")
        return r
    loops = mir.natural_loops(b)
    LOCAL = ("get_runtime_type",)
    checks = []
    for lbi, lt in mir.calls(b):
        n = hir.last(mir.callee(lt) or "")
        is_local = n in LOCAL
        if not is_local and hir.last(mir.callee_def(lt) or "") in ("find", "any", "position", "contains"):
            a0 = lt["args"][0] if lt["args"] else None
            is_local = mir.is_place_op(a0) and any(x.startswith("arg1") and ".types" in x for x in deps(b, defs, a0[1][0]))
        if not is_local:
            continue
        for sb in stores:
            # a branch on the lookup's result with a side that never reaches the store
            decides = False
            for si, blk in enumerate(b.blocks):
                t = blk["term"]
                if t["k"] != "switch" or lbi not in dom[si]:
                    continue
                l = mir.op_local(t["o"])
                if l is None or lbi not in mir.back_calls(b, defs, l):
                    continue
                if any(sb not in (mir.reachable_from(b, s) | {s}) for s in mir.succs(blk)):
                    decides = True
            # the lookup runs for every field: its loop header lies on every path to the store
            hdrs = [h for h, nodes in loops if lbi in nodes]
            on_path = any(h in dom[sb] for h in hdrs) or lbi in dom[sb]
            if decides and on_path:
                checks.append("%s at line %s" % (n, lt.get("line")))
    r.inst("register_context_type", {"lookups among this runtime's types that decide the store": checks})
    if not checks:
        r.bad(b.path, "context stored without looking the field types up in this runtime", relfile(b.file), b.line,
              "register_context_type accepts a context whose field types are only known to the process-wide TypeRegistry (filled by other runtimes): "
              "TypeChecker::declare_context then unwraps get_runtime_type on None and every compilation with this runtime panics")
    return r


def rule_i12(F):
    """Names of registered items are validated by lexing them - and the lexer skips whitespace and comments.  A name is an identifier
    only if the one token that was lexed IS the name: the Ok exit of the validation is decided by a comparison of the token's span
    with the extent of the whole name."""
    r = RuleResult("C18.I12", "name validation: the identifier token must span the whole name (no surrounding whitespace or comments)", floor=1)
    ps = [p for p in F.paths() if p.endswith("::check_name_internal")]
    if not ps:
        r.missing("Rt::check_name_internal")
        return r
    b = F.body(ps[0])
    defs = mir.Defs(b)
    dom = mir.dominators(b)
    nexts = [bi for bi, t in mir.calls(b) if hir.last(mir.callee_def(t) or "") == "next"]
    oks = [bi for bi, blk in enumerate(b.blocks) for st in blk["stmts"] if st["k"] == "assign" and st["p"] == [0] and st["rv"]["k"] == "agg" and st["rv"].get("variant") == "Ok"]
    if not nexts or not oks:
        r.missing("the lexer call / the Ok exit of check_name_internal")
        return r
    first = min(nexts)
    # comparisons that look at the span (second component of what the lexer returned) 
    cmps = []
    for bi, t in mir.calls(b):
        if hir.last(mir.callee_def(t) or "") in ("ne", "eq") and t["args"]:
            keys = [mir.origin_key(b, defs, a[1]) for a in t["args"] if mir.is_place_op(a)]
            if any("next" in k and ".1" in k.split("next", 1)[1] for k in keys):
                cmps.append(bi)
    for bi, blk in enumerate(b.blocks):
        for st in blk["stmts"]:
            if st["k"] == "assign" and st["rv"]["k"] == "bin" and st["rv"].get("op") in ("Eq", "Ne", "Lt", "Le", "Gt", "Ge"):
                keys = [mir.origin_key(b, defs, o[1]) for o in (st["rv"]["a"], st["rv"]["b"]) if mir.is_place_op(o)]
                if any("next" in k and ".1" in k.split("next", 1)[1] for k in keys):
                    cmps.append(bi)
    decided = False
    for c in cmps:
        for ok in oks:
            # a branch after the comparison, fed by it, with a side that cannot reach the Ok exit
            for si, sblk in enumerate(b.blocks):
                tt = sblk["term"]
                if tt["k"] != "switch" or c not in dom[si] or si not in dom[ok]:
                    continue
                l = mir.op_local(tt["o"])
                if l is None:
                    continue
                src_blocks = mir.back_calls(b, defs, l) | {d[0] for d in defs.whole_defs(l)}
                if c in src_blocks and any(s_ != ok and ok not in mir.reachable_from(b, s_) for s_ in mir.succs(sblk)):
                    decided = True
    r.inst("check_name_internal", {"span_comparisons": len(cmps), "ok_exit_decided_by_span": decided})
    if not decided:
        r.bad(b.path, "token span not compared with the whole name", relfile(b.file), b.line,
              "a name is accepted when the lexer finds exactly one identifier token in it, but the lexer skips whitespace and comments: \" foo\", \"foo \" and \"foo // x\" are registered as "
              "names that no script can spell")
    return r


def rule_i13(F):
    """A name is taken at most once per scope - also the names of the primitives.  The type checker knows the primitives before the
    basic library registers them and therefore skips a registration whose name resolves to a primitive; that skip must not swallow a
    DIFFERENT Rust type registered under such a name (it would silently get the primitive's Roto type: a `Val<Foo>` readable as
    `u8`).  Decided: (a) Rt::declare_type refuses a second type with the same (scope, name) before it hands the type to the type
    checker; (b) the skip in declare_runtime_type looks the name up in the given scope only (not in enclosing scopes)."""
    r = RuleResult("C18.I13", "a registered type cannot take the name of a primitive (or of another registered type) of its scope", floor=2)
    b = F.body("runtime::Rt::declare_type")
    if b is None or not b.mir:
        r.missing("runtime::Rt::declare_type")
        return r
    defs = mir.Defs(b)
    dom = mir.dominators(b)
    onward = [bi for bi, t in mir.calls(b) if hir.last(mir.callee(t) or "") == "declare_runtime_type"]
    # lookups among self.types whose closure compares names
    name_lookups = []
    for bi, t in mir.calls(b):
        if hir.last(mir.callee_def(t) or "") not in ("find", "any", "position", "all"):
            continue
        a0 = t["args"][0] if t["args"] else None
        if not (mir.is_place_op(a0) and any(".types" in x for x in deps(b, defs, a0[1][0]))):
            continue
        cl = None
        for a in t["args"][1:]:
            if mir.is_place_op(a):
                for d in defs.whole_defs(a[1][0]):
                    if d[2] == "assign" and d[3]["rv"]["k"] == "agg" and d[3]["rv"].get("ak") == "closure":
                        cl = F.body(d[3]["rv"]["def"])
        if cl is not None and cl.hir and any(n.get("k") == "field" and n.get("n") == "name" for n in hir.walk(cl.hir["value"])) \
                and not any(n.get("k") == "field" and n.get("n") == "type_id" for n in hir.walk(cl.hir["value"])):
            name_lookups.append(bi)
    decided = any(mir.decided_by(b, defs, dom, lb, ob) for lb in name_lookups for ob in onward)
    r.inst("declare_type: name already taken", {"name_lookups": len(name_lookups), "decides_declare_runtime_type": decided})
    if not onward:
        r.missing("call of declare_runtime_type in Rt::declare_type")
    elif not decided:
        r.bad(b.path, "second type under a taken name", relfile(b.file), b.line,
              "Rt::declare_type does not refuse a type whose (scope, name) is already taken by a registered type before handing it to the type checker, which skips names that resolve to a "
              "primitive: `type u8 = Val<Foo>` registers, and every `Val<Foo>` is then typed `u8` in scripts (`fn f() -> u8 { make_foo() }` is retrievable as `fn() -> u8`)")
    tb = None
    for p_ in F.paths():
        if p_.endswith("TypeChecker::declare_runtime_type"):
            tb = F.body(p_)
    if tb is None or not tb.mir:
        r.missing("TypeChecker::declare_runtime_type")
        return r
    rn = [(bi, t) for bi, t in mir.calls(tb) if hir.last(mir.callee(t) or "") == "resolve_name" and len(t["args"]) == 4]
    for bi, t in rn:
        c = mir.op_const(t["args"][3])
        tdefs = mir.Defs(tb)
        val = c.get("v") if c is not None else None
        if c is None and mir.is_place_op(t["args"][3]):
            root, _p = mir.origin(tb, tdefs, t["args"][3][1])
            val = {"const:true": 1, "const:false": 0}.get(root, None)
        r.inst("declare_runtime_type: primitive lookup", {"line": t.get("line"), "searches_enclosing_scopes": val not in (0, False)})
        if val not in (0, False):
            r.bad(tb.path, "primitive skip looks into enclosing scopes", relfile(tb.file), t.get("line"),
                  "the registration of a type is skipped when its name resolves to a primitive in ANY enclosing scope: `mod m { type u32 = Val<Foo>; }` registers without a declaration "
                  "for m.u32, and a script that uses a function returning it hits an internal compiler error")
    if not rn:
        r.missing("the lookup of the primitive names in declare_runtime_type")
    return r


def rule_i14(F):
    """Items are reachable at exactly the path where they were declared: every registration pass obtains the scope of a module or type
    with TypeChecker::get_scope_of(scope, name), which must look the name up among the MEMBERS of that scope only.  A lookup that
    also searches enclosing scopes and imports makes `use a::b::f` succeed when `b` is a sibling of `a` (and the outcome depend on
    the order of the items)."""
    r = RuleResult("C18.I14", "get_scope_of resolves a name among the members of the given scope only (no enclosing scopes, no imports)", floor=1)
    ps = [p for p in F.paths() if p.endswith("TypeChecker::get_scope_of")]
    if not ps:
        r.missing("TypeChecker::get_scope_of")
        return r
    b = F.body(ps[0])
    if not b.mir:
        r.missing("MIR of get_scope_of")
        return r
    defs = mir.Defs(b)
    rn = [(bi, t) for bi, t in mir.calls(b) if hir.last(mir.callee(t) or "") == "resolve_name" and len(t["args"]) == 4]
    if not rn:
        r.missing("the lookup in get_scope_of")
    for bi, t in rn:
        c = mir.op_const(t["args"][3])
        val = c.get("v") if c is not None else None
        if c is None and mir.is_place_op(t["args"][3]):
            root, _p = mir.origin(b, defs, t["args"][3][1])
            val = {"const:true": 1, "const:false": 0}.get(root, None)
        r.inst("get_scope_of lookup", {"line": t.get("line"), "searches_enclosing_scopes": val not in (0, False)})
        if val not in (0, False):
            r.bad(b.path, "scope lookup searches enclosing scopes", relfile(b.file), t.get("line"),
                  "get_scope_of looks the name up through enclosing scopes and imports: a `use` path resolves through a module that is not a member of the previous segment "
                  "(`mod a {} mod b { fn f } use a::b::f;` registers)")
    return r


def rule_i15(F):
    """The registration state of a runtime is one thing: the type checker's declarations and the runtime's own tables (`types`,
    `functions`, `constants`, `context`) describe the same items, and every pass of `Rt::add` relies on that (a type found in
    `types` has a scope in the type checker: `get_scope_of(..).unwrap()`).  So the state is only ever put back as a whole: a wrapper
    that restores a saved copy of SOME fields of `Rt` after a refused library (the type checker, but not the tables) leaves a type
    registered without a declaration, and the next `add` that mentions it panics.  Decided on the public `Runtime` methods: the
    set of `Rt` fields that are overwritten from outside `Rt`'s own methods is empty or all of them."""
    r = RuleResult("C18.I15", "the registration state (type checker + type/function/constant tables) is never restored partially", floor=1)
    adt = F.adt("runtime::Rt")
    if adt is None:
        r.missing("runtime::Rt")
        return r
    all_fields = [f["name"] for f in adt["variants"][0]["fields"]]
    owners = [x for x in F.all_bodies() if x.mir and x.path.split("::{closure")[0].startswith("runtime::Runtime::<")]
    if not owners:
        r.missing("methods of runtime::Runtime")
        return r
    by_fn = {}
    for x in owners:
        locs = x.mir["locals"]
        for blk in x.blocks:
            for st in blk["stmts"]:
                if st["k"] != "assign" or len(st["p"]) < 2:
                    continue
                names = [e[2] for e in st["p"][1:] if isinstance(e, list) and e[0] == "f"]
                # a store to `<..>.rt.<field>` (or to a field of a captured `&mut Rt`)
                for i, nm in enumerate(names):
                    prev = names[i - 1] if i else None
                    base_ty = str(locs[st["p"][0]].get("ty") or "")
                    if nm in all_fields and (prev == "rt" or ("runtime::Rt" in base_ty and i == 0)) and i == len(names) - 1:
                        by_fn.setdefault(x.path.split("::{closure")[0], set()).add(nm)
    # closures capture the single field they write (`&mut self.rt.type_checker`): the captured variable is named after the path
    for x in owners:
        if "{closure" not in x.path:
            continue
        xdefs = mir.Defs(x)
        for blk in x.blocks:
            if blk.get("cleanup"):
                continue
            for st in blk["stmts"]:
                if st["k"] != "assign" or st["p"][1:] != ["*"]:
                    continue
                for d in xdefs.whole_defs(st["p"][0]):
                    rv = d[3].get("rv") if d[2] == "assign" else None
                    o = rv.get("o") if rv and rv.get("k") == "use" else None
                    if mir.is_place_op(o) and o[1][0] == 1:
                        for e in o[1][1:]:
                            m_ = re.match(r"^_ref__.*?rt__(\w+)$", str(e[2])) if isinstance(e, list) and e[0] == "f" else None
                            if m_ and m_.group(1) in all_fields:
                                by_fn.setdefault(x.path.split("::{closure")[0], set()).add(m_.group(1))
    for fn in sorted({x.path.split("::{closure")[0] for x in owners}):
        stored = by_fn.get(fn, set())
        if hir.last(fn) in ("add", "from_lib", "new", "with_context_type", "register_context_type") or stored:
            r.inst("%s" % fn, {"fn": fn, "fields_of_Rt_overwritten": sorted(stored)})
        if stored and stored != set(all_fields):
            b = F.body(fn)
            r.bad(fn, "partial restore of the registration state (%s)" % ", ".join(sorted(stored)), relfile(b.file) if b else "-", b.line if b else 0,
                  "%s overwrites %s of the runtime's state but not %s: after a refused library the type checker and the runtime's tables disagree (a type is registered without a "
                  "declaration), and a later `add` that mentions it panics on `get_scope_of(..).unwrap()` or compiles scripts into an internal compiler error"
                  % (hir.last(fn), sorted(stored), sorted(set(all_fields) - stored)))
    return r


def rule_i16(F, FM=None):
    """`use` declarations make items reachable at every path they name: the `library!` macro flattens a `use` tree into one path per
    leaf, and each leaf gets the segments written before ITS group - a shared prefix stack is restored on every path (shared with
    C13.R14; the macro crate's bodies are searched as well)."""
    from . import c13
    r = c13.rule_r14(F, FM)
    r.rule = "C18.I16"
    r.desc = "use trees (library!) and nested import lists: a shared prefix stack is restored on every path"
    for v in r.violations:
        v.rule = "C18.I16"
        v.msg = v.msg.replace("(`import foo.{a.{x, y}, b}` imports `foo.a.b`)", "(`use geo::{metric::km, scale};` registers `geo::metric::scale`)")
    return r


def canary(C):
    from . import c13
    out = c13.canary(C)
    for x in out:
        x["rule"] = "C18.I16"
    return out


def rule_i17(F):
    """A name that is taken is refused - with ONE exception written into `declare_runtime_type`: the runtime registers the
    primitives and `List` itself although the type checker already knows them, so for those kinds the declaration is skipped (only
    the documentation is replaced).  That exception names its kinds: every exit of declare_runtime_type that answers Ok without
    declaring anything sits behind a pattern that lists `TypeDefinition::Primitive` / `TypeDefinition::List` and nothing else.
    Widened to 'anything that is not a runtime type' it also swallows `Option`, `Verdict` and `Result`: registering a Rust type
    under such a name succeeds, the scope keeps the built-in enum and every signature that mentions the Rust type is wrong."""
    r = RuleResult("C18.I17", "declare_runtime_type: the only already-declared names it lets pass are primitives and List, named in the pattern", floor=1)
    ps = [p for p in F.paths() if p.endswith("::declare_runtime_type") and "{closure" not in p]
    if not ps:
        r.missing("TypeChecker::declare_runtime_type")
        return r
    b = F.body(ps[0])
    if b is None or not b.hir:
        r.missing("HIR of declare_runtime_type")
        return r
    ALLOWED = {"Primitive", "List"}
    td = F.adt("typechecker::types::TypeDefinition")
    vnames = [v["name"] for v in td["variants"]] if td else []

    def inserts(path, depth=0):
        hb = F.body(path) if path and F.has(path) else None
        if hb is None or not hb.mir or depth > 2:
            return False
        return any(hir.last(mir.callee(t) or "") in ("insert_type", "insert_declaration") or ((mir.callee(t) or "").startswith("typechecker::") and mir.callee(t) != path and inserts(mir.callee(t), depth + 1))
                   for _, t in mir.calls(hb))

    def kinds_reaching(body, target, depth=0):
        """the TypeDefinition variants with which `target` can be reached, as far as switches on the kind (here or in a predicate
        helper whose answer is tested) say; None = not restricted"""
        defs_ = mir.Defs(body)
        dom_ = mir.dominators(body)
        best = None
        for di in dom_[target]:
            t = body.blocks[di]["term"]
            if t["k"] != "switch" or not mir.is_place_op(t["o"]):
                continue
            for d in defs_.whole_defs(t["o"][1][0]):
                got = None
                if d[2] == "assign" and d[3]["rv"]["k"] == "discr" and "TypeDefinition" in str(d[3]["rv"].get("ty") or ""):
                    got = set()
                    for v, tb in t["targets"]:
                        if target in (mir.reachable_from(body, tb) | {tb}):
                            got.add(vnames[v] if v < len(vnames) else "#%d" % v)
                    ob = t["otherwise"]
                    if target in (mir.reachable_from(body, ob) | {ob}) and not (body.blocks[ob]["term"]["k"] == "unreachable" and not body.blocks[ob]["stmts"]):
                        got.add("(any other kind)")
                elif d[2] == "call" and depth < 2 and (mir.callee(d[3]) or "").startswith("typechecker::") and F.has(mir.callee(d[3])) \
                        and str(F.body(mir.callee(d[3])).mir["locals"][0].get("ty") if F.body(mir.callee(d[3])).mir else "") == "bool":
                    hb = F.body(mir.callee(d[3]))
                    # the edge taken when the predicate says true
                    tg = dict(t["targets"])
                    true_edge = t["otherwise"]
                    if target not in (mir.reachable_from(body, true_edge) | {true_edge}) or (tg.get(0) is not None and target in (mir.reachable_from(body, tg[0]) | {tg[0]})):
                        continue
                    trues = [bi for bi, blk in enumerate(hb.blocks) for st in blk["stmts"]
                             if st["k"] == "assign" and st["p"] == [0] and st["rv"]["k"] == "use" and (mir.op_const(st["rv"]["o"]) or {}).get("v") in (1, True)]
                    got = set()
                    for tb_ in trues:
                        k_ = kinds_reaching(hb, tb_, depth + 1)
                        got |= (k_ if k_ is not None else {"(unrestricted)"})
                    if not trues:
                        got = {"(unrestricted)"}
                if got is not None:
                    best = got if best is None else (best & got)
        return best
    n = 0
    if b.mir:
        defs = mir.Defs(b)
        ins_blocks = {bi for bi, t in mir.calls(b) if hir.last(mir.callee(t) or "") in ("insert_type", "insert_declaration") or inserts(mir.callee(t) or "")}
        oks = [bi for bi, blk in enumerate(b.blocks) for st in blk["stmts"] if st["k"] == "assign" and st["p"] == [0] and st["rv"]["k"] == "agg" and st["rv"].get("variant") == "Ok"]
        # Ok produced by a callee and passed on (`return self.insert_runtime_type(..)`) belongs to that callee
        for ob in oks:
            # reachable from the entry without passing an inserting call?
            seen, work = set(), [0]
            while work:
                x = work.pop()
                if x in seen or x in ins_blocks:
                    continue
                seen.add(x)
                work.extend(mir.succs(b.blocks[x]))
            if ob not in seen:
                continue
            n += 1
            kinds = kinds_reaching(b, ob)
            r.inst("Ok without a declaration #%d" % n, {"line": b.blocks[ob]["term"].get("line"), "kinds_let_through": sorted(kinds) if kinds is not None else None})
            if kinds is None or not kinds <= ALLOWED:
                r.bad(b.path, "already-declared name let through", relfile(b.file), b.blocks[ob]["term"].get("line") or b.line,
                      "declare_runtime_type answers Ok without declaring anything for an existing declaration of kind %s: only primitives and List are registered by the runtime itself - a Rust "
                      "type registered under the name of a built-in enum (`Option`, `Verdict`, `Result`) is accepted, the scope keeps the enum and signatures mentioning the Rust type are wrong"
                      % (sorted(kinds) if kinds is not None else "unrestricted"))
    if n == 0:
        r.missing("the skip of already declared primitives in declare_runtime_type")
    return r


def rules(ctx):
    F = ctx["F"]
    return [rule_i1(F), rule_i2(F), rule_i3(F), rule_i4(F), rule_i5(F), rule_i6(F), rule_i7(F), rule_i8(F), rule_i9(F), rule_i10(F), rule_i11(F), rule_i12(F), rule_i13(F), rule_i14(F), rule_i15(F), rule_i16(F, ctx.get("FM")), rule_i17(F)]
