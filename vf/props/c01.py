"""C01 - compiled scripts compute the language-defined result.
Decided: operator / width / signedness selection tables and operand wiring."""
import re

from .. import hir, mir
from ..facts import relfile
from ..report import RuleResult

EXPLANATION = (
    "Semantic equivalence of generated machine code with the language definition for all programs and inputs is not statically "
    "decidable here and is NOT claimed. Decided are the finite, exhaustive selection tables in which the property's risk lives, each "
    "extracted from the type-resolved HIR (resolved enum variants, guards evaluated symbolically) and compared with a spec table "
    "written from the language reference: T1 (BinOp, signed/unsigned/float) -> lir instruction / IntCmp / FloatCmp -> cranelift "
    "builder method / IntCC / FloatCC; T2 operand order of every non-commutative row (left stays left from mir through lir to the "
    "builder call); T3 width/signedness diagonals literal->IrValue, Primitive->IrType, IrType->cranelift type, IrValue->(type,value), "
    "IrType::bytes; T4 the four places that default an unconstrained literal all say i32 / f64; T5 in the MIR lowerer no lazily lowered "
    "operand value is held un-stored across the visit of another sub-expression (so `x + { x = 10; x }` reads x first)."
)
EXPLANATION += (
    ' T6 the control-flow constants of the lowerer (which switch index means true / Some / continue) and the literal default types by name.'
)
EXPLANATION += (  # round-3 supplement
    ' T7 the default chain of a `match` (variants no arm names) selects arms with the same predicate as the wildcard part of every per-variant chain. T8 every constant answer of the equality lowering depends on `negated`.'
)
ASSUMPTIONS = [
    "cranelift's documented instruction semantics (iadd wraps, sdiv truncates toward zero, IntCC/FloatCC meanings)",
    "control-flow lowering and the rest of code generation are not decided by this check",
]

LIR_LOWER_BINOP = "lir::lower::<impl lir::lower::Lowerer<'_, '_>>::binop"


def find_body(F, suffix, r=None, contains=None):
    ps = [p for p in F.paths() if p.endswith(suffix) and (contains is None or contains in p)]
    if not ps:
        if r is not None:
            r.missing(suffix)
        return None
    return F.body(sorted(ps, key=len)[0])


def guard_truth(ld, g, env):
    """Evaluate a guard under env={'signed': bool}: recognises a local whose
    initialiser is `kind == IntKind::Signed/Unsigned` and direct comparisons."""
    g = hir.peel_refs(g)
    if g.get("k") == "un" and g.get("op") == "!":
        v = guard_truth(ld, g["a"], env)
        return None if v is None else (not v)
    if g.get("k") == "path" and hir.res_local(g) is not None:
        d = ld.get(hir.res_local(g))
        if d and d[1] is not None and d[2] == ():
            return guard_truth(ld, d[1], env)
        return None
    if g.get("k") == "bin" and g.get("op") in ("==", "!="):
        sides = [hir.result_desc(hir.peel_refs(g["a"])), hir.result_desc(hir.peel_refs(g["b"]))]
        val = None
        for s in sides:
            if isinstance(s, str) and s.endswith("IntKind::Signed"):
                val = env["signed"]
            if isinstance(s, str) and s.endswith("IntKind::Unsigned"):
                val = not env["signed"]
        if val is None:
            return None
        return val if g["op"] == "==" else (not val)
    return None


def eval_table(ld, rows, key, env):
    """First row matching `key` whose guard holds. Returns (row, problem)."""
    for row in rows:
        if not any(a == key or a == "_" for a in row["alts"]):
            continue
        if row["guard"] is not None:
            t = guard_truth(ld, row["guard"], env)
            if t is None:
                return None, "guard not understood at line %s" % row["line"]
            if not t:
                continue
        return row, None
    return None, None


OPS = ["Add", "Sub", "Mul", "Div", "Mod", "Eq", "Ne", "Lt", "Le", "Gt", "Ge", "And", "Or"]
CMP = {"Lt": "Lt", "Le": "Le", "Gt": "Gt", "Ge": "Ge"}


def int_cmp_spec(op, signed):
    if op in ("Eq", "Ne"):
        return "IntCmp::" + op
    if op in CMP:
        return "IntCmp::%s%s" % ("S" if signed else "U", op)
    return None


INTCC = {
    "Eq": "Equal", "Ne": "NotEqual",
    "ULt": "UnsignedLessThan", "ULe": "UnsignedLessThanOrEqual", "UGt": "UnsignedGreaterThan", "UGe": "UnsignedGreaterThanOrEqual",
    "SLt": "SignedLessThan", "SLe": "SignedLessThanOrEqual", "SGt": "SignedGreaterThan", "SGe": "SignedGreaterThanOrEqual",
}
FLOATCC = {"Eq": "Equal", "Ne": "NotEqual", "Lt": "LessThan", "Le": "LessThanOrEqual", "Gt": "GreaterThan", "Ge": "GreaterThanOrEqual"}


def result_core(res):
    """'return None' / 'None' -> None; 'IntCmp::SLt' stays."""
    if res is None:
        return None
    if isinstance(res, str):
        x = res.replace("return ", "").strip()
        if x.endswith("::None") or x == "None" or x == "":
            return None
        return x
    return res


def _t1_lir_by_evaluation(F, r, b):
    from .. import sx
    opos = [i for i, p_ in enumerate(b.hir["params"]) if "BinOp" in str(p_.get("ty") or "")]
    if not opos:
        r.missing("the operator parameter of lir::lower::binop")
        return
    opaque = {p for p in F.paths() if p.startswith("lir::lower") and p != b.path and (hir.last(p).startswith("emit") or hir.last(p) in ("new_tmp", "lower_type", "var", "call_eq_of"))}
    spec = {"Add": {("Add", None)}, "Sub": {("Sub", None)}, "Mul": {("Mul", None)}, "Div": {("Div", True), ("Div", False), ("FDiv", None)}, "Mod": {("Mod", True), ("Mod", False)}}
    for op, want in spec.items():
        key = "lir %s (evaluated)" % op
        try:
            ps = sx.Exec(F, opaque=opaque).paths(b.hir, {opos[0]: op})
        except (sx.TooManyPaths, sx.Unknown) as e_:
            r.bad(b.path, key, relfile(b.file), b.line, "cannot evaluate lir::lower::binop on BinOp::%s: %s" % (op, e_))
            continue
        got = set()
        for res, evs in ps:
            if res == ("diverges",):
                continue
            for e in evs:
                for a in (e[3] if e[0] == "mcall" else e[2]):
                    for c in sx.find_ctors(a, "Add") + sx.find_ctors(a, "Sub") + sx.find_ctors(a, "Mul") + sx.find_ctors(a, "Div") + sx.find_ctors(a, "FDiv") + sx.find_ctors(a, "Mod"):
                        if sx.field_of(c, "left") is None:
                            continue
                        sg = sx.field_of(c, "signed")
                        got.add((c[1], sg if isinstance(sg, bool) else None))
        for k_ in ("int", "float"):
            r.inst("lir %s %s" % (k_, op), {"op": op, "emits": sorted(got, key=str)})
        if got != want:
            r.bad(b.path, key, relfile(b.file), b.line, "BinOp::%s lowers to %s, expected %s (instruction, signed flag)" % (op, sorted(got, key=str), sorted(want, key=str)))
    # every `signed:` field of an lir instruction built here or in a helper is `kind == IntKind::Signed`
    for fb in hir.with_callees(F, b, depth=2, same_file=True):
        ld = hir.LocalDefs(fb.hir)
        for st in hir.nodes(fb.hir["value"], "struct"):
            d = hir.res_def({"res": st["path"]}) or ""
            fd = dict((f[0], f[1]) for f in st["fields"])
            if "Instruction::" in d and "signed" in fd:
                for signed in (True, False):
                    if guard_truth(ld, fd["signed"], {"signed": signed}) is not signed:
                        r.bad(fb.path, "%s signed" % hir.tail2(d), relfile(fb.file), st["line"], "`signed` flag of %s is not `kind == IntKind::Signed`" % hir.tail2(d))
                        break


def rule_t1(F):
    r = RuleResult("C01.T1", "operator selection chain (BinOp x kind) -> lir instruction / IntCmp / FloatCmp -> cranelift op / condition code", floor=13 * 2 + 6 + 10 + 6 + 9 + 9)
    # --- binop_to_int_cmp / binop_to_float_cmp / codegen int_cmp / float_cmp: every row is obtained by EVALUATING the function on the
    # enum values (vf/symex, helpers followed), so the way the table is written (guards, tuple match, if-chains, helper) does not matter
    from .. import symex

    def by_type(b, vals):
        out = {}
        for i, p_ in enumerate(b.hir.get("params") or []):
            ty = str(p_.get("ty") or "")
            for frag, v in vals.items():
                if frag in ty:
                    out[i] = v
        return out

    def some_payload(res):
        if isinstance(res, tuple) and res and res[0] == "ctor" and res[1] == "Some" and len(res) == 3:
            return res[2]
        return None

    b = find_body(F, "lir::lower::binop_to_int_cmp", r) or None
    if b is None:
        cands = [x for x in F.all_bodies() if x.hir and x.path.startswith("lir::lower") and "{closure" not in x.path and any("BinOp" in str(p_.get("ty") or "") for p_ in x.hir.get("params") or [])
                 and any("IntKind" in str(p_.get("ty") or "") for p_ in x.hir.get("params") or [])]
        b = cands[0] if cands else None
        if b is not None:
            r.anchor_missing = [m for m in r.anchor_missing if "binop_to_int_cmp" not in m]
    if b:
        for op in OPS:
            for signed in (True, False):
                key = "int_cmp %s %s" % (op, "signed" if signed else "unsigned")
                want = int_cmp_spec(op, signed)
                try:
                    res, _ = symex.run_function(b.hir, by_type(b, {"BinOp": op, "IntKind": "Signed" if signed else "Unsigned"}), F=F)
                    pay = some_payload(res)
                    got = ("IntCmp::" + pay) if isinstance(pay, str) else None
                    prob = None if (pay is not None or res == "None") else "result %r not understood" % (res,)
                except symex.Unknown as e:
                    got, prob = None, "cannot evaluate %s on (%s, %s): %s" % (hir.last(b.path), op, signed, e)
                r.inst(key, {"table": hir.last(b.path), "op": op, "signed": signed, "result": got})
                if prob:
                    r.bad(b.path, key, relfile(b.file), b.line, prob)
                elif got != want:
                    r.bad(b.path, key, relfile(b.file), b.line,
                          "%s on %s integers selects %s, language semantics require %s" % (op, "signed" if signed else "unsigned", got, want))
    b = find_body(F, "lir::lower::binop_to_float_cmp", r)
    if b:
        for op in OPS:
            key = "float_cmp %s" % op
            want = "FloatCmp::" + op if op in FLOATCC else None
            try:
                res, _ = symex.run_function(b.hir, by_type(b, {"BinOp": op}), F=F)
                pay = some_payload(res)
                got = ("FloatCmp::" + pay) if isinstance(pay, str) else None
                prob = None if (pay is not None or res == "None") else "result %r not understood" % (res,)
            except symex.Unknown as e:
                got, prob = None, "cannot evaluate %s on %s: %s" % (hir.last(b.path), op, e)
            r.inst(key, {"table": hir.last(b.path), "op": op, "result": got})
            if prob:
                r.bad(b.path, key, relfile(b.file), b.line, prob)
            elif got != want:
                r.bad(b.path, key, relfile(b.file), b.line, "%s on floats selects %s, expected %s" % (op, got, want))
    # --- codegen: lir IntCmp / FloatCmp -> cranelift condition code.  FuncGen::instruction is EVALUATED (vf/sx: all paths, helpers
    # followed) on `Instruction::IntCmp { cmp: v, .. }` for every v; what is read off is the condition code and the operands that reach
    # icmp / fcmp - whether the table lives in the arm, in a helper such as `int_cmp`, or behind a tuple match
    from .. import sx
    bi = find_body(F, "::instruction", r, contains="codegen::")
    ipos = [i for i, p_ in enumerate(bi.hir.get("params") or []) if "Instruction" in str(p_.get("ty") or "")] if bi else []
    if bi and not ipos:
        r.missing("the lir::Instruction parameter of codegen::instruction")
    for enum, spec, cc, want_m in (("IntCmp", INTCC, "IntCC::", "icmp"), ("FloatCmp", FLOATCC, "FloatCC::", "fcmp")):
        if not ipos:
            continue
        b = bi
        ex = sx.Exec(F)
        seen_cc = {}
        for v, want in spec.items():
            key = "%s::%s" % (enum, v)
            got = None
            order_ok = None
            try:
                val = ("ctor", enum, ("to", sx.Sym("to")), ("left", sx.Sym("left")), ("right", sx.Sym("right")), ("cmp", v))
                ps = ex.paths(b.hir, {ipos[0]: val})
                ev = [e for _, evs in ps for e in evs if e[0] == "mcall" and e[1] in ("icmp", "fcmp", "icmp_imm")]
                ccs = {str(e[3][0]) for e in ev if e[1] == want_m and len(e[3]) == 3 and isinstance(e[3][0], str) and not isinstance(e[3][0], sx.Sym)}
                if ev and all(e[1] == want_m and len(e[3]) == 3 for e in ev) and len(ccs) == 1:
                    got = cc + ccs.pop()
                    order_ok = all(sx.mentions(e[3][1], "left") and not sx.mentions(e[3][1], "right") and sx.mentions(e[3][2], "right") and not sx.mentions(e[3][2], "left") for e in ev)
                prob = None if got else "no single %s(cc, left, right) reached for %s (found %s)" % (want_m, v, [(e[1],) + tuple(sx.short(x, 24) for x in e[3]) for e in ev][:3])
            except (sx.TooManyPaths, sx.Unknown) as e:
                prob = "cannot evaluate %s on %s: %s" % (hir.last(b.path), key, e)
            r.inst(key, {"table": "codegen::instruction on " + enum, "variant": v, "condition_code": got, "operands_in_order": order_ok})
            if prob:
                r.bad(b.path, key, relfile(b.file), b.line, prob)
                continue
            if got != cc + want:
                r.bad(b.path, key, relfile(b.file), b.line, "%s::%s is translated to %s, expected %s%s" % (enum, v, got, cc, want))
            if got in seen_cc:
                r.bad(b.path, key, relfile(b.file), b.line, "condition code %s is used for both %s and %s (not injective)" % (got, seen_cc[got], v))
            seen_cc[got] = v
            if order_ok is False:
                r.bad(b.path, want_m + " operand order", relfile(b.file), b.line, "%s(cc, ..) does not pass (left, right) in order for %s" % (want_m, v))
        r.inst("%s operand order" % want_m, {"checked_per_row": True})
    # --- lir::lower binop arithmetic sections
    b = find_body(F, "::binop", r, contains="lir::lower")
    if b:
        h = b.hir["value"]
        ld = hir.LocalDefs(b.hir)
        sections = {}
        for iff in hir.nodes(h, "if"):
            c = iff["cond"]
            if c.get("k") != "let":
                continue
            pd = hir.pat_desc(c["pat"])
            kind = "int" if "Primitive::Int" in pd else "float" if "Primitive::Float" in pd else "asn" if "Primitive::Asn" in pd else None
            if kind and kind not in sections:
                sections[kind] = iff["then"]
        spec = {
            "int": {"Add": "Instruction::Add", "Sub": "Instruction::Sub", "Mul": "Instruction::Mul", "Div": "Instruction::Div", "Mod": "Instruction::Mod"},
            "float": {"Add": "Instruction::Add", "Sub": "Instruction::Sub", "Mul": "Instruction::Mul", "Div": "Instruction::FDiv"},
        }
        if "int" not in sections or "float" not in sections:
            # the dispatch is written another way (a classification into a private enum and one match, helpers per group ..): the
            # method is EVALUATED for each arithmetic operator (vf/sx: all paths, IntKind enumerated) and the set of instructions it
            # can emit is compared with the language's table; every `signed:` field written in the method or its helpers must be
            # `kind == IntKind::Signed`
            _t1_lir_by_evaluation(F, r, b)
            sections = {}
        for kind in ("int", "float") if sections else ():
            if kind not in sections:
                r.missing("`if let Primitive::%s` section in lir::lower::binop" % kind.capitalize())
                continue
            ms = hir.find_match_on(sections[kind], "BinOp::")
            if not ms:
                r.missing("arithmetic match in the %s section of lir::lower::binop" % kind)
                continue
            rows = hir.table(ms[0])
            for op in ("Add", "Sub", "Mul", "Div", "Mod"):
                row, _ = eval_table(ld, rows, "BinOp::" + op, {"signed": True})
                got = None
                st = None
                if row:
                    sts = [s for s in hir.nodes(row["body"], "struct")]
                    if sts and "_" not in row["alts"]:
                        st = sts[0]
                        got = hir.tail2(hir.res_def({"res": st["path"]}) or "")
                want = spec[kind].get(op)
                key = "lir %s %s" % (kind, op)
                r.inst(key, {"section": kind, "op": op, "instruction": got})
                if got != want:
                    r.bad(b.path, key, relfile(b.file), row["line"] if row else b.line, "%s %s lowers to %s, expected %s" % (kind, op, got, want))
                    continue
                if st is not None:
                    fd = dict((f[0], f[1]) for f in st["fields"])
                    if "signed" in fd:
                        for signed in (True, False):
                            t = guard_truth(ld, fd["signed"], {"signed": signed})
                            if t is not signed:
                                r.bad(b.path, key + " signed", relfile(b.file), st["line"], "`signed` flag of %s is not `kind == IntKind::Signed`" % got)
                                break
        # comparisons must be tried with the operand's own kind
        for kind in ("int", "asn"):
            if kind not in sections:
                continue
            for c in hir.nodes(sections[kind], "call"):
                if (hir.call_def(c) or "").endswith("binop_to_int_cmp"):
                    a = hir.peel_refs(c["args"][1])
                    d = hir.result_desc(a)
                    key = "lir %s comparison kind" % kind
                    r.inst(key, {"section": kind, "kind_argument": d})
                    if kind == "asn" and not (isinstance(d, str) and d.endswith("IntKind::Unsigned")):
                        r.bad(b.path, key, relfile(b.file), c["line"], "Asn comparisons must be unsigned, got %s" % d)
                    if kind == "int":
                        l = hir.res_local(a)
                        rp = ld.root_pat(l) if l is not None else None
                        if rp is None or "Primitive::Int" not in hir.pat_desc(rp):
                            r.bad(b.path, key, relfile(b.file), c["line"], "integer comparisons must use the operand type's own IntKind")
    return r


def roots(ld, e, depth=0):
    """Names of root locals (params / pattern bindings without initialiser)
    an expression depends on."""
    out = set()
    if depth > 25 or not isinstance(e, (dict, list)):
        return out
    for n in hir.walk(e):
        if n.get("k") == "path" and hir.res_local(n) is not None:
            l = hir.res_local(n)
            d = ld.get(l) if ld else None
            if d is None or d[1] is None or (d[2] and d[2][0] == "arm"):
                out.add(n["res"]["name"])
            else:
                out |= roots(ld, d[1], depth + 1)
        if n.get("k") == "closure":
            pass
    return out


def field_roots(ld, e, depth=0):
    """Like roots(), but a root bound inside a struct pattern is named by the FIELD it binds
    (`Instruction::Sub { left: l, .. }` -> 'left') and a function parameter by its position ('param#k').
    Renaming locals therefore does not change the result."""
    out = set()
    if depth > 25 or not isinstance(e, (dict, list)):
        return out
    for n in hir.walk(e):
        if n.get("k") == "path" and hir.res_local(n) is not None:
            l = hir.res_local(n)
            d = ld.get(l) if ld else None
            if d is None:
                out.add(n["res"]["name"])
            elif d[1] is None or (d[2] and d[2][0] == "arm"):
                path = d[2]
                if path and path[0] == "param":
                    out.add("param#%s" % "/".join(str(x) for x in path[1:]) if len(path) > 1 else "param:" + n["res"]["name"])
                    out.discard("param:" + n["res"]["name"])
                    out.add(n["res"]["name"] if n["res"]["name"] == "self" else "param:" + n["res"]["name"])
                elif path and isinstance(path[-1], str) and path[-1] != "arm":
                    out.add(path[-1])
                else:
                    out.add(n["res"]["name"])
            else:
                out |= field_roots(ld, d[1], depth + 1)
    return out


BUILDER_OPS = {
    "Instruction::Add": ({"iadd"}, {"fadd"}),
    "Instruction::Sub": ({"isub"}, {"fsub"}),
    "Instruction::Mul": ({"imul"}, {"fmul"}),
    "Instruction::Div": ({"sdiv", "udiv"}, set()),
    "Instruction::FDiv": (set(), {"fdiv"}),
    "Instruction::Mod": ({"srem", "urem"}, set()),
}
ALL_ARITH = {"iadd", "fadd", "isub", "fsub", "imul", "fmul", "sdiv", "udiv", "fdiv", "srem", "urem", "ineg", "fneg",
             "band", "bor", "bxor", "ishl", "ushr", "sshr", "smulhi", "umulhi"}


def rule_t2(F):
    r = RuleResult("C01.T2", "operand order: left/right of every arithmetic and comparison row stay left/right down to the cranelift builder call", floor=11 + 8)
    # codegen arms: FuncGen::instruction is EVALUATED on each instruction (vf/sx: all paths, helpers followed); what is read off is
    # which cranelift builder methods it reaches and with which operands - however the arm is written
    from .. import sx
    b = find_body(F, "::instruction", r, contains="codegen::")
    if b:
        ipos = [i for i, p_ in enumerate(b.hir.get("params") or []) if "Instruction" in str(p_.get("ty") or "")]
        if not ipos:
            r.missing("the lir::Instruction parameter of codegen::instruction")
        else:
            ex = sx.Exec(F)

            def run(name, **fields):
                val = ("ctor", name, ("to", sx.Sym("to")), ("left", sx.Sym("left")), ("right", sx.Sym("right")), ("val", sx.Sym("val")), ("from", sx.Sym("from"))) + tuple(fields.items())
                return ex.paths(b.hir, {ipos[0]: val})

            def builder_calls(paths, names):
                out = []
                for _, evs in paths:
                    for e in evs:
                        if e[0] == "mcall" and e[1] in names:
                            out.append(e)
                return out

            def order_ok(e, first=0):
                a = e[3]
                return len(a) >= first + 2 and sx.mentions(a[first], "left") and not sx.mentions(a[first], "right") and sx.mentions(a[first + 1], "right") and not sx.mentions(a[first + 1], "left")

            cases = [("Add", {}, {"iadd", "fadd"}), ("Sub", {}, {"isub", "fsub"}), ("Mul", {}, {"imul", "fmul"}), ("FDiv", {}, {"fdiv"}),
                     ("Div", {"signed": True}, {"sdiv"}), ("Div", {"signed": False}, {"udiv"}), ("Mod", {"signed": True}, {"srem"}), ("Mod", {"signed": False}, {"urem"})]
            for name, fields, want in cases:
                key = "Instruction::%s%s" % (name, "" if not fields else " signed=%s" % fields["signed"])
                try:
                    ps = run(name, **fields)
                except (sx.TooManyPaths, sx.Unknown) as e_:
                    r.bad(b.path, key, relfile(b.file), b.line, "cannot evaluate codegen::instruction on %s: %s" % (key, e_))
                    continue
                evs = builder_calls(ps, ALL_ARITH)
                got = {e[1] for e in evs}
                r.inst("codegen %s" % key, {"instruction": key, "builder_ops": sorted(got), "paths": len(ps)})
                if got != want:
                    r.bad(b.path, key, relfile(b.file), b.line, "%s emits %s, expected %s" % (key, sorted(got), sorted(want)))
                for e in evs:
                    if not order_ok(e):
                        r.bad(b.path, "Instruction::%s %s operand order" % (name, e[1]), relfile(b.file), b.line,
                              "%s(%s) does not pass (left, right) in order" % (e[1], ", ".join(sx.short(x, 40) for x in e[3])))
            # the float / integer split of Add, Sub, Mul is made on the operand type: an `if let` on F32 | F64 where the arm is found inline
            ms = hir.find_match_on(b.hir["value"], "Instruction::", min_arms=10)
            rows = hir.table(ms[0]) if ms else []
            for name, (iops, fops) in BUILDER_OPS.items():
                if not (iops and fops):
                    continue
                for rw in rows:
                    if not any(a.startswith(name + "{") or a == name for a in rw["alts"]):
                        continue
                    for iff in hir.nodes(rw["body"], "if"):
                        c = iff["cond"]
                        if c.get("k") == "let":
                            pd = hir.pat_desc(c["pat"])
                            then_ops = {x["m"] for x in hir.nodes(iff["then"], "mcall") if x["m"] in ALL_ARITH}
                            else_ops = {x["m"] for x in hir.nodes(iff.get("else") or {}, "mcall") if x["m"] in ALL_ARITH}
                            if not then_ops and not else_ops:
                                continue
                            isf = "F32" in pd and "F64" in pd
                            r.inst("codegen %s float/int split" % name)
                            if isf and (then_ops != fops or else_ops != iops):
                                r.bad(b.path, name + " float/int split", relfile(b.file), iff["line"], "float test selects %s, integer path %s" % (sorted(then_ops), sorted(else_ops)))
                            if not isf:
                                r.bad(b.path, name + " float/int split", relfile(b.file), iff["line"], "float/int selection does not test F32 | F64 (pattern %s)" % pd)
            # IntCmp / FloatCmp: the comparison reaches icmp / fcmp with (cc, left, right)
            for name, m_, cmpv in (("IntCmp", "icmp", "SLt"), ("FloatCmp", "fcmp", "Lt")):
                key = "Instruction::%s" % name
                try:
                    ps = run(name, cmp=cmpv)
                except (sx.TooManyPaths, sx.Unknown) as e_:
                    r.bad(b.path, key, relfile(b.file), b.line, "cannot evaluate codegen::instruction on %s: %s" % (key, e_))
                    continue
                evs = builder_calls(ps, {m_})
                r.inst("codegen %s" % key, {"calls": len(evs)})
                if not evs:
                    r.bad(b.path, key, relfile(b.file), b.line, "%s does not reach %s" % (key, m_))
                for e in evs:
                    if not order_ok(e, first=1):
                        r.bad(b.path, key + " operand order", relfile(b.file), b.line, "%s(%s): expected (cc, left, right)" % (m_, ", ".join(sx.short(x, 40) for x in e[3])))
            # Not / Negate
            try:
                ps = run("Not")
                evs = builder_calls(ps, {"icmp_imm", "bnot", "bxor_imm", "icmp"})
                r.inst("codegen Instruction::Not")
                ok = bool(evs) and all(e[1] == "icmp_imm" and len(e[3]) == 3 and e[3][0] == "Equal" and e[3][2] == 0 and (sx.mentions(e[3][1], "val") or sx.mentions(e[3][1], "from")) for e in evs)
                if not ok:
                    r.bad(b.path, "Instruction::Not", relfile(b.file), b.line, "boolean not is expected to be icmp_imm(Equal, val, 0); found %s" % [(e[1],) + tuple(sx.short(x, 24) for x in e[3]) for e in evs][:3])
                ps = run("Negate")
                got = {e[1] for e in builder_calls(ps, ALL_ARITH)}
                r.inst("codegen Instruction::Negate")
                if got != {"ineg", "fneg"}:
                    r.bad(b.path, "Instruction::Negate", relfile(b.file), b.line, "negation emits %s, expected ineg/fneg" % sorted(got))
            except (sx.TooManyPaths, sx.Unknown) as e_:
                r.bad(b.path, "Instruction::Not/Negate", relfile(b.file), b.line, "cannot evaluate codegen::instruction: %s" % e_)
    # lir constructors: left: <- left param, right: <- right param
    OPERAND_TYS = ("mir::Var", "lir::Operand", "lir::Var")
    todo = []
    for suffix, contains in (("::binop", "lir::lower"), ("::call_eq_of", "lir::lower")):
        b = find_body(F, suffix, r, contains=contains)
        if not b:
            continue
        todo.append((b, True))
        # private helpers of the lowering that are handed both operands (`self.int_binop(op, left, right, ..)`): wired the same way,
        # and the call hands the operands on in order
        ld0 = hir.LocalDefs(b.hir)
        ops0 = [p.get("name") for p in b.hir["params"] if p.get("ty") in OPERAND_TYS]
        for hb in hir.with_callees(F, b, depth=2, same_file=True):
            if hb is b or not hb.hir or hir.last(hb.path) in ("binop", "call_eq_of"):
                continue
            hops = [i for i, p in enumerate(hb.hir["params"]) if p.get("ty") in OPERAND_TYS]
            if len(hops) != 2 or not any("Instruction::" in (hir.res_def({"res": st["path"]}) or "") for st in hir.nodes(hb.hir["value"], "struct")):
                continue
            todo.append((hb, False))
            if len(ops0) == 2:
                for c in list(hir.nodes(b.hir["value"], "mcall")) + list(hir.nodes(b.hir["value"], "call")):
                    d_ = c.get("def") if c.get("k") == "mcall" else hir.call_def(c)
                    if d_ != hb.path:
                        continue
                    args = ([c["recv"]] + list(c["args"])) if c.get("k") == "mcall" else list(c["args"])
                    if len(args) <= max(hops):
                        continue
                    lr = {"left" if x == ops0[0] else "right" if x == ops0[1] else x for x in roots(ld0, args[hops[0]]) - {"self"}}
                    rr = {"left" if x == ops0[0] else "right" if x == ops0[1] else x for x in roots(ld0, args[hops[1]]) - {"self"}}
                    r.inst("%s -> %s|%d" % (hir.last(b.path), hir.last(hb.path), len(r.instances)), {"call": hb.path, "left_from": sorted(lr), "right_from": sorted(rr)})
                    if "right" in lr or "left" in rr:
                        r.bad(b.path, "%s operand order" % hir.last(hb.path), relfile(b.file), c.get("line") or b.line,
                              "%s hands its operands to %s in the wrong order (left <- %s, right <- %s)" % (hir.last(b.path), hir.last(hb.path), sorted(lr), sorted(rr)))
    for b, top in todo:
        ld = hir.LocalDefs(b.hir)
        # the two operand parameters, by type and position (names do not matter)
        ops = [p.get("name") for p in b.hir["params"] if p.get("ty") in OPERAND_TYS]
        if len(ops) != 2:
            if top:
                r.missing("two operand parameters of %s" % b.path)
            continue
        for st in hir.nodes(b.hir["value"], "struct"):
            d = hir.res_def({"res": st["path"]}) or ""
            if "Instruction::" not in d:
                continue
            fd = dict((f[0], f[1]) for f in st["fields"])
            if "left" in fd and "right" in fd:
                lr = {"left" if x == ops[0] else "right" if x == ops[1] else x for x in roots(ld, fd["left"]) - {"self"}}
                rr = {"left" if x == ops[0] else "right" if x == ops[1] else x for x in roots(ld, fd["right"]) - {"self"}}
                key = "%s %s line-independent" % (hir.last(b.path), hir.tail2(d))
                r.inst("%s|%s|%d" % (b.path, hir.tail2(d), len(r.instances)), {"fn": b.path, "instruction": hir.tail2(d), "left_from": sorted(lr), "right_from": sorted(rr)})
                if lr != {"left"} or rr != {"right"}:
                    r.bad(b.path, "%s operand order" % hir.tail2(d), relfile(b.file), st["line"],
                          "%s { left: <- %s, right: <- %s }: operands are not wired left->left, right->right" % (hir.tail2(d), sorted(lr), sorted(rr)))
    return r


def bits_of(name):
    n = hir.last(name)
    m = re.search(r"(\d+)$", n)
    if m:
        return int(m.group(1))
    return {"Bool": 8, "Asn": 32, "Char": 32}.get(n)


def rule_t3(F):
    r = RuleResult("C01.T3", "width/signedness diagonals: literal->IrValue, Primitive->IrType, IrType->cranelift type, IrValue->(type,value), IrType::bytes", floor=8 + 13 + 13 + 12 + 13)
    # literal: (IntKind, IntSize) -> IrValue
    b = find_body(F, "::literal", r, contains="lir::lower")
    if b:
        done = 0
        for m in hir.nodes(b.hir["value"], "match"):
            for row in hir.table(m):
                for a in row["alts"]:
                    mm = re.match(r"^\(IntKind::(Signed|Unsigned),IntSize::I(\d+)\)$", a)
                    if mm:
                        want = "IrValue::%s%s(..)" % ("I" if mm.group(1) == "Signed" else "U", mm.group(2))
                        done += 1
                        r.inst("literal %s" % a, {"pattern": a, "value": row["result"]})
                        if row["result"] != want:
                            r.bad(b.path, "literal " + a, relfile(b.file), row["line"], "integer literal of kind %s becomes %s, expected %s" % (a, row["result"], want))
                    mm = re.match(r"^(Primitive::Float\()?FloatSize::F(\d+)\)?$", a)
                    if mm and isinstance(row["result"], str) and "IrValue" in row["result"]:
                        want = "IrValue::F%s(..)" % mm.group(2)
                        done += 1
                        r.inst("literal %s" % a, {"pattern": a, "value": row["result"]})
                        if row["result"] != want:
                            r.bad(b.path, "literal " + a, relfile(b.file), row["line"], "float literal of size %s becomes %s" % (a, row["result"]))
        if done < 8:
            r.missing("integer literal table in lir::lower::literal (found %d rows)" % done)
    # lower_type: Primitive -> IrType
    b = find_body(F, "::lower_type", r, contains="lir::lower")
    if b:
        for m in hir.find_match_on(b.hir["value"], "Primitive::", min_arms=5):
            for row in hir.table(m):
                for a in row["alts"]:
                    want = None
                    mm = re.match(r"^Primitive::Int\(IntKind::(Signed|Unsigned),IntSize::I(\d+)\)$", a)
                    if mm:
                        want = "IrType::%s%s" % ("I" if mm.group(1) == "Signed" else "U", mm.group(2))
                    mm = re.match(r"^Primitive::Float\(FloatSize::F(\d+)\)$", a)
                    if mm:
                        want = "IrType::F" + mm.group(1)
                    if a == "Primitive::Bool":
                        want = "IrType::Bool"
                    if a in ("Primitive::Asn", "Primitive::Char"):
                        want = ("IrType::U32", "IrType::" + a.split("::")[1])
                    if want is None:
                        continue
                    r.inst("lower_type %s" % a, {"primitive": a, "ir_type": row["result"]})
                    ok = row["result"] in want if isinstance(want, tuple) else row["result"] == want
                    if not ok:
                        r.bad(b.path, "lower_type " + a, relfile(b.file), row["line"], "%s lowers to %s, expected %s" % (a, row["result"], want))
    # cranelift_type: IrType -> type
    b = find_body(F, "::cranelift_type", r, contains="codegen::")
    ct = {}
    if b:
        for m in hir.find_match_on(b.hir["value"], "IrType::", min_arms=4):
            for row in hir.table(m):
                for a in row["alts"]:
                    if not a.startswith("IrType::") or a == "IrType::Pointer":
                        continue
                    res = row["result"]
                    r.inst("cranelift_type %s" % a, {"ir_type": a, "cranelift": res})
                    bw = bits_of(a)
                    isf = hir.last(a).startswith("F")
                    want = "types::%s%d" % ("F" if isf else "I", bw)
                    ct[a] = res
                    if res != want:
                        r.bad(b.path, "cranelift_type " + a, relfile(b.file), row["line"], "%s is given machine type %s, expected %s" % (a, res, want))
    # integer_operand: IrValue -> (type, value)
    b = find_body(F, "::integer_operand", r, contains="codegen::")
    if b:
        for m in hir.find_match_on(b.hir["value"], "IrValue::", min_arms=4):
            for row in hir.table(m):
                for a in row["alts"]:
                    mm = re.match(r"^IrValue::(\w+)\(", a)
                    if not mm or mm.group(1) == "Pointer":
                        continue
                    v = mm.group(1)
                    body = hir.strip(row["body"])
                    ty = hir.short_result(body["elems"][0]) if body.get("k") == "tup" else None
                    r.inst("integer_operand %s" % v, {"value": v, "machine_type": ty})
                    want = "types::I%d" % bits_of(v)
                    if ty != want:
                        r.bad(b.path, "integer_operand " + v, relfile(b.file), row["line"], "constant IrValue::%s is emitted with type %s, expected %s" % (v, ty, want))
    # float_operand
    b = find_body(F, "::float_operand", r, contains="codegen::")
    if b:
        for m in hir.find_match_on(b.hir["value"], "IrValue::", min_arms=2):
            for row in hir.table(m):
                for a in row["alts"]:
                    mm = re.match(r"^IrValue::(F\d+)\(", a)
                    if not mm:
                        continue
                    body = hir.strip(row["body"])
                    ty = hir.short_result(body["elems"][0]) if body.get("k") == "tup" else None
                    r.inst("float_operand %s" % mm.group(1))
                    if ty != "types::" + mm.group(1):
                        r.bad(b.path, "float_operand " + mm.group(1), relfile(b.file), row["line"], "constant IrValue::%s is emitted with type %s" % (mm.group(1), ty))
    # IrType::bytes
    b = find_body(F, "IrType::bytes", r)
    if b:
        for m in hir.find_match_on(b.hir["value"], "IrType::", min_arms=3):
            for row in hir.table(m):
                for a in row["alts"]:
                    if not a.startswith("IrType::") or a == "IrType::Pointer":
                        continue
                    body = hir.strip(row["body"])
                    val = body.get("v") if body.get("k") == "lit" else None
                    r.inst("bytes %s" % a, {"ir_type": a, "bytes": val})
                    if val is None or val * 8 != bits_of(a):
                        r.bad(b.path, "bytes " + a, relfile(b.file), row["line"], "%s has %s bytes, expected %d" % (a, val, bits_of(a) // 8))
    return r


WIDTH_TOKENS = re.compile(r"\b([iuf](8|16|32|64))\b", re.I)


def width_tokens(node):
    """Set of numeric type names a piece of code mentions through resolved
    paths (TyRef::I32, Type::i32, IntSize::I32 + IntKind::Signed) or string
    literals ("i32")."""
    out = set()
    kinds = set()
    sizes = set()
    for n in hir.walk(node):
        k = n.get("k")
        if k == "lit" and n.get("lk") == "str" and WIDTH_TOKENS.fullmatch(n.get("v") or ""):
            out.add(n["v"].lower())
        d = None
        if k == "path":
            d = hir.res_def(n)
        elif k in ("call", "mcall"):
            d = hir.call_def(n)
        if d:
            last = hir.last(d)
            t2 = hir.tail2(d)
            if t2.startswith("TyRef::") or t2.startswith("Type::"):
                if WIDTH_TOKENS.fullmatch(last):
                    out.add(last.lower())
            if t2.startswith("IntKind::"):
                kinds.add(last)
            if t2.startswith("IntSize::"):
                sizes.add(last)
            if t2.startswith("FloatSize::"):
                out.add(last.lower())
    for kd in kinds:
        for s in sizes:
            out.add(("i" if kd == "Signed" else "u") + s[1:])
    return out


def rule_t4(F):
    r = RuleResult("C01.T4", "every place that defaults an unconstrained literal says i32 (integers) / f64 (floats)", floor=7)
    sites = [
        ("typechecker::info::TypeInfo::convert", None),
        ("typechecker::info::TypeInfo::get_int_type", None),
        ("codegen::check::check_roto_type", None),
    ]
    paths = [p for p, _ in sites]
    paths += [p for p in F.paths() if p.endswith("::resolve_obligations")]
    # the signature gate may keep its defaults in a private helper of its module: the module is the site
    gate_helpers = [bb.path for bb in F.bodies_in(["src/codegen/check.rs"]) if bb.hir and bb.path not in paths and "{closure" not in bb.path and "::tests::" not in bb.path]
    gate_found = {"n": 0}
    for p in paths + gate_helpers:
        b = F.body(p)
        if b is None:
            r.missing(p)
            continue
        found = 0
        conds = []
        for m in hir.nodes(b.hir["value"], "match"):
            for arm in m["arms"]:
                conds.append((hir.pat_alternatives(arm["pat"]), arm["body"], arm["line"]))
        for iff in hir.nodes(b.hir["value"], "if"):
            if iff["cond"].get("k") == "let":
                conds.append((hir.pat_alternatives(iff["cond"]["pat"]), iff["then"], iff["line"]))
        for alts, body, line in conds:
            for var, want in (("Type::IntVar", "i32"), ("Type::FloatVar", "f64")):
                if len(alts) == 1 and alts[0].startswith(var + "("):
                    toks = width_tokens(body)
                    if not toks:
                        continue
                    found += 1
                    r.inst("%s|%s" % (p, var), {"fn": p, "literal_kind": var, "default": sorted(toks)})
                    if toks != {want}:
                        r.bad(p, var, relfile(b.file), line, "an unconstrained %s defaults to %s here, the language says %s" % (var, sorted(toks), want))
        if b.file.endswith("src/codegen/check.rs"):
            gate_found["n"] += found
            continue
        if found == 0:
            r.bad(p, "default", relfile(b.file), b.line, "no literal-default arm found in %s" % p)
    if gate_found["n"] == 0:
        gb = F.body("codegen::check::check_roto_type")
        r.bad("codegen::check::check_roto_type", "default", relfile(gb.file) if gb else "src/codegen/check.rs", gb.line if gb else 0, "no literal-default arm found in codegen::check::check_roto_type")
    return r


def int_lits(e):
    return [n.get("v") for n in hir.walk(e) if n.get("k") == "lit" and n.get("lk") == "int"]


def rule_t6(F):
    """Control-flow constants: the value a condition is switched on and the branch it selects."""
    r = RuleResult("C01.T6", "control-flow lowering constants: `true` (1) selects then / loop body / the && continuation, || continues on 0; primitive name table", floor=4 + 16)
    L = "mir::lower::Lowerer::<'r>::"
    spec = {"if_else": ("then block", 1), "r#while": ("loop body", 1)}
    for fn, (what, val) in spec.items():
        b = F.body(L + fn)
        if b is None:
            r.missing(L + fn)
            continue
        ld = hir.LocalDefs(b.hir)
        # the label of the block in which the first Block child (then branch / loop body) is lowered: the argument of the last
        # new_block(..) before the visit of that child - found by walking the statements in order, not by its name
        bpos = [i for i, p_ in enumerate(b.hir["params"]) if "Meta<ast::Block>" in (p_.get("ty") or "") and "Option<" not in (p_.get("ty") or "")]
        bl = b.hir["params"][bpos[0]].get("local") if bpos else None
        target = None
        last_nb = None
        for n in hir.walk(b.hir["value"]):
            if n.get("k") != "mcall":
                continue
            if n["m"] == "new_block" and n["args"]:
                last_nb = hir.res_local(hir.peel_refs(hir.strip(n["args"][0])))
            if n["m"] == "block" and n["args"] and hir.res_local(hir.peel_refs(hir.strip(n["args"][0]))) == bl and target is None:
                target = last_nb
        ok = False
        found = None
        for c in hir.nodes(b.hir["value"], "mcall"):
            if c["m"] != "emit_switch":
                continue
            br = c["args"][1]
            l = hir.res_local(hir.peel_refs(br))
            if l is not None and ld.get(l) and ld.get(l)[1] is not None:
                br = ld.get(l)[1]
            lits = int_lits(br)
            locs = {hir.res_local(n) for n in hir.walk(br) if n.get("k") == "path" and hir.res_local(n) is not None}
            found = (lits, target in locs)
            ok = lits == [val] and target is not None and target in locs
        r.inst("%s switch" % fn, {"fn": fn, "branch_values": found[0] if found else None, "selects_the_%s" % what.replace(" ", "_"): found[1] if found else None})
        if not ok:
            r.bad(L + fn, "switch constant", relfile(b.file), b.line, "%s must branch to the %s when the condition is %d (true); found values %s, selects that block: %s" % (fn, what, val, found[0] if found else None, found[1] if found else None))
    # && / ||: the method that lowers the operator is evaluated (vf/sx, helpers followed): on every path the left operand is lowered
    # first, then a Switch on its value is emitted whose only branch constant is 1 for && (0 for ||), and the right operand is lowered
    # after that switch
    from .. import sx
    # the method that lowers a binary operator: takes the operator and two expressions and is not itself called by another such method
    def _is_binop_lowering(x):
        ps_ = x.hir.get("params") or []
        return (x.path.startswith("mir::lower::Lowerer") and "{closure" not in x.path and any("ast::BinOp" in str(p_.get("ty") or "") for p_ in ps_)
                and len([p_ for p_ in ps_ if "Meta<ast::Expr>" in str(p_.get("ty") or "")]) >= 2)
    cands = [x for x in F.all_bodies() if x.hir and _is_binop_lowering(x)]
    called = {hir.call_def(c) or c.get("def") for x in cands for c in list(hir.nodes(x.hir["value"], "call")) + list(hir.nodes(x.hir["value"], "mcall"))}
    roots_ = [x for x in cands if x.path not in called]
    if len(roots_) != 1:
        r.missing("the Lowerer method that lowers a binary operator (operator + two expressions); candidates: %s" % sorted(x.path for x in roots_))
    for fn, want in (("And", 1), ("Or", 0)) if len(roots_) == 1 else ():
        b = roots_[0]
        epos = [i for i, p_ in enumerate(b.hir["params"]) if "Meta<ast::Expr>" in (p_.get("ty") or "")]
        opos = [i for i, p_ in enumerate(b.hir["params"]) if "ast::BinOp" in (p_.get("ty") or "")]
        names_ = [b.hir["params"][i].get("name") for i in epos[:2]]
        got = None
        try:
            ps = sx.Exec(F).paths(b.hir, {opos[0]: fn})
        except (sx.TooManyPaths, sx.Unknown) as e_:
            r.bad(b.path, "short-circuit constant " + fn, relfile(b.file), b.line, "cannot evaluate %s on BinOp::%s: %s" % (hir.last(b.path), fn, e_))
            continue
        # paths on which the operator is refused for the operand type (`ice!` for a String / IpAddr / List operand) lower nothing
        ps = [(res, evs) for res, evs in ps if res != ("diverges",)]
        consts, order_bad = set(), False
        for _, evs in ps:
            sw = [(i, c) for i, e in enumerate(evs) for a in (e[3] if e[0] == "mcall" else e[2]) for c in sx.find_ctors(a, "Switch")]
            vis = [(i, e) for i, e in enumerate(evs) if e[0] == "mcall" and e[1] == "expr" and len(e[3]) == 1 and isinstance(e[3][0], sx.Sym)]
            li = [i for i, e in vis if str(e[3][0]) == names_[0]]
            ri = [i for i, e in vis if str(e[3][0]) == names_[1]]
            for i, c in sw:
                consts.add(tuple(sx.ints_in(sx.field_of(c, "branches"))))
            if not sw or not li or not ri or not (li[0] < sw[0][0] < ri[0]):
                order_bad = True
        got = sorted(consts)
        r.inst("BinOp::%s evaluates the right operand when the left is" % fn, {"value": got, "paths": len(ps), "fn": b.path})
        if order_bad or not ps:
            r.bad(b.path, "operands of " + fn, relfile(b.file), b.line, "BinOp::%s: the lowering does not lower its first operand, then switch on it, then lower its second operand (on some path)" % fn)
        if got != [(want,)]:
            r.bad(b.path, "short-circuit constant " + fn, relfile(b.file), b.line, "%s must evaluate its right operand exactly when the left one is %d; found branch constants %s" % ("&&" if want else "||", want, got))
    # primitive name table of the type checker: name <-> Primitive
    ps = [p for p in F.paths() if p.endswith("typechecker::types::default_types")]
    if not ps:
        r.missing("typechecker::types::default_types")
    else:
        b = F.body(ps[0])
        n = 0
        for t in hir.nodes(b.hir["value"], "tup"):
            if len(t["elems"]) != 2:
                continue
            nm = hir.strip(t["elems"][0])
            if nm.get("k") != "lit" or nm.get("lk") != "str":
                continue
            pr = hir.strip(t["elems"][1])
            d = None
            if pr.get("k") == "call":
                d = hir.last(hir.call_def(pr) or "") + "(" + ",".join(hir.last(str(hir.result_desc(a))) for a in pr["args"]) + ")"
            elif pr.get("k") == "path" and "Primitive::" in (hir.res_def(pr) or ""):
                d = hir.last(hir.res_def(pr))
            if d is None:
                continue
            name = nm["v"]
            m = re.match(r"^([iuf])(\d+)$", name)
            if m:
                want = "Float(F%s)" % m.group(2) if m.group(1) == "f" else "Int(%s,I%s)" % ("Signed" if m.group(1) == "i" else "Unsigned", m.group(2))
            else:
                want = {"bool": "Bool", "char": "Char", "String": "String", "Asn": "Asn", "IpAddr": "IpAddr", "Prefix": "Prefix"}.get(name)
            if want is None:
                continue
            n += 1
            r.inst("type name %s" % name, {"name": name, "primitive": d})
            if d != want:
                r.bad(b.path, "type name " + name, relfile(b.file), t["line"], "the type named `%s` is defined as Primitive::%s, expected %s" % (name, d, want))
        if n < 16:
            r.missing("16 primitive rows in default_types (found %d)" % n)
    return r


def rule_t5(F):
    """Operand evaluation: the left operand's value is fixed before the right operand runs (shared with C08.O4)."""
    from . import c08
    r = c08.rule_o4(F)
    r.rule = "C01.T5"
    r.desc = "operands are stored in visit order: no lazily lowered value is read after a later sub-expression ran"
    for v in r.violations:
        v.rule = "C01.T5"
    return r


def _shape(e, params, depth=0):
    """Structure of an expression with closure parameters replaced by their position in the parameter pattern and every other
    local by its type (so that names do not matter)."""
    e = hir.strip(e)
    k = e.get("k")
    if k == "path":
        l = hir.res_local(e)
        if l is not None:
            return ("param", params[l]) if l in params else ("captured", e.get("ty"))
        return ("def", hir.last(hir.res_def(e) or ""))
    if k == "bin":
        return ("bin", e.get("op"), _shape(e["a"], params), _shape(e["b"], params))
    if k == "un":
        return ("un", e.get("op"), _shape(e["a"], params))
    if k == "mcall":
        return ("mcall", e["m"], _shape(e["recv"], params), tuple(_shape(a, params) for a in e["args"]))
    if k == "call":
        return ("call", _shape(e["f"], params), tuple(_shape(a, params) for a in e["args"]))
    if k == "field":
        return ("field", e.get("n"), _shape(e["e"], params))
    if k == "ref":
        return _shape(e["e"], params)
    if k == "lit":
        return ("lit", e.get("v"))
    return (k,)


def _mentions_captured(sh):
    if isinstance(sh, tuple):
        if sh and sh[0] == "captured":
            return True
        return any(_mentions_captured(x) for x in sh)
    return False


UNK = ("?",)


def _pred_eval(sh, d, sel):
    """Value of a filter predicate (shape from _shape) for an arm whose discriminant is `d`, with a captured usize standing for the
    chain's own variant 'k' and a captured Option<usize> standing for the selector `sel` of a shared helper.  Values: True/False,
    'k', 'other', ('none',), ('some', v), UNK."""
    if not isinstance(sh, tuple) or not sh:
        return UNK
    k = sh[0]
    if k == "lit":
        return sh[1]
    if k == "param":
        return d if sh[1] and sh[1][-1] == 0 else UNK
    if k == "captured":
        ty = sh[1] or ""
        if "Option" in ty:
            return sel
        return "k" if "usize" in ty else UNK
    if k == "def":
        return ("none",) if sh[1] == "None" else UNK
    if k == "call":
        if sh[1] == ("def", "Some") and len(sh[2]) == 1:
            return ("some", _pred_eval(sh[2][0], d, sel))
        return UNK
    if k == "un":
        v = _pred_eval(sh[2], d, sel)
        if sh[1] == "!":
            return (not v) if isinstance(v, bool) else UNK
        return v
    if k == "bin":
        a, b = _pred_eval(sh[2], d, sel), _pred_eval(sh[3], d, sel)
        if sh[1] in ("||", "&&"):
            if isinstance(a, bool) and isinstance(b, bool):
                return (a or b) if sh[1] == "||" else (a and b)
            if sh[1] == "||" and (a is True or b is True):
                return True
            if sh[1] == "&&" and (a is False or b is False):
                return False
            return UNK
        if sh[1] in ("==", "!="):
            if UNK in (a, b) or (isinstance(a, tuple) and UNK in a) or (isinstance(b, tuple) and UNK in b):
                return UNK
            return (a == b) if sh[1] == "==" else (a != b)
        return UNK
    if k == "mcall":
        v = _pred_eval(sh[2], d, sel)
        if sh[1] in ("is_none", "is_some") and isinstance(v, tuple) and v and v[0] in ("none", "some"):
            return (v[0] == "none") == (sh[1] == "is_none")
        if sh[1] in ("as_ref", "copied", "cloned", "clone", "as_deref"):
            return v
        return UNK
    return UNK


ARM_DOMAIN = [("none",), ("some", "k"), ("some", "other")]
PER_VARIANT_TABLE = [True, True, False]      # wildcard arms and the variant's own arms
DEFAULT_TABLE = [True, False, False]         # wildcard arms only


def _filter_closures(body_hir):
    out = []
    for c in hir.nodes(body_hir, "mcall"):
        if c["m"] != "filter" or not c["args"]:
            continue
        cl = hir.strip(c["args"][0])
        if cl.get("k") != "closure":
            continue
        params = {}
        for i, pp in enumerate(cl.get("params") or []):
            def rec(pat, path):
                if pat.get("k") == "bind":
                    params[pat["local"]] = path
                for j, q in enumerate(pat.get("pats") or []):
                    rec(q, path + (j,))
                if pat.get("k") == "pref":
                    rec(pat["pat"], path)
            rec(pp, (i,))
        out.append((c["line"], _shape(cl["body"], params)))
    return out


def rule_t7(F):
    """Arm selection of `match`: the chain of a named variant tries, in arm order, that variant's own arms and every wildcard arm; a
    variant that no arm names takes the default chain, which consists of exactly the wildcard arms.  Each chain is a filter over the
    COMPLETE arm list; its predicate is evaluated for the three kinds of arm (wildcard, this variant, another variant) - wherever the
    filter lives (in r#match itself, or in a helper that takes the wanted discriminant as `Option`)."""
    r = RuleResult("C01.T7", "match lowering: per-variant chains select {own arms, wildcard arms}, the default chain exactly the wildcard arms (predicates evaluated on the three kinds of arm)", floor=2)
    ps = [p for p in F.paths() if p.endswith("::r#match") and "match_expr" in p]
    if not ps:
        r.missing("mir::lower::match_expr r#match")
        return r
    b = F.body(ps[0])
    producers = []        # (line, kind, table)
    for ln, sh in _filter_closures(b.hir["value"]):
        tbl = [_pred_eval(sh, d, UNK) for d in ARM_DOMAIN]
        producers.append((ln, "filter in r#match", tbl))
    # helpers that r#match calls with the wanted discriminant
    ld = hir.LocalDefs(b.hir)
    for c in list(hir.nodes(b.hir["value"], "call")) + list(hir.nodes(b.hir["value"], "mcall")):
        d_ = hir.call_def(c) if c["k"] == "call" else c.get("def")
        hb = F.body(d_ or "")
        if hb is None or not hb.hir or hb.path == b.path or "lower" not in hb.path:
            continue
        fcs = _filter_closures(hb.hir["value"])
        if not fcs:
            continue
        sel = UNK
        for a in c["args"]:
            a_ = hir.peel_refs(hir.strip(a))
            if a_.get("k") == "call" and hir.last(hir.call_def(a_) or "") == "Some":
                sel = ("some", "k")
            elif a_.get("k") == "path" and hir.res_local(a_) is None and hir.last(hir.res_def(a_) or "") == "None":
                sel = ("none",)
        for ln, sh in fcs:
            tbl = [_pred_eval(sh, d, sel) for d in ARM_DOMAIN]
            producers.append((c["line"], "%s(.., %s)" % (hir.last(hb.path), "Some(variant)" if sel == ("some", "k") else "None" if sel == ("none",) else "?"), tbl))
    per_variant = [p_ for p_ in producers if p_[2] == PER_VARIANT_TABLE]
    default = [p_ for p_ in producers if p_[2] == DEFAULT_TABLE]
    other = [p_ for p_ in producers if p_[2] not in (PER_VARIANT_TABLE, DEFAULT_TABLE)]
    r.inst("per-variant arm filter", {"found": len(per_variant), "sites": [(p_[0], p_[1]) for p_ in per_variant]})
    r.inst("default arm filter", {"found": len(default), "sites": [(p_[0], p_[1]) for p_ in default]})
    if not per_variant and b.mir:
        # the chain of each variant is not a filter over the complete arm list: what is it built from?
        defs_ = mir.Defs(b)
        srcs = set()
        for bi, t in mir.calls(b):
            if hir.last(mir.callee(t) or "") == "match_case" and len(t["args"]) > 5 and mir.is_place_op(t["args"][5]):
                srcs |= {hir.last(mir.callee_def(b.blocks[x]["term"]) or "") for x in mir.back_calls(b, defs_, t["args"][5][1][0])}
        if srcs & {"entry", "or_default", "values_mut", "get_mut", "index", "get", "push"}:
            r.bad(b.path, "per-variant chain built incrementally", relfile(b.file), b.line,
                  "the arms tried for a variant are collected incrementally (%s) instead of by selecting, from the COMPLETE arm list, the arms of that variant and the wildcard arms: a "
                  "wildcard arm written before a variant's first own arm is missing from that variant's chain (its guard is never evaluated)" % ", ".join(sorted(x for x in srcs if x)[:6]))
            return r
    for ln, what, tbl in other:
        names_ = ["a wildcard arm", "an arm of this variant", "an arm of another variant"]
        show = ", ".join("%s: %s" % (n_, {True: "selected", False: "skipped"}.get(v, "undecided")) for n_, v in zip(names_, tbl))
        r.bad(b.path, "default chain predicate", relfile(b.file), ln,
              "the arms tried for a variant are selected by a predicate that is neither {own arms + wildcard arms} nor {wildcard arms} (%s; %s): e.g. a guarded `_ if c` arm is tried for "
              "`Some(..)` but skipped for `None`" % (what, show))
    if not other and (not per_variant or not default):
        r.missing("the two arm filters of r#match (per variant: %d, default: %d)" % (len(per_variant), len(default)))
    return r


def rule_t8(F):
    """`==` and `!=` are each other's negation for every type: where the equality lowering answers with a constant (values that have
    no run-time representation, e.g. `()`), the constant must depend on the `negated` flag."""
    r = RuleResult("C01.T8", "equality lowering: every constant answer of call_eq_of depends on `negated` (so `!=` is the negation of `==` also for value-less types)", floor=1)
    ps = [p for p in F.paths() if p.endswith("::call_eq_of") and "lir::lower" in p]
    if not ps:
        r.missing("lir::lower call_eq_of")
        return r
    b = F.body(ps[0])
    ld = hir.LocalDefs(b.hir)
    pidx = hir.param_index(b.hir)
    neg = [i for i, p_ in enumerate(b.hir["params"]) if (p_.get("ty") or "") == "bool"]
    if len(neg) != 1:
        r.missing("the `negated: bool` parameter of call_eq_of")
        return r
    n = 0
    for c in hir.nodes(b.hir["value"], "call"):
        if not (hir.call_def(c) or "").endswith("IrValue::Bool") or not c["args"]:
            continue
        n += 1
        a = hir.strip(c["args"][0])
        const = a.get("k") == "lit"
        dep = neg[0] in hir.param_roots(b.hir, ld, a, pidx=pidx)
        r.inst("constant answer #%d" % n, {"line": c["line"], "literal": a.get("v") if const else None, "depends_on_negated": dep})
        if const or not dep:
            r.bad(b.path, "constant answer #%d ignores `negated`" % n, relfile(b.file), c["line"],
                  "the equality of two values without run-time representation is answered with a constant that does not depend on `negated`: `a != b` and `a == b` give the same answer (e.g. `() != ()` is true)")
    if n == 0:
        r.note("call_eq_of has no constant answer")
    return r


def rule_t9(F):
    """Control flow of compiled code: an LIR `Switch` transfers to the label whose INDEX equals the examinee (else to the default).
    The code generator realises it with cranelift's Switch keyed by each branch's own index; a conditional branch on the raw
    examinee ('non-zero') is only equivalent for the indices 0 and 1 of booleans - a one-armed `match x { Green => .., _ => .. }`
    on the third variant would take the arm.  Who may branch conditionally: Switch::emit, or a `brif` whose condition is an
    integer comparison with the branch index."""
    r = RuleResult("C01.T9", "codegen of Switch: every branch is selected by equality with its own index (no branch on the raw examinee)", floor=1)
    bodies = [b for b in F.bodies_in(["src/codegen/mod.rs"]) if b.mir and "FuncGen" in b.path and "::tests::" not in b.path]
    n_emit = 0
    for b in bodies:
        defs = None
        for bi, t in mir.calls(b):
            d = mir.callee_def(t) or mir.callee(t) or ""
            n = hir.last(d)
            if n in ("brif", "brnz", "brz", "br_table") and ("InstBuilder" in d or "cranelift" in d):
                defs = defs or mir.Defs(b)
                cond = t["args"][1] if len(t["args"]) > 1 else None
                srcs = {hir.last(mir.callee_def(b.blocks[x]["term"]) or "") for x in mir.back_calls(b, defs, cond[1][0])} if mir.is_place_op(cond) else set()
                compared = bool(srcs & {"icmp", "icmp_imm", "fcmp"})
                r.inst("%s %s #%d" % (hir.last(b.path.split("::{closure")[0]), n, len(r.instances)), {"fn": b.path, "line": t.get("line"), "condition_from": sorted(x for x in srcs if x)[:6]})
                if not compared:
                    r.bad(b.path, "%s on a value that is not a comparison" % n, relfile(b.file), t.get("line"),
                          "generated code branches on whether a value is non-zero instead of on a comparison with the branch index: for a Switch this is only right for indices 0 / 1 "
                          "(a one-armed match on the third variant of an enum takes the arm of the second)")
            if n == "emit" and "Switch" in d:
                defs = defs or mir.Defs(b)
                n_emit += 1
                # every set_entry of this function keys the block by the branch's own index
                eb, edefs = b, defs
                entries = [(ei, et) for ei, et in mir.calls(b) if hir.last(mir.callee_def(et) or "") == "set_entry" and "Switch" in (mir.callee_def(et) or "")]
                if not entries and t["args"] and mir.is_place_op(t["args"][0]):
                    # the table is built by a helper of the code generator: judge the entries there
                    for x in mir.back_calls(b, defs, t["args"][0][1][0]):
                        hb = F.body(mir.callee(b.blocks[x]["term"]) or "")
                        if hb is not None and hb.mir and any(hir.last(mir.callee_def(et) or "") == "set_entry" for _, et in mir.calls(hb)):
                            eb, edefs = hb, mir.Defs(hb)
                            entries = [(ei, et) for ei, et in mir.calls(hb) if hir.last(mir.callee_def(et) or "") == "set_entry" and "Switch" in (mir.callee_def(et) or "")]
                ok_entries = bool(entries)
                for ei, et in entries:
                    k_ = mir.origin_key(eb, edefs, et["args"][1][1]) if len(et["args"]) > 2 and mir.is_place_op(et["args"][1]) else ""
                    b_ = {hir.last(mir.callee(eb.blocks[x]["term"]) or "") for x in mir.back_calls(eb, edefs, et["args"][2][1][0])} if len(et["args"]) > 2 and mir.is_place_op(et["args"][2]) else set()
                    # index = component 0 of the iterated (index, label) pair, block = get_block(component 1)
                    if not (re.search(r"\.0(\.|$)", k_) and "get_block" in b_):
                        ok_entries = False
                r.inst("%s Switch::emit" % hir.last(b.path), {"fn": b.path, "line": t.get("line"), "entries_keyed_by_branch_index": ok_entries, "set_entry_sites": len(entries)})
                if not ok_entries:
                    r.bad(b.path, "Switch entries", relfile(b.file), t.get("line"), "the cranelift Switch is not filled with (branch index -> block of that branch's label) for every branch")
    if n_emit < 1:
        r.missing("the cranelift Switch::emit that realises lir::Instruction::Switch")
    return r


def rule_t10(F):
    """C08.O1 under C01's id: operands are evaluated (read) in source order, so `a - { a = a + 1; a }` reads `a` before the block runs."""
    from . import c08
    r = c08.rule_o1(F)
    r.rule = "C01.T10"
    r.desc = "operands are evaluated left to right: the left operand of an operator is read (stored) before the right operand is lowered"
    for v in r.violations:
        v.rule = "C01.T10"
    return r


def rule_t11(F):
    """Unary operators: `!e` is the boolean negation of the value of e and `-e` the arithmetic negation, for EVERY operand.  The MIR
    lowering of each is evaluated (vf/sx, all paths) on an opaque operand and on `l op r` for each of the thirteen binary operators:
    the result is `Value::Not` / `Value::Negate` of the lowered operand - or, for `!`, the lowering of `l op' r` where op' is the
    EXACT complement of op.  Only `==` / `!=` are exact complements on every type: `!(a < b)` is not `a >= b` for floats (NaN)."""
    from .. import sx
    r = RuleResult("C01.T11", "unary `!` / `-`: Value::Not / Value::Negate of the lowered operand on every path (rewrites of !(a op b) only with an exact complement: == / !=)", floor=2)
    L = "mir::lower::Lowerer::<'r>::"
    EXACT = {("Eq", "Ne"), ("Ne", "Eq")}
    for fn, want in (("not", "Not"), ("negate", "Negate")):
        b = F.body(L + fn)
        if b is None or not b.hir:
            r.missing(L + fn)
            continue
        epos = [i for i, p_ in enumerate(b.hir["params"]) if "Meta<ast::Expr>" in str(p_.get("ty") or "")]
        if len(epos) != 1:
            r.missing("the operand parameter of " + L + fn)
            continue
        pname = b.hir["params"][epos[0]].get("name")
        vectors = [("opaque operand", None)] + [("`l %s r`" % op, op) for op in OPS]
        bad = []
        for label, op in vectors:
            pv = {}
            if op is not None:
                inner = ("ctor", "BinOp", sx.Sym("l"), op, sx.Sym("r"))
                pv = {epos[0]: inner}      # `&**expr`: dereferencing is transparent to the evaluator, so the node stands for its Meta
            try:
                ps = sx.Exec(F, opaque={p_ for p_ in F.paths() if hir.last(p_) in ("expr", "binop", "assign_to_var")}).paths(b.hir, pv)
            except (sx.TooManyPaths, sx.Unknown) as e_:
                bad.append((label, "cannot evaluate: %s" % e_))
                continue
            for res, evs in ps:
                if res == ("diverges",):
                    continue
                nots = sx.find_ctors(res, want)
                if nots and sx.is_ctor(res) and res[1] == want:
                    continue
                # a rewrite: the result comes from lowering another binary operation
                bo = [e for e in evs if e[0] == "mcall" and e[1] == "binop"]
                if op is None and bo:
                    continue       # which operator is rewritten into which is decided on the thirteen concrete operands below
                if op is not None and bo and all(len(e[3]) == 3 and isinstance(e[3][1], str) and not isinstance(e[3][1], sx.Sym) and (op, str(e[3][1])) in EXACT
                                                 and sx.mentions(e[3][0], "l") and sx.mentions(e[3][2], "r") for e in bo):
                    continue
                what = "lowers to `l %s r`" % str(bo[0][3][1]) if bo and len(bo[0][3]) == 3 else "yields %s" % sx.short(res, 50)
                bad.append((label, what))
        r.inst("unary %s" % fn, {"fn": L + fn, "operands_tried": len(vectors), "deviations": [list(x) for x in bad][:6]})
        for label, what in bad[:4]:
            r.bad(L + fn, "%s on %s" % (fn, label), relfile(b.file), b.line,
                  "%s of %s %s instead of Value::%s of the lowered operand: the complement of an ordering comparison is not its negation on floats (NaN), only == / != may be rewritten" % (
                      "`!`" if fn == "not" else "`-`", label, what, want))
    return r


def rule_t12(F):
    """`==` / `!=` compare structurally - every scalar component as a value of ITS type (floats by IEEE equality: NaN != NaN,
    0.0 == -0.0).  The helper through which the generated equality functions of records and enums compare one inline field is
    evaluated (vf/sx): the field is read with the IR type that `lower_type` gives for the field's type, and the comparison is the
    one `call_eq_of` chooses for that type - never an integer comparison of as many bytes as the field happens to have."""
    from .. import sx
    r = RuleResult("C01.T12", "generated equality compares an inline field with the comparison of its own type (no bytewise comparison of floats)", floor=1)
    ps = [p for p in F.paths() if p.startswith("lir::lower::eq::") and hir.last(p) == "call_eq_by_ptr"]
    if not ps:
        r.missing("lir::lower::eq call_eq_by_ptr")
        return r
    b = F.body(ps[0])
    # private helpers of the equality generator are followed (`read_pair(..)`); the emitters and the type queries are the alphabet
    opaque = {p for p in F.paths() if p.startswith("lir::lower") and p != b.path and (
        hir.last(p).startswith("emit") or hir.last(p) in ("new_tmp", "lower_type", "is_reference_type", "call_eq_of", "layout_of", "var"))}
    try:
        paths = sx.Exec(F, opaque=opaque).paths(b.hir, {})
    except (sx.TooManyPaths, sx.Unknown) as e_:
        r.bad(b.path, "evaluation", relfile(b.file), b.line, "cannot evaluate call_eq_by_ptr: %s" % e_)
        return r
    problems, reads = set(), 0
    for res, evs in paths:
        if res == ("diverges",):
            continue
        for e in evs:
            a = (e[3] if e[0] == "mcall" else e[2])
            if e[1] == "emit_read":
                reads += 1
                if not (len(a) >= 3 and sx.mentions(a[2], "lower_type")):
                    problems.add("a field is read as %s, not as the IR type of the field's own type" % sx.short(a[2] if len(a) >= 3 else "?", 30))
            if e[1] in ("emit_int_cmp", "emit_float_cmp") or any(sx.find_ctors(x, "IntCmp") for x in a):
                problems.add("an integer comparison is emitted directly for the field (the comparison does not depend on the field's type)")
        evn = [e[1] for e in evs]
        if "emit_read" in evn and "call_eq_of" not in evn:
            problems.add("the loaded values are not compared through call_eq_of (which selects the comparison by type)")
    r.inst("call_eq_by_ptr", {"paths": len(paths), "field_reads": reads, "problems": sorted(problems)})
    if reads == 0:
        r.missing("the read of an inline field in call_eq_by_ptr")
    for pr in sorted(problems):
        r.bad(b.path, pr[:50], relfile(b.file), b.line,
              "%s: `{a: NaN} == {a: NaN}` becomes true and `Some(0.0) == Some(-0.0)` false - equality of aggregates with a float component is no longer the IEEE equality of the component" % pr)
    return r


def rules(ctx):
    F = ctx["F"]
    return [rule_t1(F), rule_t2(F), rule_t3(F), rule_t4(F), rule_t5(F), rule_t6(F), rule_t7(F), rule_t8(F), rule_t9(F), rule_t10(F), rule_t11(F), rule_t12(F)]
