"""C16 - lists stay memory-safe when shared between threads.
Decided: raw pointers derived under a MutexGuard never outlive it (escape
analysis); RawList is reached only through its mutex; unsafe Send/Sync on
RawList."""
from .. import mir, locks, hir
from ..facts import relfile
from ..report import RuleResult

EXPLANATION = (
    "Escape/typestate clauses of C16 on MIR: M1 every raw pointer (NonNull/*const/*mut, or slice made by from_raw_parts) "
    "obtained through the deref of a live MutexGuard is tracked by taint; it must not reach the return place and must not be "
    "used at a program point where that guard is dead; functions that return such a pointer are summarised and every use of "
    "their result in a caller is reported too. M2 every call of a RawList method / read of a RawList field outside impl RawList "
    "has a receiver rooted at a MutexGuard deref or at a RawList created in the same body. M3 RawList's unsafe Send/Sync impls "
    "exist and RawList's only non-Send/Sync field is the owned buffer pointer. Linearizability under schedules is not decided."
)
EXPLANATION += (
    ' A reference or slice made from a guarded pointer (from_raw_parts) escapes like the pointer itself: its lifetime is unchecked.'
)
EXPLANATION += (  # round-3 supplement
    " A pointer computed by a closure that reads through a captured guard carries that guard's token. M4 = C15.M6: lengths that bound an element loop are read under the locks the loop holds."
)
ASSUMPTIONS = [
    "a pointer into the list buffer is valid only while the list's mutex is held (another thread's push may reallocate)",
    "taint is flow-insensitive for propagation and flow-sensitive (guard liveness dataflow) for the use-after-unlock test",
    "schedules/interleavings are not explored",
]

PTRISH = ("NonNull<", "*const ", "*mut ")


def ptrish(ty):
    if "fn(" in ty:
        # function pointers (vtable entries) are not pointers into the buffer
        return False
    return any(p in ty for p in PTRISH)


def escaping(ty):
    """Types through which a buffer pointer can leave a function: raw pointers, and references/slices (a tainted
    reference can only have been made from a raw pointer - from_raw_parts / &*ptr - so its lifetime is unchecked)."""
    return ptrish(ty) or ty.startswith("&")


def base_local(body, defs, place, depth=0):
    """Underlying local of a reference chain (&x, use, reborrow)."""
    l = place[0]
    if depth > 20:
        return l
    ds = defs.whole_defs(l)
    if len(ds) == 1 and ds[0][2] == "assign":
        rv = ds[0][3]["rv"]
        if rv["k"] in ("ref", "rawptr"):
            return base_local(body, defs, rv["p"], depth + 1)
        if rv["k"] == "use" and mir.is_place_op(rv["o"]) and len(rv["o"][1]) == 1:
            return base_local(body, defs, rv["o"][1], depth + 1)
    return l


def analyse_body(b, esc_fns):
    """Returns dict with: lock tokens, tainted locals (local -> (token, why)),
    returned (bool), stale uses."""
    la = locks.LockAnalysis(b) if locks.has_locks(b) else None
    defs = la.defs if la else mir.Defs(b)
    locals_ = b.mir["locals"]
    holders = {}
    if la:
        for bi in range(len(b.blocks)):
            for (tok, h) in la.in_state.get(bi, ()):
                holders.setdefault(h, set()).add(tok)
            for (tok, h) in la.holders_at_term(bi):
                holders.setdefault(h, set()).add(tok)
        # destinations of lock / unwrap calls
        for bi, blk in enumerate(b.blocks):
            t = blk["term"]
            if locks.is_lock_call(t):
                holders.setdefault(t["dest"][0], set()).add(bi)
    inner = {}  # local (reference to the guarded data) -> token
    taint = {}  # local -> (token or 'stale:<fn>', why)
    changed = True
    rounds = 0
    while changed and rounds < 50:
        changed = False
        rounds += 1
        for bi, blk in enumerate(b.blocks):
            for s in blk["stmts"]:
                if s["k"] != "assign":
                    continue
                dst = s["p"]
                rv = s["rv"]
                srcs = []
                if rv["k"] in ("use", "cast") and mir.is_place_op(rv["o"]):
                    srcs = [rv["o"][1]]
                elif rv["k"] in ("ref", "rawptr"):
                    srcs = [rv["p"]]
                elif rv["k"] == "agg":
                    srcs = [o[1] for o in rv["ops"] if mir.is_place_op(o)]
                for sp in srcs:
                    sl = sp[0]
                    # reading a pointer-typed field through the guarded reference
                    if sl in inner and len(sp) > 1 and len(dst) == 1:
                        dty = locals_[dst[0]]["ty"]
                        if rv["k"] in ("use", "cast") and ptrish(dty) and dst[0] not in taint:
                            taint[dst[0]] = (inner[sl], "field %s read under guard" % ".".join(mir.proj_str(sp[1:])))
                            changed = True
                        if rv["k"] == "ref" and dst[0] not in inner:
                            # reborrow of guarded data stays guarded data
                            inner[dst[0]] = inner[sl]
                            changed = True
                    elif sl in inner and len(sp) == 1 and len(dst) == 1 and dst[0] not in inner:
                        inner[dst[0]] = inner[sl]
                        changed = True
                    if sl in taint and dst[0] not in taint:
                        taint[dst[0]] = taint[sl]
                        changed = True
            t = blk["term"]
            if t["k"] != "call":
                continue
            dest = t["dest"]
            dl = dest[0]
            name = mir.callee_def(t)
            rname = mir.callee(t)
            args = [a[1] for a in t["args"] if mir.is_place_op(a)]
            dty = locals_[dl]["ty"]
            # deref of a guard -> reference to the guarded data
            if name in ("std::ops::Deref::deref", "std::ops::DerefMut::deref_mut") and args and la:
                bl = base_local(b, defs, args[0])
                if bl in holders and dl not in inner:
                    inner[dl] = sorted(holders[bl])[0]
                    changed = True
            # method on guarded data returning something pointer-ish
            if args and dl not in taint:
                recv = args[0]
                rl = recv[0]
                if rl in inner and (ptrish(dty)):
                    taint[dl] = (inner[rl], "result of %s called on guarded data" % rname)
                    changed = True
                elif any(a[0] in taint for a in args) and (
                        ptrish(dty) or "from_raw_parts" in name or dty.startswith("&")):
                    src = [taint[a[0]] for a in args if a[0] in taint][0]
                    taint[dl] = src
                    changed = True
            # a closure that returns a stale pointer is passed to a combinator
            if dl not in taint and ptrish(dty):
                for a in args:
                    bl = base_local(b, defs, a)
                    for d in defs.whole_defs(bl):
                        if d[2] == "assign" and d[3]["rv"]["k"] == "agg" and d[3]["rv"].get("ak") == "closure" \
                                and d[3]["rv"].get("def") in esc_fns:
                            cf = d[3]["rv"]["def"]
                            taint[dl] = ("stale:" + cf, "result of closure %s, which returns a pointer obtained under a lock that has been released" % cf)
                            changed = True
            # a closure that captures a live guard (by reference) computes the pointer: `idx.and_then(|i| raw.get(i))`
            if dl not in taint and ptrish(dty) and la:
                for a in args:
                    bl = base_local(b, defs, a)
                    for d in defs.whole_defs(bl):
                        if d[2] == "assign" and d[3]["rv"]["k"] == "agg" and d[3]["rv"].get("ak") == "closure":
                            for o in d[3]["rv"].get("ops", []):
                                if mir.is_place_op(o):
                                    cl = base_local(b, defs, o[1])
                                    if cl in holders and dl not in taint:
                                        taint[dl] = (sorted(holders[cl])[0], "result of a closure that reads through the captured guard (%s)" % rname)
                                        changed = True
            # result of a function known to leak a guard-derived pointer
            if rname in esc_fns and dl not in taint and escaping(dty):
                taint[dl] = ("stale:" + rname, "result of %s, which returns a pointer obtained under a guard it has already released" % rname)
                changed = True
    return la, defs, taint


def _m1(bodies, res, collect_esc_only=False, esc_fns=None):
    esc_fns = esc_fns if esc_fns is not None else {}
    found_esc = {}
    for b in bodies:
        if not b.mir:
            continue
        uses_esc = any(t["k"] == "call" and mir.callee(t) in esc_fns for _, t in mir.calls(b))
        if not locks.has_locks(b) and not uses_esc:
            continue
        la, defs, taint = analyse_body(b, esc_fns)
        rty = b.mir["locals"][0]["ty"]
        for l, (tok, why) in taint.items():
            if isinstance(tok, int):
                res_key = "%s|%s" % (b.path, why)
                if not collect_esc_only:
                    res.inst(res_key, {"fn": b.path, "file": relfile(b.file), "pointer": "_%d: %s" % (l, b.mir["locals"][l]["ty"]), "derived": why})
        # returned?
        if 0 in taint and escaping(rty):
            tok, why = taint[0]
            if isinstance(tok, int):
                found_esc[b.path] = why
                if not collect_esc_only:
                    res.bad(b.path, "returns guard-derived pointer", relfile(b.file), b.line,
                            "returns %s derived under a MutexGuard (%s) after the guard is dropped: the caller dereferences it without the lock" % (rty, why))
        if 0 in taint and escaping(rty) and isinstance(taint[0][0], str):
            found_esc[b.path] = taint[0][1]
        if collect_esc_only:
            continue
        # use after the guard died / any use of a stale pointer
        reported = set()
        for bi, blk in enumerate(b.blocks):
            t = blk["term"]
            if t["k"] != "call":
                continue
            for a in t["args"]:
                if not mir.is_place_op(a):
                    continue
                l = a[1][0]
                if l not in taint:
                    continue
                tok, why = taint[l]
                if isinstance(tok, str):
                    fn = tok[6:]
                    key = "uses stale pointer from " + fn
                    if key not in reported:
                        reported.add(key)
                        res.inst("%s|%s" % (b.path, key))
                        res.bad(b.path, key, relfile(b.file), t["line"],
                                "passes the pointer returned by %s to %s; that pointer was obtained under a lock that is no longer held" % (fn, mir.callee(t)))
                elif la is not None:
                    live = la.live_tokens_at_call(bi) | la.live_at_term.get(bi, set())
                    if tok not in live:
                        key = "use after unlock: " + why
                        if key not in reported:
                            reported.add(key)
                            res.bad(b.path, key, relfile(b.file), t["line"],
                                    "pointer (%s) is passed to %s at a point where the guard it was derived under is no longer live" % (why, mir.callee(t)))
    return found_esc


def rule_m1(bodies, res):
    esc = _m1(bodies, res, collect_esc_only=True)
    # wrappers (incl. closures) that return the stale pointer: fixpoint
    for _ in range(5):
        more = _m1(bodies, res, collect_esc_only=True, esc_fns=esc)
        new = {k: v for k, v in more.items() if k not in esc}
        if not new:
            break
        esc.update(new)
    _m1(bodies, res, esc_fns=esc)
    return esc


def rule_m2(F, res):
    """RawList methods/fields only via the mutex."""
    for b in F.bodies_in(["src/value/list.rs"]):
        if not b.mir:
            continue
        if b.path.startswith("value::list::RawList::") or "<value::list::RawList as" in b.path:
            continue
        if "::tests::" in b.path:
            continue
        la = locks.LockAnalysis(b) if locks.has_locks(b) else None
        defs = la.defs if la else mir.Defs(b)
        for bi, t in mir.calls(b):
            name = mir.callee(t)
            if not name.startswith("value::list::RawList::") or name.endswith("::new"):
                continue
            a0 = t["args"][0] if t["args"] else None
            if not mir.is_place_op(a0):
                continue
            r, p = mir.origin(b, defs, a0[1])
            key = "%s|%s" % (b.path, name)
            res.inst(key, {"fn": b.path, "callee": name, "receiver_origin": r + "." + ".".join(p)})
            ok = r.startswith("call:std::result::Result::<T, E>::unwrap") or r.startswith("call:value::list::RawList::new") \
                or r.startswith("call:std::sync::Mutex::<T>::lock") or "deref()" in p or "deref_mut()" in p
            # receiver is a guard-typed local (user variable holding the guard)
            if not ok and r.startswith("local"):
                idx = int(r[5:].split(":")[0])
                ty = b.mir["locals"][idx]["ty"]
                ok = "MutexGuard" in ty or ty.startswith("value::list::RawList")
            if not ok and r.startswith("arg"):
                idx = int(r[3:])
                ty = b.mir["locals"][idx]["ty"]
                # a &RawList / &mut RawList parameter: the caller holds the guard (checked at its call site)
                ok = "RawList" in ty and "Mutex" not in ty and "ErasedList" not in ty
            if not ok:
                res.bad(b.path, name, relfile(b.file), t["line"],
                        "calls %s on a receiver that is not reached through the list's MutexGuard (origin %s)" % (name, r))


def rule_m3(F, res):
    adt = F.adt("value::list::RawList")
    if adt is None:
        res.missing("value::list::RawList")
        return
    imps = [i for i in F.impls() if i.get("self_adt") == "value::list::RawList" and i.get("unsafe")]
    for i in imps:
        res.inst("unsafe impl %s" % i["trait"], {"impl": i["trait_ref"], "line": i["line"]})
    fields = adt["variants"][0]["fields"]
    for f in fields:
        res.inst("field %s" % f["name"], {"field": f["name"], "ty": f["ty"], "send": f["send"], "sync": f["sync"]})
        if not (f["send"] and f["sync"]):
            if not (f["name"] == "ptr" and f["ty"].startswith("std::ptr::NonNull<")):
                res.bad("value::list::RawList", "field " + f["name"], relfile(adt["file"]), adt["line"],
                        "field %s: %s is not Send+Sync and is covered by RawList's unsafe impl Send/Sync; only the owned buffer pointer `ptr` was reviewed" % (f["name"], f["ty"]))
    # the mutex must wrap RawList in ErasedList
    er = F.adt("value::list::ErasedList")
    if er is None:
        res.missing("value::list::ErasedList")
    else:
        tys = [f["ty"] for f in er["variants"][0]["fields"]]
        res.inst("ErasedList shape", {"fields": tys})
        if tys != ["std::sync::Arc<std::sync::Mutex<value::list::RawList>>"]:
            res.bad("value::list::ErasedList", "shape", relfile(er["file"]), er["line"],
                    "ErasedList is expected to be exactly Arc<Mutex<RawList>>; found %s" % tys)


def rule_m4(F):
    """A length that bounds an element loop is read in the same critical section as the loop (otherwise a concurrent push makes
    the loop index past the shorter list: unwrap on None inside extern "C" code, or a read outside the buffer) - C15.M6 under C16's id."""
    from . import c15
    r0 = c15.rule_m6(F)
    r = RuleResult("C16.M4", "lengths that bound an element loop over two lists are read under the locks the loop holds", floor=1)
    r.instances, r.samples, r.anchor_missing = list(r0.instances), list(r0.samples), list(r0.anchor_missing)
    for v in r0.violations:
        v.rule = "C16.M4"
        r.violations.append(v)
    return r


STORAGE_WRITES = {"write", "swap", "copy", "copy_nonoverlapping", "swap_nonoverlapping", "drop_in_place", "write_bytes", "replace", "realloc", "dealloc", "alloc", "write_unaligned", "copy_to", "copy_from", "copy_to_nonoverlapping", "copy_from_nonoverlapping"}


def rule_m5(F, rule_id="C16.M5"):
    """Linearizability of the list rests on EXCLUSIVE access for everything that writes the storage.  `RawList` writes through a raw
    pointer, so the borrow checker does not enforce this (RawList::swap takes `&self`); the lock does.  A Mutex guard is exclusive
    whatever is called through it; a reader-writer lock is only sound if no storage-writing method is reachable through a shared
    (read) guard."""
    r = RuleResult(rule_id, "every RawList method that writes the storage is called with exclusive access (mutex guard, write guard or an unshared list), never through a shared read guard", floor=1)
    raw = [b for b in F.all_bodies() if b.mir and "{closure" not in b.path and (b.path.startswith("value::list::RawList::") or "<value::list::RawList as" in b.path)]
    if not raw:
        r.missing("methods of value::list::RawList")
        return r
    writers = set()
    direct = {}
    for b in raw:
        w = []
        for _, t in mir.calls(b):
            full = mir.callee(t) or mir.callee_def(t) or ""
            nm = full.rsplit("::", 1)[-1]
            if nm in STORAGE_WRITES and ("ptr" in full or "alloc" in full or "intrinsics" in full or "NonNull" in full or "mem::" in full):
                w.append(nm)
        direct[b.path] = w
        # `&mut self` methods need no rule: no shared guard can hand out `&mut RawList`.  The risk is in `&self` methods that write
        # through the raw pointer.
        recv_ty = str((b.mir["locals"][1] if b.mir["argc"] >= 1 else {}).get("ty") or "")
        if w and not recv_ty.startswith("&mut "):
            writers.add(b.path)
    changed = True
    while changed:
        changed = False
        for b in raw:
            if b.path in writers:
                continue
            if any((mir.callee(t) in writers or mir.callee_def(t) in writers) for _, t in mir.calls(b)):
                writers.add(b.path)
                changed = True
    for b in F.all_bodies():
        if not b.mir or b.path in {x.path for x in raw}:
            continue
        defs = None
        for bi, t in mir.calls(b):
            cal = mir.callee(t) if mir.callee(t) in writers else mir.callee_def(t) if mir.callee_def(t) in writers else None
            if cal is None or not t.get("args"):
                continue
            defs = defs or mir.Defs(b)
            a0 = t["args"][0]
            guard_tys = set()
            if mir.is_place_op(a0):
                seen, work = set(), [a0[1][0]]
                while work:
                    l = work.pop()
                    if l in seen:
                        continue
                    seen.add(l)
                    ty = str(b.mir["locals"][l].get("ty") or "")
                    for g in ("RwLockReadGuard", "RwLockWriteGuard", "MutexGuard", "MappedRwLockReadGuard"):
                        if g in ty:
                            guard_tys.add(g)
                    for d in defs.defs.get(l, []):
                        if d[2] == "call":
                            for a in d[3].get("args") or []:
                                if mir.is_place_op(a):
                                    work.append(a[1][0])
                        elif d[2] == "assign":
                            work.extend(mir.rv_locals(d[3]["rv"]))
            r.inst("%s -> %s" % (b.path, hir.last(cal)), {"caller": b.path, "writer": cal, "writes": direct.get(cal, [])[:3], "receiver_guards": sorted(guard_tys)})
            if guard_tys & {"RwLockReadGuard", "MappedRwLockReadGuard"}:
                r.bad(b.path, "storage writer %s through a read guard" % hir.last(cal), relfile(b.file), t.get("line") or b.line,
                      "%s calls RawList::%s, which writes the list's storage (%s), through a shared read guard: two threads can run it at the same time as each other and as readers "
                      "(half-swapped elements, duplicated and lost elements, double drops) - operations are no longer linearizable" % (hir.last(b.path), hir.last(cal), ", ".join(direct.get(cal, [])[:2]) or "via another method"))
    return r


def rule_m6(F):
    """Linearizability of the whole-list reads: `to_vec` and `join` observe the list at ONE moment (shared with C15.M12 / M13: a
    single lock acquisition; no per-element reads).  This is the one clause of C16's first sentence that is structural."""
    from . import c15
    out = []
    for rr, nid in ((c15.rule_m12(F), "C16.M6"), (c15.rule_m13(F), "C16.M7")):
        rr.rule = nid
        for v in rr.violations:
            v.rule = nid
        out.append(rr)
    return out


def rule_m8(F):
    """Each operation takes effect on the list it is applied to: `concat` (`+`) yields a NEW list - a handle of fresh storage made
    inside the function - on every path; it never hands back a clone of one of its operands (an `Arc` clone: the 'result' shares
    storage and lock with the operand, so threads that each build a private list with `base + extra` push into `base` and into each
    other's lists).  Every value returned by ErasedList::concat comes out of a constructor call of the function, none out of `clone`
    of a parameter."""
    r = RuleResult("C16.M8", "concat returns a freshly made list on every path (never an Arc clone of an operand)", floor=1)
    ps = [p for p in F.paths() if p.startswith("value::list::ErasedList::") and hir.last(p) == "concat"]
    if not ps:
        r.missing("value::list::ErasedList::concat")
        return r
    b = F.body(ps[0])
    defs = mir.Defs(b)
    argc = b.mir["argc"]
    n = 0
    for d in defs.defs.get(0, []):
        n += 1
        srcs = set()
        if d[2] == "call":
            srcs = {d[0]}
        else:
            for x in mir.rv_locals(d[3]["rv"]):
                srcs |= mir.back_calls(b, defs, x)
                srcs |= {y[0] for y in defs.whole_defs(x) if y[2] == "call"}
        makers, aliases = [], []
        for x in sorted(srcs):
            t = b.blocks[x]["term"]
            nm = hir.last(mir.callee_def(t) or mir.callee(t) or "")
            if nm in ("clone", "clone_from", "to_owned") and t["args"] and mir.is_place_op(t["args"][0]):
                k = mir.origin_key(b, defs, t["args"][0][1])
                if k.startswith("arg") and k.split(".")[0][3:].isdigit() and 1 <= int(k.split(".")[0][3:]) <= argc and ("vtable" not in k):
                    aliases.append(k)
            if nm in ("new", "with_capacity", "default") and ("ErasedList" in (mir.callee(t) or "") or "Arc" in (mir.callee_def(t) or "") or "RawList" in (mir.callee(t) or "")):
                makers.append(nm)
        direct_alias = d[2] == "call" and hir.last(mir.callee_def(d[3]) or "") == "clone"
        r.inst("returned value #%d" % n, {"line": d[3].get("line"), "made_by": makers, "clone_of_operand": aliases})
        if (direct_alias and aliases) or (not makers and aliases):
            r.bad(b.path, "concat returns a clone of an operand", relfile(b.file), d[3].get("line") or b.line,
                  "ErasedList::concat can return `%s.clone()`: an Arc clone shares storage and mutex with the operand, so a push to the result is a push to the operand (and to every other "
                  "'result' made the same way) - `base + []` must be a new list like every other sum" % aliases[0])
    if n == 0:
        r.missing("the returned value of ErasedList::concat")
    return r


def rules(ctx):
    F = ctx["F"]
    bodies = [b for b in F.all_bodies() if b.mir]
    m1 = RuleResult("C16.M1", "no raw pointer derived under a MutexGuard is returned or used after the guard died", floor=6)
    rule_m1(bodies, m1)
    m2 = RuleResult("C16.M2", "RawList methods are only called through the mutex guard (or on a not-yet-shared list)", floor=15)
    rule_m2(F, m2)
    m3 = RuleResult("C16.M3", "RawList's unsafe Send/Sync covers only the owned buffer pointer; ErasedList = Arc<Mutex<RawList>>", floor=5)
    rule_m3(F, m3)
    return [m1, m2, m3, rule_m4(F), rule_m5(F)] + rule_m6(F) + [rule_m8(F)]


def canary(C):
    bodies = [b for b in C.all_bodies() if b.mir]
    m1 = RuleResult("C16.M1", "")
    rule_m1(bodies, m1)
    return [{"rule": "C16.M1", "fired": [v.key for v in m1.violations], "expect_min": 6, "expect_absent": ["sum_locked", "read_locked", "read_via_closure_locked"]}]
