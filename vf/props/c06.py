"""C06 - compilation is total: every input yields a package or a report."""
from .. import mir, hir, taint
from ..callgraph import CallGraph
from ..facts import relfile
from ..report import RuleResult

EXPLANATION = (
    "Panic-freedom and termination of the whole front end on all strings is not statically decidable here and is NOT claimed. "
    "Decided are five necessary conditions, each of which located a real crash: U1 byte/char unit discipline - interprocedural taint "
    "on MIR from character counts (chars().enumerate() indices, chars().count(), chars().position()) to byte sinks (str::split_at, "
    "str indexing/get, Lexer::bump and every crate function whose parameter reaches one), plus an inventory of constant non-zero "
    "byte offsets into str, each of which must be a reviewed token-invariant site; U2 no todo!()/unimplemented!() is reachable in the "
    "call graph from the compile entry points; U3 every binding of a type variable to an arbitrary type in unify_inner is preceded by "
    "an occurs check; U4 the recursive-type detector traverses type arguments; U5 every range handed to ariadne Label::new / "
    "Report::build is a Span::character_range."
)
EXPLANATION += (
    ' U3b the occurs check descends into every Type variant that contains types. U6 a token span leaving the lexer ends on a position computed from lengths (len differences, len_utf8); a constant number of bytes added to a position is a reviewed site (none on this tree).'
)
EXPLANATION += (  # round-3 supplement
    ' U6 covers every parser::meta::Span built in the crate (constant parts are reviewed sites). U7 the default chain of `match` is generated only if some variant lacks an arm of its own.'
)
EXPLANATION += (
    ' U8 every span is converted to a character range with the text of the file the span itself cites (the same span expression selects the file name, is converted and selects the text; spans of one parse error and its hints come from one parser run). U9 who may panic explicitly on the compile path: only ice! and reviewed invariant sites. U10 termination of the import fixpoint: the no-progress test compares the count after a round with the count taken at the start of the same round. U11 a stub declaration is inserted with an update_if that accepts nothing (only definitions replace stubs), so repeated names are reported by the stub pass.'
)
ASSUMPTIONS = [
    "std's documented panic conditions for str slicing",
    "ariadne expects character offsets (as configured by the crate)",
    "unwrap/ice!/index panics whose safety depends on cross-pass invariants are not decided",
]

ENTRY_SUFFIXES = (
    "file_tree::FileTree::compile", "file_tree::FileTree::parse", "pipeline::Parsed::typecheck",
    "pipeline::TypeChecked::lower_to_mir", "pipeline::LoweredToMir::lower_to_lir", "pipeline::LoweredToLir::codegen",
    "pipeline::RotoReport::write",
)

# reviewed constant byte offsets into a str: (function suffix, constant) -> reason
CONST_OK = {
    ("Lexer::<'s>::two_char_punctuation", 2): "bump(2) after matching two ASCII bytes with first_chunk()",
    ("Lexer::<'s>::one_char_punctuation", 1): "bump(1) after matching one ASCII byte",
    ("Lexer::<'s>::f_string_part", 1): "bump(1) eats the ASCII `\"` that terminated the scan",
    ("::simple_literal", 1): "Token::String / Token::Char start with an ASCII quote (lexer::string / lexer::char only produce them after eat_char of the quote)",
    ("::simple_literal", 2): "Token::Hex starts with `0x`, Token::Asn with `AS` (eat_str in lexer::hex_number / as_number)",
}


def const_of(body, defs, place, depth=0):
    """Constant integer value of an operand place if it is (built from) a constant."""
    l = place[0]
    ds = defs.whole_defs(l)
    if len(ds) != 1 or depth > 6:
        return None
    d = ds[0]
    if d[2] != "assign":
        return None
    rv = d[3]["rv"]
    if rv["k"] == "use":
        c = mir.op_const(rv["o"])
        if c is not None and "v" in c:
            return c["v"]
        if mir.is_place_op(rv["o"]):
            return const_of(body, defs, rv["o"][1], depth + 1)
    return None


def range_bounds(body, defs, local):
    """(kind, [operands]) for a Range* aggregate local."""
    for d in defs.whole_defs(local):
        if d[2] == "assign" and d[3]["rv"]["k"] == "agg" and "Range" in (d[3]["rv"].get("adt") or ""):
            return d[3]["rv"]["adt"], d[3]["rv"]["ops"], d[3]["rv"].get("fields")
    return None, [], []


def rule_u1(F, bodies=None, scope_note=None):
    r = RuleResult("C06.U1", "byte/char unit discipline: character counts never reach byte sinks; constant byte offsets into str are reviewed sites", floor=8)
    bodies = bodies if bodies is not None else [b for b in F.all_bodies() if b.mir and "::tests::" not in b.path]
    viol, sink_params, nsrc, nsink = taint.analyse(bodies)
    for p, idx in sorted(sink_params.items()):
        r.inst("sink summary %s %s" % (p, sorted(idx)), {"fn": p, "byte_offset_params": sorted(idx)})
    r.note("char-count sources found: %d; byte-sink call sites checked: %d" % (nsrc, nsink))
    for b, t, reasons, desc in viol:
        r.inst("flow in %s" % b.path)
        r.bad(b.path, "%s -> %s" % (sorted(reasons)[0], hir.last(mir.callee_def(t))), relfile(b.file), t["line"],
              "a character count (%s) is used as a byte offset (%s): non-ASCII input slices mid code point or at the wrong place" % (", ".join(sorted(reasons)), desc))
    # constant offsets
    for b in bodies:
        defs = None
        for bi, t in mir.calls(b):
            name = mir.callee_def(t)
            g = t["f"].get("gargs") or []
            cands = []
            if name in ("std::ops::Index::index", "std::ops::IndexMut::index_mut") and g and g[0] == "str":
                cands = [("range", t["args"][1])]
            elif name in ("core::str::<impl str>::split_at",):
                cands = [("n", t["args"][1])]
            elif name in sink_params or mir.callee(t) in sink_params:
                idxs = sink_params.get(name) or sink_params.get(mir.callee(t))
                cands = [("n", t["args"][i]) for i in idxs if i < len(t["args"])]
            for kind, op in cands:
                consts = []
                c = mir.op_const(op)
                if c is not None and "v" in c:
                    consts.append(c["v"])
                elif mir.is_place_op(op):
                    if defs is None:
                        defs = mir.Defs(b)
                    if kind == "range":
                        adt, ops, _ = range_bounds(b, defs, op[1][0])
                        for o in ops:
                            cc = mir.op_const(o)
                            if cc is not None and "v" in cc:
                                consts.append(cc["v"])
                            elif mir.is_place_op(o):
                                v = const_of(b, defs, o[1])
                                if v is not None:
                                    consts.append(v)
                    else:
                        v = const_of(b, defs, op[1])
                        if v is not None:
                            consts.append(v)
                for v in consts:
                    if v == 0:
                        continue
                    key = "%s const %d" % (b.path, v)
                    ok = [k for k in CONST_OK if b.path.endswith(k[0]) and k[1] == v]
                    if not ok:
                        # a private helper that is only ever called from a reviewed site with the same constant (the token text is handed over)
                        cs = {c for c in mir._callers_of(F, b.path) if c != b.path}
                        if cs and all(any(c.endswith(k[0]) and k[1] == v for k in CONST_OK) for c in cs):
                            ok = [k for k in CONST_OK if any(c.endswith(k[0]) for c in cs) and k[1] == v]
                    r.inst(key, {"fn": b.path, "line": t["line"], "constant_byte_offset": v, "reviewed": CONST_OK[ok[0]] if ok else None})
                    if not ok:
                        r.bad(b.path, "const offset %d into str" % v, relfile(b.file), t["line"],
                              "a constant byte offset %d is applied to a str that is not a reviewed token-invariant site: if the skipped prefix can be a multi-byte character this panics" % v)
    return r


def has_macro_node(body_hir, names):
    for n in hir.walk(body_hir):
        m = n.get("mac")
        if m and any(x in names for x in m):
            return n
    return None


def rule_u2(F):
    r = RuleResult("C06.U2", "no todo!()/unimplemented!() reachable from the compile entry points", floor=300)
    cg = CallGraph(F)
    names = {"typecheck", "lower_to_mir", "lower_to_lir", "codegen", "write", "compile", "parse"}
    roots = [p for p in F.paths() if "{closure" not in p and hir.last(p) in names
             and (p.startswith("pipeline::") or p.startswith("file_tree::FileTree::") or p.startswith("module::Parsed"))]
    if len(roots) < 4:
        r.missing("compile entry points (found %s)" % roots)
    seen, parent = cg.reachable(roots)
    for p in seen:
        r.inst(p)
    exceptions = {
        "typechecker::info::TypeInfo::convert": "Type::Function arm: function names are not first-class values (`let f = g;` is rejected with 'expected a value'); no input reaches it",
    }
    for p in sorted(seen):
        b = F.body(p)
        if b is None or not b.hir or "::tests::" in p:
            continue
        n = has_macro_node(b.hir.get("value") or {}, ("todo", "unimplemented"))
        if n is None:
            continue
        if p in exceptions:
            r.note("reviewed exception %s: %s" % (p, exceptions[p]))
            continue
        r.bad(p, "todo!", relfile(b.file), n.get("line", b.line),
              "todo!()/unimplemented!() is reachable on the compile path: %s" % " -> ".join(hir.last(x) for x in cg.chain(parent, p)))
    return r


def rule_u3(F):
    r = RuleResult("C06.U3", "every binding of a type variable to an arbitrary type in unify_inner is preceded by an occurs check", floor=3)
    ps = [p for p in F.paths() if p.endswith("::unify_inner")]
    if not ps:
        r.missing("unify_inner")
        return r
    b = F.body(ps[0])
    h = b.hir["value"]
    ms = [m for m in hir.nodes(h, "match") if len(m["arms"]) > 8]
    if not ms:
        r.missing("type-pair match in unify_inner")
        return r
    for arm in ms[0]["arms"]:
        desc = hir.pat_desc(arm["pat"])
        # arms that bind a plain Var / RecordVar to the *other* type
        sets = [c for c in hir.nodes(arm["body"], "mcall") if c["m"] == "set" and "unionfind" in [n.get("n") for n in hir.walk(c["recv"])]]
        if not sets:
            continue
        general = desc in ("(Type::Var(_),_)", "(_,Type::Var(_))") or "Type::RecordVar" in desc
        if not general:
            continue
        key = "arm %s" % desc
        r.inst(key, {"arm": desc, "line": arm["line"]})
        # an occurs check = some call in the arm (before the set) that receives both the variable and the type
        # an occurs check = a call (other than the binding itself) inside the arm that receives
        # both the variable and the other type, and whose failing outcome leaves with None
        binds = [n for (n, _) in hir.pat_bindings(arm["pat"])]
        occurs = False
        for c in list(hir.nodes(arm["body"], "mcall")) + list(hir.nodes(arm["body"], "call")):
            if c.get("m") in ("set", "clone"):
                continue
            used = set()
            for a in c["args"]:
                for n in hir.walk(a):
                    if n.get("k") == "path" and hir.res_local(n) is not None:
                        used.add(n["res"]["name"])
            if len(binds) >= 2 and set(binds) <= used:
                occurs = True
        if not occurs and desc in ("(Type::Var(_),_)", "(_,Type::Var(_))"):
            r.bad(b.path, key, relfile(b.file), arm["line"],
                  "a type variable is bound to an arbitrary type without an occurs check: `let x = []; x.push(x);` builds a cyclic type and later traversals overflow the stack")
    return r


def type_child_variants(F):
    """Variants of typechecker::types::Type that contain further types."""
    a = F.adt("typechecker::types::Type")
    out = {}
    for v in (a["variants"] if a else []):
        tys = " ".join(f["ty"] for f in v["fields"])
        if "typechecker::types::Type" in tys or "TypeName" in tys:
            out[v["name"]] = tys
    return out


def rule_u3b(F):
    r = RuleResult("C06.U3b", "the occurs check descends into every Type variant that contains types", floor=4)
    ps = [p for p in F.paths() if p.endswith("::unify_inner")]
    if not ps:
        r.missing("unify_inner")
        return r
    ub = F.body(ps[0])
    # the function used as occurs check in the Var arms
    cands = {}
    ms = [m for m in hir.nodes(ub.hir["value"], "match") if len(m["arms"]) > 8]
    for arm in (ms[0]["arms"] if ms else []):
        if hir.pat_desc(arm["pat"]) in ("(Type::Var(_),_)", "(_,Type::Var(_))"):
            for c in hir.nodes(arm["body"], "mcall"):
                if c["m"] not in ("set", "clone") and c.get("def"):
                    cands[c["def"]] = cands.get(c["def"], 0) + 1
    occ = [d for d, n in cands.items() if n >= 2 and F.has(d)]
    if not occ:
        r.missing("occurs-check function called from both Var arms of unify_inner")
        return r
    ob = F.body(occ[0])
    need = type_child_variants(F)
    mm = hir.find_match_on(ob.hir["value"], "Type::", min_arms=3)
    if not mm:
        r.missing("match over Type in " + occ[0])
        return r
    self_name = hir.last(occ[0])
    covered = {}
    for arm in mm[0]["arms"]:
        for alt in hir.pat_alternatives(arm["pat"]):
            v = alt.split("::")[1].split("(")[0].split("{")[0] if "::" in alt else alt
            rec = any(c["m"] == self_name for c in hir.nodes(arm["body"], "mcall")) or any((hir.call_def(c) or "").endswith("::" + self_name) for c in hir.nodes(arm["body"], "call"))
            covered[v] = rec
    for v, tys in need.items():
        r.inst("occurs %s" % v, {"variant": v, "contains": tys[:80], "descends": covered.get(v, covered.get("_"))})
        if not covered.get(v, covered.get("_", False)):
            r.bad(occ[0], "variant " + v, relfile(ob.file), ob.line,
                  "the occurs check does not look inside Type::%s (%s): a type variable can be bound to a type that contains it through this constructor, and the next traversal never terminates" % (v, tys[:60]))
    return r


def rule_u4(F):
    r = RuleResult("C06.U4", "recursive-type detection traverses type arguments of named types", floor=1)
    # the visitor of a `Type` is found by what it does (a function of the cycle detector's module that takes a type apart), not by name
    cands = [x for x in F.all_bodies() if x.hir and x.path.startswith("typechecker::type_cycle::") and "{closure" not in x.path and "::tests::" not in x.path
             and any("Type::Name" in hir.pat_desc(arm["pat"]) for m in hir.find_match_on(x.hir["value"], "Type::", min_arms=3) for arm in m["arms"])]
    if not cands:
        r.missing("typechecker::type_cycle::visit")
        return r
    for b in cands:
        for m in hir.find_match_on(b.hir["value"], "Type::", min_arms=3):
            for arm in m["arms"]:
                if "Type::Name" not in hir.pat_desc(arm["pat"]):
                    continue
                fields = {n.get("n") for n in hir.nodes(arm["body"], "field")}
                r.inst("Type::Name arm", {"fn": b.path, "fields_read": sorted(x for x in fields if x)})
                if "arguments" not in fields:
                    r.bad(b.path, "Type::Name arm ignores arguments", relfile(b.file), arm["line"],
                          "the cycle detector follows only the name of a named type, not its type arguments: `record A { x: A? }` (Option[A]) is accepted and layout computation recurses forever")
    return r


def rule_u5(F):
    r = RuleResult("C06.U5", "every range given to ariadne Label::new / Report::build is a Span::character_range", floor=3)
    bodies = [F.body(p) for p in F.paths() if p.startswith("pipeline::RotoReport::") or "RotoReport>::write" in p]  # write and its private helpers
    bodies = [b for b in bodies if b is not None and b.def_kind != "Closure"]
    if not bodies:
        r.missing("pipeline::RotoReport::write")
        return r
    for b in bodies:
        for c in hir.nodes(b.hir["value"], "call"):
            d = hir.call_def(c) or ""
            if not (d.startswith("ariadne::") and (("Label" in d and d.endswith("::new")) or ("Report" in d and d.endswith("::build")))):
                continue
            tup = None
            for a in c["args"]:
                a = hir.peel_refs(a)
                if a.get("k") == "tup" and len(a["elems"]) == 2:
                    tup = a
            if tup is None:
                continue
            rng = follow(hir.LocalDefs(b.hir), tup["elems"][1])  # through `let range = span.character_range(..);`
            ok = rng.get("k") == "mcall" and rng["m"] == "character_range"
            what = "Label::new" if "Label" in d else "Report::build"
            r.inst("%s #%d" % (what, len(r.instances)), {"call": d, "range": hir.result_desc(rng)})
            if not ok:
                r.bad(b.path, "%s range %s" % (what, hir.result_desc(rng)), relfile(b.file), c["line"],
                      "a report location is built from raw (byte) offsets instead of Span::character_range: with non-ASCII text earlier in the file the label is misplaced or dropped")
    return r


SPAN_CONST_OK = {}  # (function suffix, constant) -> reason; no reviewed site on the reference tree


def _arith(b, defs, place, depth=0):
    """Arithmetic expression behind a usize place: ('add'|'sub', l, r) / ('const', v) / ('leaf', description)."""
    if depth > 12:
        return ("leaf", "?")
    l = place[0]
    ds = defs.whole_defs(l)
    if len(ds) != 1:
        return ("leaf", "local%d" % l)
    d = ds[0]
    if d[2] == "call":
        return ("leaf", "call:" + hir.last(mir.callee_def(d[3])))
    if d[2] != "assign":
        return ("leaf", "local%d" % l)
    rv = d[3]["rv"]

    def of(o):
        c = mir.op_const(o)
        if c is not None:
            return ("const", c.get("v"))
        if mir.is_place_op(o):
            return _arith(b, defs, o[1], depth + 1)
        return ("leaf", "?")
    if rv["k"] == "use":
        return of(rv["o"])
    if rv["k"] == "bin":
        op = rv["op"].replace("WithOverflow", "").replace("Unchecked", "").lower()
        if op in ("add", "sub"):
            return (op, of(rv["a"]), of(rv["b"]))
    return ("leaf", rv["k"])


SPAN_REVIEWED = {
    ("simple_literal", "start", "+1"): "skips the opening quote (one ASCII byte) of a String / Char token",
}


def rule_u6(F):
    r = RuleResult("C06.U6", "spans are built from positions computed from lengths: a constant number of bytes in (or added to) a span bound is a reviewed site", floor=4)
    # (a) token spans leaving the lexer
    for b in F.bodies_in(["src/parser/lexer.rs"]):
        if not b.mir or "::tests::" in b.path:
            continue
        defs = None
        for bi, st in mir.agg_sites(b, "std::ops::Range"):
            ops = st["rv"]["ops"]
            if len(ops) != 2 or not mir.is_place_op(ops[1]) or b.mir["locals"][ops[1][1][0]]["ty"] != "usize":
                continue
            # only ranges that leave the function as (part of) its result are spans
            flow = {st["p"][0]}
            ch = True
            while ch:
                ch = False
                for blk in b.blocks:
                    for s2 in blk["stmts"]:
                        if s2["k"] != "assign" or s2["p"][0] in flow:
                            continue
                        rv2 = s2["rv"]
                        srcs = [o for o in rv2.get("ops", [])] + [rv2[k] for k in ("o",) if k in rv2]
                        if any(mir.is_place_op(o) and o[1][0] in flow for o in srcs):
                            flow.add(s2["p"][0])
                            ch = True
            if 0 not in flow:
                continue
            defs = defs or mir.Defs(b)
            e = _arith(b, defs, ops[1][1])
            consts = []

            def walk(x):
                if x[0] in ("add", "sub"):
                    for y in x[1:]:
                        if y[0] == "const" and y[1]:
                            consts.append(y[1])
                        walk(y)
            walk(e)
            r.inst("%s span line-free #%d" % (b.path, bi), {"fn": b.path, "line": st["line"], "end": str(e)[:160]})
            for v in consts:
                if any(b.path.endswith(k[0]) and k[1] == v for k in SPAN_CONST_OK):
                    continue
                r.bad(b.path, "span end = position + %s" % v, relfile(b.file), st["line"],
                      "the end of a token span is a byte position plus the constant %s: if the character there is longer than that the span ends inside it "
                      "and rendering the diagnostic slices the source mid code point" % v)
    # (b) every parser::meta::Span value built anywhere in the crate: aggregates and Span::new(file, a..b)
    for b in F.all_bodies():
        if not b.mir or "::tests::" in b.path or not b.file.startswith("src/") or b.path.endswith("meta::Span::new") or b.path.endswith("meta::Span::merge"):
            continue
        defs = None
        sites = []
        for bi, blk in enumerate(b.blocks):
            for st in blk["stmts"]:
                if st["k"] == "assign" and st["rv"]["k"] == "agg" and (st["rv"].get("adt") or "").endswith("parser::meta::Span"):
                    fo = dict(zip(st["rv"].get("fields") or [], st["rv"]["ops"]))
                    sites.append((st.get("line", 0), {k: fo[k] for k in ("start", "end") if k in fo}))
            t = blk["term"]
            if t["k"] == "call" and mir.callee(t).endswith("meta::Span::new") and len(t["args"]) > 1 and mir.is_place_op(t["args"][1]):
                defs = defs or mir.Defs(b)
                for d in defs.whole_defs(t["args"][1][1][0]):
                    if d[2] == "assign" and d[3]["rv"]["k"] == "agg" and len(d[3]["rv"]["ops"]) == 2:
                        sites.append((t["line"], {"start": d[3]["rv"]["ops"][0], "end": d[3]["rv"]["ops"][1]}))
        for line, comps in sites:
            defs = defs or mir.Defs(b)
            found = []
            for which, o in comps.items():
                c = mir.op_const(o)
                if c is not None:
                    if c.get("v"):
                        found.append((which, "=%s" % c.get("v")))
                    continue
                if not mir.is_place_op(o):
                    continue
                e = _arith(b, defs, o[1])

                def walk2(x, sign="+"):
                    if x[0] in ("add", "sub"):
                        for j, y in enumerate(x[1:]):
                            sg = "-" if (x[0] == "sub" and j == 1) else "+"
                            if y[0] == "const" and y[1]:
                                found.append((which, "%s%s" % (sg, y[1])))
                            walk2(y)
                    elif x[0] == "const" and x[1] and e is x:
                        found.append((which, "=%s" % x[1]))
                walk2(e)
            fn = hir.last(b.path)
            r.inst("%s Span #%d" % (fn, len([k for k in r.instances if k.startswith(fn + " Span")])), {"fn": b.path, "line": line, "constant_parts": found})
            for which, cst in found:
                if (fn, which, cst) in SPAN_REVIEWED:
                    continue
                cs = {c for c in mir._callers_of(F, b.path) if c != b.path}
                if cs and all((hir.last(c), which, cst) in SPAN_REVIEWED for c in cs):
                    continue     # a helper only called from a reviewed site of the same constant
                r.bad(b.path, "Span %s %s" % (which, cst), relfile(b.file), line,
                      "a span bound is built with the constant %s (%s): unless the bytes it stands for are known to be exactly that long (a reviewed ASCII delimiter) the span can end inside a multi-byte character - or beyond an empty file - "
                      "and rendering the report panics" % (cst, which))
    return r


def rule_u7(F):
    """Lowering a `match` must not panic for any arm list the type checker accepts. match_case ends a chain that finishes with a
    guarded arm in a jump to a block nobody creates; that is only sound for chains that can never be entered, so the default chain
    (variants without an arm of their own) may only be generated - and the switch may only get a default target - when such a
    variant exists: the decision has to compare the number of named variants with the number of variants."""
    r = RuleResult("C06.U7", "match lowering generates the default chain only if some variant has no arm of its own", floor=1)
    ps = [p for p in F.paths() if p.endswith("::r#match") and "match_expr" in p]
    if not ps:
        r.missing("mir::lower::match_expr r#match")
        return r
    b = F.body(ps[0])
    h = b.hir["value"]
    ld = hir.LocalDefs(b.hir)
    sw = [c for c in hir.nodes(h, "mcall") if c["m"] == "emit_switch" and len(c["args"]) >= 3]
    if not sw:
        r.missing("emit_switch in r#match")
        return r

    def len_cmp(e):
        """a comparison of the size of a map/set of discriminants with the size of the variant list"""
        for c in hir.nodes(e, "bin"):
            if c.get("op") not in ("<", ">", "<=", ">=", "==", "!="):
                continue
            tys = []
            for x in (c["a"], c["b"]):
                x = hir.strip(x)
                if x.get("k") == "mcall" and x["m"] == "len":
                    tys.append((hir.peel_refs(hir.strip(x["recv"])).get("ty") or ""))
            if len(tys) == 2 and any("Hash" in t or "BTree" in t for t in tys) and any("Identifier" in t and "TyRef" in t for t in tys):
                return True
        return False

    def depends_on_len_cmp(e, depth=0, seen=None):
        seen = seen if seen is not None else set()
        if len_cmp(e):
            return True
        for n in hir.walk(e):
            if n.get("k") == "path" and hir.res_local(n) is not None and depth < 6:
                l = hir.res_local(n)
                if l in seen:
                    continue
                seen.add(l)
                d = ld.get(l)
                if d and d[1] is not None and depends_on_len_cmp(d[1], depth + 1, seen):
                    return True
        return False
    ok = depends_on_len_cmp(sw[0]["args"][2])
    r.inst("switch default target", {"line": sw[0]["line"], "depends_on_named_vs_all_variants": ok})
    if not ok:
        r.bad(b.path, "default chain generated unconditionally", relfile(b.file), sw[0]["line"],
              "the switch gets a default target (and the default chain is generated) whenever a `_` arm exists, even if every variant has an arm of its own: with a guarded `_` arm that chain "
              "ends in a jump to a block that is never created and dead-code elimination panics (`match o { _ if g => 1, Some(t) => t, None => 3 }`)")
    return r


def follow(ld, e, depth=0):
    """The expression a let-bound local stands for (through plain `let x = e;`)."""
    e = hir.peel_refs(hir.strip(e))
    while depth < 12 and isinstance(e, dict) and e.get("k") == "path" and hir.res_local(e) is not None:
        d = ld.get(hir.res_local(e))
        if d is None or d[1] is None or d[2] != ():
            break
        e = hir.peel_refs(hir.strip(d[1]))
        depth += 1
    return e


def canon(ld, e, depth=0):
    e = follow(ld, e)
    if not isinstance(e, dict) or depth > 12:
        return "?"
    k = e.get("k")
    if k == "path":
        l = hir.res_local(e)
        return "%s#%s" % ((e.get("res") or {}).get("name") or "L", l) if l is not None else (hir.res_def(e) or "?")
    if k == "mcall":
        return "%s.%s(%s)" % (canon(ld, e["recv"], depth + 1), e["m"], ",".join(canon(ld, a, depth + 1) for a in e["args"]))
    if k == "call":
        return "%s(%s)" % (hir.call_def(e) or canon(ld, e["f"], depth + 1), ",".join(canon(ld, a, depth + 1) for a in e["args"]))
    if k == "field":
        return "%s.%s" % (canon(ld, e["e"], depth + 1), e.get("n"))
    if k == "index":
        return "%s[%s]" % (canon(ld, e.get("e") or e.get("a"), depth + 1), canon(ld, e.get("i") or e.get("b"), depth + 1))
    if k == "lit":
        return repr(e.get("v"))
    if k in ("un", "cast"):
        return canon(ld, e.get("a") or e.get("e"), depth + 1)
    return "?" + str(k)


def text_span(F, ld, t, depth=0):
    """The span expression whose file the text expression `t` is the contents of, or None."""
    t = follow(ld, t)
    if not isinstance(t, dict) or depth > 8:
        return None
    k = t.get("k")
    if k == "mcall":
        if t["m"] == "filename" and t["args"]:
            return t["args"][0]
        if t["m"] in ("text", "unwrap", "expect", "fetch", "as_str", "as_ref", "deref", "clone", "contents", "chars"):
            # a helper `self.text(span)` whose body reads self.files[span.file]
            d = t.get("def") or ""
            hb = F.body(d) if d and F.has(d) else None
            if hb is not None and hb.hir and t["args"]:
                hl = hir.LocalDefs(hb.hir)
                params = [p.get("local") for p in hb.hir.get("params", []) if p.get("k") == "bind"]
                c = canon(hl, hb.hir["value"].get("expr") or hb.hir["value"]) if hb.hir["value"].get("k") == "block" else canon(hl, hb.hir["value"])
                for i, pl in enumerate(params[1:]):
                    if ("#%s.file]" % pl) in c and "files[" in c and i < len(t["args"]):
                        return t["args"][i]
            if t["m"] == "fetch" and t["args"]:
                return text_span(F, ld, t["args"][0], depth + 1)
            return text_span(F, ld, t["recv"], depth + 1)
    if k == "field":
        inner = follow(ld, t["e"])
        if inner.get("k") == "index":
            idx = follow(ld, inner.get("i") or inner.get("b") or {})
            if idx.get("k") == "field" and idx.get("n") == "file":
                return idx["e"]
    return None


PARSE_OWNERS = ("parser::error::ParseError", "parser::error::Hint")


def of_one_parse(ld, e):
    """Is the span the `location` of a parse error or of one of its hints?  Those are produced by one parser run over one file."""
    e = follow(ld, e)
    return isinstance(e, dict) and e.get("k") == "field" and e.get("n") == "location" and \
        (hir.strip(e["e"]).get("ty") or "").lstrip("&").replace("mut ", "") in PARSE_OWNERS


def rule_u8(F):
    """A label is (file name, character range).  The byte span is converted to characters with a text: that text must be the
    contents of the very file the span lies in - the same span expression selects the file name, is converted, and selects the
    text.  (A type error can carry labels in other files than the error itself.)"""
    r = RuleResult("C06.U8", "every span is converted to a character range with the text of the file that the span itself cites", floor=3)
    bodies = [F.body(p) for p in F.paths() if p.startswith("pipeline::RotoReport::") or "RotoReport>::write" in p]  # write and its private helpers
    bodies = [b for b in bodies if b is not None and b.def_kind != "Closure"]
    if not bodies:
        r.missing("pipeline::RotoReport::write")
        return r
    for b in bodies:
        ld = hir.LocalDefs(b.hir)
        for c in hir.nodes(b.hir["value"], "call"):
            d = hir.call_def(c) or ""
            if not (d.startswith("ariadne::") and (("Label" in d and d.endswith("::new")) or ("Report" in d and d.endswith("::build")))):
                continue
            tup = None
            for a in c["args"]:
                a = hir.peel_refs(a)
                if a.get("k") == "tup" and len(a["elems"]) == 2:
                    tup = a
            if tup is None:
                continue
            what = "Label::new" if "Label" in d else "Report::build"
            fe = follow(ld, tup["elems"][0])
            rng = follow(ld, tup["elems"][1])
            s0 = canon(ld, fe["args"][0]) if fe.get("k") == "mcall" and fe["m"] == "filename" and fe["args"] else None
            s1 = canon(ld, rng["recv"]) if rng.get("k") == "mcall" and rng["m"] == "character_range" else None
            n2 = text_span(F, ld, rng["args"][0]) if s1 is not None and rng["args"] else None
            s2 = canon(ld, n2) if n2 is not None else None
            same_parse = s1 is not None and n2 is not None and s0 == s1 and s1 != s2 and of_one_parse(ld, rng["recv"]) and of_one_parse(ld, n2)
            r.inst("%s #%d" % (what, len(r.instances)), {"call": what, "line": c.get("line"), "file_of": s0, "converted": s1, "text_of": s2, "spans_of_one_parse_error": same_parse})
            if s1 is None:
                continue  # rule U5 reports ranges that are not a character_range
            if s0 is None or s2 is None:
                r.missing("file name / text expression of %s at line %s in a recognised form (file_of=%s text_of=%s)" % (what, c.get("line"), s0, s2))
            elif not (s0 == s1 == s2) and not same_parse:
                r.bad(b.path, "%s converts %s with the text of %s" % (what, "its span" if s0 == s1 else "a span", "another span's file"), relfile(b.file), c.get("line"),
                      "the label cites the file of `%s`, converts `%s` and uses the text of the file of `%s`: when they lie in different files (a type error whose secondary label points "
                      "into another module) the byte offsets are applied to the wrong text - rendering panics on an out-of-range or mid-character index, or cites a wrong position" % (s0, s1, s2))
    return r


REVIEWED_PANICS = {
    # function suffix -> why no input reaches the explicit panic
    "<lir::value::IrValue as std::cmp::PartialEq>::eq": "the evaluator compares operands of one typed instruction; both sides have the instruction's type (C20.V6 decides the rows)",
    "typechecker::scope::ScopeGraph::module_name": "parent_module always holds the index of a scope created as ScopeType::Module",
    "typechecker::scope::ScopeGraph::module_name::{closure#0}": "parent_module always holds the index of a scope created as ScopeType::Module",
}
REVIEWED_PANIC_PRODUCERS = {
    # producer whose refused result the panic guards -> why no input reaches it
    "Module::declare_function": "declare_function of a trampoline named by the unique id of the runtime function cannot clash",
}
NOT_EXPLICIT = {"ice", "todo", "unimplemented", "unreachable", "assert", "assert_eq", "assert_ne", "debug_assert", "debug_assert_eq", "debug_assert_ne"}


def rule_u9(F):
    """Who may panic explicitly on the compile path: `ice!` marks a violated internal invariant (a compiler bug by definition);
    a plain `panic!` is either a reviewed invariant site or an admission that accepted input cannot be compiled."""
    r = RuleResult("C06.U9", "no explicit panic!() other than ice! and reviewed invariant sites is reachable from the compile entry points", floor=3)
    cg = CallGraph(F)
    names = {"typecheck", "lower_to_mir", "lower_to_lir", "codegen", "write", "compile", "parse"}
    roots = [p for p in F.paths() if "{closure" not in p and hir.last(p) in names
             and (p.startswith("pipeline::") or p.startswith("file_tree::FileTree::") or p.startswith("module::Parsed"))]
    if len(roots) < 4:
        r.missing("compile entry points (found %s)" % roots)
    seen, parent = cg.reachable(roots)
    for p in sorted(seen):
        b = F.body(p)
        if b is None or not b.hir or "::tests::" in p:
            continue
        lines = set()
        for n in hir.walk(b.hir.get("value") or {}):
            m = n.get("mac") or []
            if "panic" in m and not (set(m) & NOT_EXPLICIT):
                lines.add(n.get("line", b.line))
        for k, ln in enumerate(sorted(lines)):
            reviewed = REVIEWED_PANICS.get(p)
            if reviewed is None and b.mir:
                # a site is reviewed for WHAT it guards, wherever the code lives: the panic is the refused side of a test on the result
                # of a reviewed producer (`let Ok(id) = module.declare_function(unique name, ..) else { panic!() }`)
                pbs = {bi for bi, blk in enumerate(b.blocks) if blk["term"].get("line") == ln and blk["term"]["k"] == "call"
                       and ("panic" in (mir.callee_def(blk["term"]) or "") or "panic" in " ".join(blk["term"].get("mac") or []))}
                for g in mir.gates(b):
                    badr = set()
                    for x in g["bad"]:
                        badr |= mir.reachable_from(b, x, stop={g["bb"]})
                    goodr = set()
                    for x in g["good"]:
                        goodr |= mir.reachable_from(b, x, stop={g["bb"]})     # without coming round to the test again (loops)
                    if pbs and pbs <= badr and not (pbs & goodr):
                        for c in g["chain"]:
                            for prod, why in REVIEWED_PANIC_PRODUCERS.items():
                                if str(c[2]).endswith(prod) or str(c[1]).endswith(prod):
                                    reviewed = why
            r.inst("%s panic #%d" % (p, k), {"fn": p, "line": ln, "reviewed": reviewed})
            if reviewed is None:
                r.bad(p, "explicit panic #%d" % k, relfile(b.file), ln,
                      "an explicit panic!() that is not an ice! is reachable on the compile path (%s): input the earlier passes accept makes compilation panic instead of producing a report"
                      % " -> ".join(hir.last(x) for x in cg.chain(parent, p)))
    return r


def rule_u10(F):
    """Termination of the import fixpoint.  TypeChecker::imports repeats `retain(unresolved)` until nothing is left or a round makes
    no progress.  The rounds terminate only if the no-progress test compares the number of unresolved imports after the round with
    the number at the START OF THE SAME ROUND: then every round that continues has strictly fewer left.  (Compared with a length
    taken once before the loop, a round that resolves nothing new is not noticed as soon as one earlier round resolved something -
    compilation hangs on `import Option.Some; import Option.Nope;`.)"""
    r = RuleResult("C06.U10", "the import fixpoint compares the unresolved count after a round with the count at the start of that round", floor=1)
    ps = [p for p in F.paths() if p.endswith("TypeChecker::imports")]
    if not ps:
        r.missing("TypeChecker::imports")
        return r
    b = F.body(ps[0])
    defs = mir.Defs(b)
    dom = mir.dominators(b)
    loops = mir.natural_loops(b)
    shrink = [bi for bi, t in mir.calls(b) if hir.last(mir.callee_def(t) or "") in ("retain", "retain_mut", "extract_if", "drain_filter")]
    hand_made = False
    if not shrink:
        # the round written by hand (`for p in pending { if .. self.import(scope, p).is_err() { still_pending.push(p) } }`): the step
        # that makes progress is the attempt to import
        shrink = [bi for bi, t in mir.calls(b) if hir.last(mir.callee(t) or mir.callee_def(t) or "") == "import" and any(bi in nodes for _, nodes in loops)]
        # only attempts of the round itself, not the error-reporting pass after the no-progress test
        if shrink:
            depth_ = {bi: mir.loop_depth(b, bi, loops) for bi in shrink}
            shrink = [min(shrink, key=lambda x: (x not in [y for y in shrink if depth_[y] >= 2], x))][:1]
        hand_made = True
    if not shrink:
        r.missing("the step that removes resolved imports (Vec::retain, or a loop over the pending imports calling import) in TypeChecker::imports")
        return r
    lens = {bi for bi, t in mir.calls(b) if hir.last(mir.callee_def(t) or "") == "len"}
    found = 0
    for sb in shrink:
        mine = [(h, nodes) for h, nodes in loops if sb in nodes]
        if not mine:
            r.missing("a loop around the retain call")
            continue
        h, nodes = max(mine, key=lambda x: len(x[1]))
        for bi in sorted(nodes):
            for st in b.blocks[bi]["stmts"]:
                if st["k"] != "assign" or st["rv"]["k"] != "bin" or st["rv"].get("op") not in ("Eq", "Ne", "Lt", "Le", "Gt", "Ge"):
                    continue
                a, c = st["rv"]["a"], st["rv"]["b"]
                if not (mir.is_place_op(a) and mir.is_place_op(c)):
                    continue
                la = mir.back_calls(b, defs, a[1][0]) & lens
                lc = mir.back_calls(b, defs, c[1][0]) & lens
                if not la or not lc:
                    continue
                after = mir.reachable_from(b, sb) if not hand_made else mir.reachable_from(b, sb, stop={h})
                post = [x for x in (la | lc) if x in after and x in nodes and (sb in dom[x] or (hand_made and x != h and not (x in dom[sb])))]
                pre = [x for x in (la | lc) if x not in post]
                if not post or not pre:
                    continue
                found += 1
                # (a) the count is read inside the round, before the retain
                in_round = all(x in nodes and x in dom[sb] for x in pre)
                if hand_made and bi in mir.reachable_from(b, sb, stop={h}) and not all(x in dom[bi] for x in pre):
                    in_round = False
                # (b) ... or it is carried from round to round: initialised from a len() before the loop and re-assigned inside the
                # loop, after the comparison, from the count read after this round's retain
                carried = False
                pre_op = a if (mir.back_calls(b, defs, a[1][0]) & lens) <= set(pre) and (mir.back_calls(b, defs, a[1][0]) & lens) else c
                var = pre_op[1][0]
                for _ in range(6):
                    ds_ = defs.whole_defs(var)
                    if len(ds_) == 1 and ds_[0][2] == "assign" and ds_[0][3]["rv"]["k"] == "use" and mir.is_place_op(ds_[0][3]["rv"]["o"]) and len(ds_[0][3]["rv"]["o"][1]) == 1:
                        var = ds_[0][3]["rv"]["o"][1][0]
                    else:
                        break
                vdefs = defs.whole_defs(var)
                inside = [d for d in vdefs if d[0] in nodes]
                outside = [d for d in vdefs if d[0] not in nodes]
                if inside and outside:
                    def from_lens(d):
                        if d[2] == "call":
                            return {d[0]} & lens
                        return set().union(*[mir.back_calls(b, defs, x) for x in mir.rv_locals(d[3]["rv"])]) & lens if mir.rv_locals(d[3]["rv"]) else set()
                    ok_in = all(from_lens(d) and all(x in post or (x in nodes and sb in dom[x]) for x in from_lens(d))
                                and bi not in mir.reachable_from(b, d[0], stop={h}) - {d[0]} for d in inside)
                    ok_out = all(from_lens(d) for d in outside)
                    carried = ok_in and ok_out
                r.inst("no-progress test line %s" % st.get("line"), {"line": st.get("line"), "count_before_taken_inside_the_round": in_round, "count_carried_from_the_previous_round": carried})
                if not in_round and not carried:
                    r.bad(b.path, "no-progress test against a count from outside the round", relfile(b.file), st.get("line"),
                          "the number of unresolved imports after a round is compared with a count that is not taken at the start of the same round: after one successful round a later round "
                          "without progress is no longer detected and the loop never ends (compilation hangs instead of reporting the unresolvable import)")
    if not found:
        found = _u10_rebuilt_list(F, r, b, defs, dom, loops, lens)
    if not found:
        r.missing("the comparison of the unresolved counts before and after a round in TypeChecker::imports")
    return r


def _u10_rebuilt_list(F, r, b, defs, dom, loops, lens):
    """Third form of the round: the unresolved imports of this round are collected in a FRESH list (`let mut remaining = Vec::new()`
    inside the loop, pushed to while the round walks the current list) and the no-progress test compares the length of that list
    with the length of the list the round walked; the fresh list then becomes the next round's list.  Both counts belong to the
    same round by construction."""
    imports = [bi for bi, t in mir.calls(b) if hir.last(mir.callee(t) or mir.callee_def(t) or "") == "import" and any(bi in nodes for _, nodes in loops)]
    if not imports:
        return 0

    def base(op):
        l = op[1][0]
        for _ in range(8):
            ds = defs.whole_defs(l)
            if len(ds) == 1 and ds[0][2] == "assign" and ds[0][3]["rv"]["k"] in ("ref", "use"):
                rv = ds[0][3]["rv"]
                src = rv.get("p") if rv["k"] == "ref" else (rv["o"][1] if mir.is_place_op(rv.get("o")) else None)
                if not src:
                    break
                l = src[0]
            elif len(ds) == 1 and ds[0][2] == "call" and hir.last(mir.callee_def(ds[0][3]) or "") in ("deref", "as_slice", "borrow", "as_ref") and ds[0][3]["args"] and mir.is_place_op(ds[0][3]["args"][0]):
                l = ds[0][3]["args"][0][1][0]
            else:
                break
        return l
    found = 0
    outer = max([(h, nodes) for h, nodes in loops if imports[0] in nodes], key=lambda x: len(x[1]))
    h, nodes = outer
    for bi in sorted(nodes):
        for st in b.blocks[bi]["stmts"]:
            if st["k"] != "assign" or st["rv"]["k"] != "bin" or st["rv"].get("op") not in ("Eq", "Ne", "Lt", "Le", "Gt", "Ge"):
                continue
            a, c = st["rv"]["a"], st["rv"]["b"]
            if not (mir.is_place_op(a) and mir.is_place_op(c)):
                continue
            la = [x for x in mir.back_calls(b, defs, a[1][0]) if x in lens]
            lc = [x for x in mir.back_calls(b, defs, c[1][0]) if x in lens]
            if len(la) != 1 or len(lc) != 1:
                continue
            recv = [base(b.blocks[x]["term"]["args"][0]) for x in (la[0], lc[0]) if mir.is_place_op(b.blocks[x]["term"]["args"][0])]
            if len(recv) != 2 or recv[0] == recv[1]:
                continue

            def fresh(l):
                return any(d[2] == "call" and d[0] in nodes and hir.last(mir.callee_def(d[3]) or "") in ("new", "with_capacity") and "Vec" in (mir.callee_def(d[3]) or "") for d in defs.whole_defs(l))

            def pushed_in_round(l):
                return any(hir.last(mir.callee_def(t) or "") == "push" and t["args"] and mir.is_place_op(t["args"][0]) and base(t["args"][0]) == l and pb in nodes for pb, t in mir.calls(b))
            fr = [l for l in recv if fresh(l) and pushed_in_round(l)]
            if len(fr) != 1:
                continue
            new_l = fr[0]
            old_l = [l for l in recv if l != new_l][0]
            # the count may be taken from a copy of the walked list made in this very round (`let unresolved = pending.clone()`)
            cds = defs.whole_defs(old_l)
            if len(cds) == 1 and cds[0][2] == "call" and cds[0][0] in nodes and hir.last(mir.callee_def(cds[0][3]) or "") in ("clone", "to_vec", "to_owned") \
                    and cds[0][3]["args"] and mir.is_place_op(cds[0][3]["args"][0]) and base(cds[0][3]["args"][0]) != old_l:
                src_l = base(cds[0][3]["args"][0])
                if any(d[0] in nodes for d in defs.whole_defs(src_l)):      # .. of the list that is re-assigned each round
                    old_l = src_l
            walked = any(hir.last(mir.callee_def(t) or "") in ("into_iter", "iter") and t["args"] and mir.is_place_op(t["args"][0]) and base(t["args"][0]) == old_l and ib in nodes
                         and any(ib in dom[i_] for i_ in imports) for ib, t in mir.calls(b))
            handed_on = any(d[2] == "assign" and d[0] in nodes and d[3]["rv"]["k"] == "use" and mir.is_place_op(d[3]["rv"]["o"]) and base(d[3]["rv"]["o"]) == new_l for d in defs.whole_defs(old_l))
            found += 1
            r.inst("no-progress test line %s" % st.get("line"), {"line": st.get("line"), "form": "rebuilt list", "round_walks_the_old_list": walked, "fresh_list_becomes_the_next_rounds_list": handed_on})
            if not (walked and handed_on):
                r.bad(b.path, "no-progress test against a count from outside the round", relfile(b.file), st.get("line"),
                      "the list whose length the no-progress test compares with the freshly collected unresolved imports is not the list this round walked (or the fresh list is not what the "
                      "next round walks): a round without progress is not detected and the loop never ends")
    return found


def rule_u11(F):
    """Names are declared in two steps - a stub first (so that items can refer to each other), the definition later - and a repeated
    name is detected when the SECOND STUB meets the first: `insert_declaration(.., update_if)` replaces an existing entry only if
    `update_if` accepts it.  So a declaration that is (or may be) a stub must be inserted with an `update_if` that accepts nothing;
    only a definition may replace a stub.  (If a stub may replace a stub, `enum E { A, A }` passes the stub pass and the definition
    pass then unwraps an Err: the compiler panics instead of reporting the duplicate.)  A method that merely hands its own `kind` and
    predicate parameters on to insert_declaration is the same interface one level up: its callers are judged instead."""
    r = RuleResult("C06.U11", "a stub declaration never replaces an existing stub: repeated names are reported, not carried into the definition pass", floor=8)
    bodies = [b for b in F.bodies_in(["src/typechecker/mod.rs", "src/typechecker/scope.rs", "src/typechecker/function.rs"]) if b.hir and "::tests::" not in b.path]
    # interface: method name -> (index of the kind argument, index of the predicate argument) among the call's arguments (self = 0)
    iface = {"insert_declaration": (2, 4)}

    def lit_false(e):
        e = hir.strip(e or {})
        while e.get("k") == "block" and not (e.get("stmts") or []) and e.get("expr") is not None:
            e = hir.strip(e["expr"])
        return e.get("k") == "lit" and e.get("v") is False

    def accepts_nothing(ld, cl):
        cl = hir.strip(cl)
        if cl.get("k") == "closure":
            return lit_false(cl.get("body"))
        cl = follow(ld, cl)
        if cl.get("k") == "closure":
            return lit_false(cl.get("body"))
        if cl.get("k") == "path" and hir.res_local(cl) is None:
            fb = F.body(hir.res_def(cl) or "")
            return bool(fb is not None and fb.hir and lit_false(fb.hir.get("value")))
        return False

    changed = True
    forwarding = set()        # (body path, call line) of calls that only forward the two parameters
    while changed:
        changed = False
        for b in bodies:
            if "{closure" in b.path:
                continue
            ld = hir.LocalDefs(b.hir)
            pidx = hir.param_index(b.hir)
            for c in hir.nodes(b.hir.get("value") or {}, "mcall"):
                if c["m"] not in iface or len(c["args"]) <= max(iface[c["m"]]):
                    continue
                ki, pi = iface[c["m"]]
                k_, p_ = follow(ld, c["args"][ki]), follow(ld, c["args"][pi])
                kl = hir.res_local(k_) if k_.get("k") == "path" else None
                pl = hir.res_local(p_) if p_.get("k") == "path" else None
                if kl in pidx and pl in pidx:
                    forwarding.add((b.path, c.get("line")))
                    name = hir.last(b.path)
                    if name not in iface:
                        iface[name] = (pidx[kl], pidx[pl])
                        changed = True
    for b in bodies:
        ld = hir.LocalDefs(b.hir)
        for c in hir.nodes(b.hir.get("value") or {}, "mcall"):
            if c["m"] not in iface or len(c["args"]) <= max(iface[c["m"]]) or (b.path, c.get("line")) in forwarding:
                continue
            ki, pi = iface[c["m"]]
            kind = follow(ld, c["args"][ki])

            def payload_state(e, depth=0):
                """'stub' | 'def' | 'maybe' for the payload of a DeclarationKind constructor"""
                e = follow(ld, e)
                if not isinstance(e, dict) or depth > 4:
                    return "maybe"
                k = e.get("k")
                if k == "path":
                    d = hir.res_def(e) or ""
                    if hir.last(d) == "None":
                        return "stub"
                    if hir.res_local(e) is not None:
                        return "maybe"
                    return "def"
                if k == "call":
                    return "def"
                if k == "struct":
                    d = hir.res_def({"res": e.get("path") or {}}) or ""
                    return "stub" if "Stub" in d else "def"
                return "maybe"
            state = "def"
            if kind.get("k") == "call":
                for a in kind.get("args") or []:
                    st_ = payload_state(a)
                    if st_ == "stub":
                        state = "stub"
                        break
                    if st_ == "maybe" and "Option" in str(hir.strip(a).get("ty") or follow(ld, a).get("ty") or ""):
                        state = "maybe"
            elif kind.get("k") == "path" and hir.res_local(kind) is not None:
                state = "maybe"
            nothing = accepts_nothing(ld, c["args"][pi])
            r.inst("%s line %s" % (hir.last(b.path.split("::{closure")[0]), c.get("line")), {"fn": b.path, "line": c.get("line"), "via": c["m"], "declares": state, "replaces_nothing": nothing})
            if state in ("stub", "maybe") and not nothing:
                r.bad(b.path.split("::{closure")[0], "stub inserted with a replacing update_if", relfile(b.file), c.get("line"),
                      "a declaration that %s a stub is inserted with an `update_if` that can accept an existing entry: a repeated name replaces the first stub silently and the duplicate is only "
                      "met by the definition pass, which unwraps the error (`enum Colour { Red, Green, Red }` panics the compiler)" % ("is" if state == "stub" else "may be"))
    return r


def _occurs_fn(F):
    ps = [p for p in F.paths() if p.endswith("::unify_inner")]
    if not ps:
        return None
    ub = F.body(ps[0])
    cands = {}
    ms = [m for m in hir.nodes(ub.hir["value"], "match") if len(m["arms"]) > 8]
    for arm in (ms[0]["arms"] if ms else []):
        if hir.pat_desc(arm["pat"]) in ("(Type::Var(_),_)", "(_,Type::Var(_))"):
            for c in hir.nodes(arm["body"], "mcall"):
                if c["m"] not in ("set", "clone") and c.get("def"):
                    cands[c["def"]] = cands.get(c["def"], 0) + 1
    occ = [d for d, n in cands.items() if n >= 2 and F.has(d)]
    return F.body(occ[0]) if occ else None


def rule_u12(F):
    """The occurs check looks at what a type IS, not at how it is spelled: a type variable that is already bound (its union-find
    class has a compound representative such as `List[?1]`) must be looked through, otherwise `let x = []; let y = [x]; x.push(y)`
    binds ?x to a type that contains ?x behind ?y and the next traversal of the type never terminates.  So the Type whose
    constructor the occurs check dispatches on is the RESOLVED type (result of a function that goes through the union-find), or the
    variable case hands the looked-up binding to a recursive occurs call."""
    from ..callgraph import CallGraph
    r = RuleResult("C06.U12", "the occurs check dispatches on the resolved type (bound type variables are looked through)", floor=1)
    ob = _occurs_fn(F)
    if ob is None or not ob.mir:
        r.missing("occurs-check function called from both Var arms of unify_inner")
        return r
    cg = CallGraph(F)
    finders = {p_ for p_ in F.paths() if "unionfind::UnionFind" in p_ and hir.last(p_).startswith("find")}
    resolvers = set(finders)
    for p_ in F.paths():
        if p_.startswith("typechecker::") and "{closure" not in p_ and p_ != ob.path:
            seen, _ = cg.reachable([p_])
            if seen & finders:
                resolvers.add(p_)
    defs = mir.Defs(ob)

    def from_resolver(local):
        return any((mir.callee(ob.blocks[bi]["term"]) in resolvers or mir.callee_def(ob.blocks[bi]["term"]) in resolvers) for bi in mir.back_calls(ob, defs, local))

    discrs = [(bi, st) for bi, blk in enumerate(ob.blocks) for st in blk["stmts"]
              if st["k"] == "assign" and st["rv"]["k"] == "discr" and str(st["rv"].get("ty") or "").endswith("types::Type")]
    if not discrs:
        r.missing("dispatch on the constructor of a Type in " + ob.path)
        return r
    # the recursive calls of the variable case: occurs(var, <looked-up binding>)
    rec_ok = False
    for bi, t in mir.calls(ob):
        if (mir.callee(t) == ob.path or mir.callee_def(t) == ob.path) and len(t.get("args") or []) >= 3:
            a = t["args"][2]
            if mir.is_place_op(a) and from_resolver(a[1][0]):
                rec_ok = True
    for bi, st in discrs[:1]:
        loc = st["rv"]["p"][0]
        ok = from_resolver(loc) or rec_ok
        r.inst("dispatch at line %s" % st.get("line"), {"fn": ob.path, "scrutinee_resolved": from_resolver(loc), "variable_case_recurses_on_binding": rec_ok})
        if not ok:
            r.bad(ob.path, "dispatch on the unresolved type", relfile(ob.file), st.get("line") or ob.line,
                  "%s dispatches on the constructor of its argument as written, without going through the union-find (resolve_type / find), and does not descend into the binding of a "
                  "variable either: a variable that is already bound to a compound type is taken for 'some other variable', the cyclic binding is accepted and the next traversal "
                  "overflows the stack (`let x = []; let y = [x]; x.push(y);`)" % hir.last(ob.path))
    return r


def rule_u13(F):
    """C09.P12 under C06's id: a scanner that decides 'this literal is terminated' by looking at how the consumed text ENDS accepts a
    lone opening quote as a complete literal - and the parser's `&s[1..s.len() - 1]` on that token panics."""
    from . import c09
    r = c09.rule_p12(F)
    r.rule = "C06.U13"
    r.desc = "no lexer scanner decides by looking backwards over the consumed text (a lone quote is not a terminated literal)"
    for v in r.violations:
        v.rule = "C06.U13"
    return r


def rule_u14(F):
    """What the type checker accepts, the lowering can lower.  Operators on String / IpAddr / List operands are desugared into
    methods (`append`, `new`, `concat`): the type checker records the method for the operators it accepts, and the MIR lowering has
    one dispatcher per operand type that handles exactly some operators and stops with an internal compiler error for the rest.
    Both sides are evaluated (vf/sx) for each of the thirteen binary operators: every (method, operator) the type checker can record
    must be one the lowering handles - otherwise `[1] - [2]` type-checks and compilation panics instead of reporting."""
    from .. import sx
    OPS_ = ["Add", "Sub", "Mul", "Div", "Mod", "Eq", "Ne", "Lt", "Le", "Gt", "Ge", "And", "Or"]
    r = RuleResult("C06.U14", "operator desugaring: every (method, operator) the type checker records is handled by the MIR lowering (no ice! on accepted input)", floor=3)
    tps = [p for p in F.paths() if p.endswith("::binop") and p.startswith("typechecker::expr") and "{closure" not in p]
    if not tps:
        r.missing("typechecker binop")
        return r
    tb = F.body(tps[0])
    opos = [i for i, p_ in enumerate(tb.hir["params"]) if "BinOp" in str(p_.get("ty") or "")]
    if not opos:
        r.missing("the operator parameter of the type checker's binop")
        return r
    topaque = {p for p in F.paths() if p.startswith("typechecker::") and p != tb.path and hir.last(p) in ("expr", "get_function_in_type", "unify", "resolve_type", "fresh_var", "fresh_int", "fresh_float")}
    accepted = {}      # method -> set of operators
    for op in OPS_:
        try:
            paths = sx.Exec(F, opaque=topaque, max_paths=4000).paths(tb.hir, {opos[0]: op})
        except (sx.TooManyPaths, sx.Unknown) as e_:
            r.bad(tb.path, "type checker on " + op, relfile(tb.file), tb.line, "cannot evaluate the type checker's binop on BinOp::%s: %s" % (op, e_))
            continue
        for res, evs in paths:
            for e in evs:
                if e[1] == "get_function_in_type":
                    a = e[3] if e[0] == "mcall" else e[2]
                    m = a[-1] if a else None
                    if isinstance(m, str) and not isinstance(m, sx.Sym):
                        accepted.setdefault(str(m), set()).add(op)
    handled = {}
    for x in F.all_bodies():
        if not x.hir or not x.path.startswith("mir::lower::Lowerer") or "{closure" in x.path:
            continue
        ps_ = x.hir.get("params") or []
        bpos = [i for i, p_ in enumerate(ps_) if "ast::BinOp" in str(p_.get("ty") or "")]
        if not bpos or len([p_ for p_ in ps_ if "Meta<ast::Expr>" in str(p_.get("ty") or "")]) < 2:
            continue
        lop = {p for p in F.paths() if p.startswith("mir::lower") and p != x.path}
        for op in OPS_:
            try:
                paths = sx.Exec(F, opaque=lop).paths(x.hir, {bpos[0]: op})
            except (sx.TooManyPaths, sx.Unknown):
                continue
            for res, evs in paths:
                if res == ("diverges",):
                    continue
                for e in evs:
                    if e[1] == "desugared_binop":
                        a = e[3] if e[0] == "mcall" else e[2]
                        for y in a:
                            if isinstance(y, sx.Str) or (isinstance(y, str) and not isinstance(y, sx.Sym) and y and y[0].islower() and y.isidentifier()):
                                handled.setdefault(str(y), set()).add(op)
    if not accepted or not handled:
        r.missing("desugared operators (type checker records %s, lowering handles %s)" % (sorted(accepted), sorted(handled)))
        return r
    for m in sorted(accepted):
        ops = accepted[m]
        hs = handled.get(m, set())
        r.inst("method %s" % m, {"method": m, "type_checker_records_it_for": sorted(ops), "lowering_handles": sorted(hs)})
        for op in sorted(ops - hs):
            r.bad(tb.path, "`%s` desugared to %s" % (op, m), relfile(tb.file), tb.line,
                  "the type checker accepts BinOp::%s on an operand that is desugared into the method `%s`, but the MIR lowering only handles %s for it and stops with an internal "
                  "compiler error otherwise: a script the type checker accepts makes compilation panic" % (op, m, sorted(hs) or "nothing"))
    return r


def rule_u15(F):
    """Type checking terminates in reasonable time: a checker method that visits a sub-expression twice on ONE path doubles the work
    at every level of nesting (`a + b + c + ..`: 2^n visits; a sum of 30 terms took an hour before 25f6870).  The operator checker is
    evaluated (vf/sx) for every binary operator: on no path is an operand handed to `expr` more than once."""
    from .. import sx
    OPS_ = ["Add", "Sub", "Mul", "Div", "Mod", "Eq", "Ne", "Lt", "Le", "Gt", "Ge", "And", "Or"]
    r = RuleResult("C06.U15", "the operator type checker visits each operand at most once per path (no exponential re-checking of nested operands)", floor=13)
    tps = [p for p in F.paths() if p.endswith("::binop") and p.startswith("typechecker::expr") and "{closure" not in p]
    if not tps:
        r.missing("typechecker binop")
        return r
    tb = F.body(tps[0])
    opos = [i for i, p_ in enumerate(tb.hir["params"]) if "BinOp" in str(p_.get("ty") or "")]
    enames = [p_.get("name") for p_ in tb.hir["params"] if "Meta<ast::Expr>" in str(p_.get("ty") or "")]
    if not opos or len(enames) < 2:
        r.missing("operator / operand parameters of the type checker's binop")
        return r
    topaque = {p for p in F.paths() if p.startswith("typechecker::") and p != tb.path and hir.last(p) in ("expr", "get_function_in_type", "unify", "resolve_type", "fresh_var", "fresh_int", "fresh_float")}
    for op in OPS_:
        try:
            paths = sx.Exec(F, opaque=topaque, max_paths=4000).paths(tb.hir, {opos[0]: op})
        except (sx.TooManyPaths, sx.Unknown) as e_:
            r.bad(tb.path, "visits on " + op, relfile(tb.file), tb.line, "cannot evaluate the type checker's binop on BinOp::%s: %s" % (op, e_))
            continue
        worst = {}
        for res, evs in paths:
            for nm in enames:
                n = sum(1 for e in evs if e[0] == "mcall" and e[1] == "expr" and e[3] and isinstance(e[3][-1], sx.Sym) and str(e[3][-1]) == nm)
                worst[nm] = max(worst.get(nm, 0), n)
        r.inst("BinOp::%s" % op, {"operator": op, "paths": len(paths), "most_visits_of_an_operand_on_one_path": worst})
        for nm, n in worst.items():
            if n > 1:
                r.bad(tb.path, "operand `%s` checked %d times for %s" % (nm, n, op), relfile(tb.file), tb.line,
                      "on one path of the operator checker the operand `%s` of BinOp::%s is type-checked %d times: nested operators multiply (a chain of n operators costs %d^n visits), "
                      "so compilation of an ordinary long sum practically never ends" % (nm, op, n, n))
    return r


def rule_u16(F):
    """Discovery of a script directory terminates on every file tree: the recursive walk (`find_files` -> `process_subdir` ->
    `find_files`) descends only into entries that ARE directories - decided by `DirEntry::file_type`, which does not follow symbolic
    links.  A test that follows links (`Path::is_dir`, `fs::metadata`, `Path::exists` + read_dir) walks a link back into the tree
    again and again; nothing records visited directories (two links `util/a -> .`, `util/b -> .`: 2^40 directory reads)."""
    r = RuleResult("C06.U16", "module discovery recurses only into real directories (the test does not follow symbolic links): the walk terminates on cyclic links", floor=1)
    fam = [b for b in F.bodies_in(["src/file_tree.rs"]) if b.mir and "::tests::" not in b.path and "{closure" not in b.path]
    by = {b.path: b for b in fam}
    # the recursive family: functions from which a read_dir is reachable and that are reachable from themselves
    def callees(b):
        return {mir.callee(t) for _, t in mir.calls(b) if (mir.callee(t) or "") in by}
    rec = set()
    for b in fam:
        seen, work = set(), list(callees(b))
        while work:
            x = work.pop()
            if x in seen:
                continue
            seen.add(x)
            work += list(callees(by[x]))
        if b.path in seen:
            rec.add(b.path)
    if not rec:
        r.missing("the recursive directory walk in src/file_tree.rs")
        return r
    FOLLOWS = ("std::path::Path::is_dir", "std::path::Path::is_file", "std::fs::metadata", "std::path::Path::metadata", "std::fs::canonicalize", "std::path::Path::canonicalize", "std::path::Path::read_link")
    for p in sorted(rec):
        b = by[p]
        if not any((mir.callee_def(t) or "").endswith("fs::read_dir") for _, t in mir.calls(b)):
            continue
        defs = mir.Defs(b)
        descents = [(bi, t) for bi, t in mir.calls(b) if (mir.callee(t) or "") in rec or any((mir.callee(t) or "") == q for q in by if by[q].path in rec)]
        follows = [(bi, t) for bi, t in mir.calls(b) if (mir.callee_def(t) or "") in FOLLOWS]
        typed = [bi for bi, t in mir.calls(b) if (mir.callee_def(t) or "").endswith("DirEntry::file_type")]
        dom = mir.dominators(b)
        ok = bool(descents) and all(any(tb in dom[db] for tb in typed) for db, _ in descents)
        r.inst("%s" % p, {"fn": p, "descents": len(descents), "decided_by_DirEntry_file_type": ok, "link_following_tests": [hir.last(mir.callee_def(t)) for _, t in follows]})
        if not ok or follows:
            r.bad(p, "descent decided by a test that follows symbolic links", relfile(b.file), (follows[0][1].get("line") if follows else b.line),
                  "%s descends into an entry without DirEntry::file_type having been asked on the way (or asks %s, which follows symbolic links): a link back into the tree is walked "
                  "again and again, the discovery of a script directory with two such links practically never ends" % (hir.last(p), [hir.last(mir.callee_def(t)) for _, t in follows] or "nothing"))
    return r


def block_typestate(F, files, prefix, builder="Lowerer", terminators=("Jump", "Switch", "Return"), instr_adt="Instruction", input_instr="mir::Instruction"):
    """Typestate of the block under construction in an IR builder (`emit` pushes onto the last block; a push onto `blocks` opens
    one): after a terminator has been emitted the block is CLOSED, and nothing may be emitted before the next block is opened.  A
    freshly made builder has no block at all (same state).  Interprocedural may-analysis over the MIR of the builder's methods:
    every method that works on `&mut builder` gets a summary (may it emit when entered with a closed block; which states it can
    leave behind for each entry state), computed to a fixpoint; the primitive `emit` is read at its call sites (the variant of the
    instruction it is handed).  Functions without a builder of their own (`fn item(ctx, ..)`) make one: they are examined from the
    point where they make it.  Returns (functions examined, [(body, line, callee, what)], summaries)."""
    bodies = [b for b in F.bodies_in(files) if b.mir and "::tests::" not in b.path and b.path.startswith(prefix)]
    by = {b.path: b for b in bodies}
    prim_emit = {p_ for p_ in by if hir.last(p_) == "emit" and "{closure" not in p_}
    if not prim_emit:
        return None

    def is_method(b):
        ls = b.mir["locals"]
        return b.mir.get("argc", 0) >= 1 and builder in str(ls[1].get("ty") or "") and str(ls[1].get("ty") or "").startswith("&")
    summ = {p_: {"bad": False, "exit": {"O": set(), "C": set()}, "emits": False} for p_, b in by.items() if p_ not in prim_emit and (is_method(b) or "{closure" in p_)}
    statics = [b for p_, b in by.items() if p_ not in summ and p_ not in prim_emit]
    # the translator of ONE instruction of the input IR (`fn instruction(&mut self, i: mir::Instruction)`): the order of the input
    # block is not this builder's doing - a well-formed input block has its terminator last, which the same typestate establishes
    # for the builder that made the input; its calls are taken to happen in an open block, and said so in the evidence
    translators = {p_ for p_ in summ if input_instr and any(str(l_.get("ty") or "").endswith(input_instr) for l_ in by[p_].mir["locals"][2:1 + by[p_].mir.get("argc", 0)])}
    defs_of = {}

    def D(b):
        return defs_of.setdefault(b.path, mir.Defs(b))

    def variant_of(b, op):
        """the Instruction variant handed to emit, when it is built in place"""
        if not mir.is_place_op(op):
            return None
        l = op[1][0]
        for _ in range(6):
            ds = D(b).whole_defs(l)
            if len(ds) != 1 or ds[0][2] != "assign":
                return None
            rv = ds[0][3]["rv"]
            if rv["k"] == "agg" and hir.last(rv.get("adt") or "") == instr_adt:
                return rv.get("variant")
            if rv["k"] == "use" and mir.is_place_op(rv["o"]) and len(rv["o"][1]) == 1:
                l = rv["o"][1][0]
                continue
            return None
        return None

    def closures_given(b, t):
        out = []
        for a in t["args"]:
            if mir.is_place_op(a):
                for x in D(b).whole_defs(a[1][0]):
                    if x[2] == "assign" and x[3]["rv"]["k"] == "agg" and x[3]["rv"].get("ak") == "closure" and (x[3]["rv"].get("def") or "") in summ:
                        out.append(x[3]["rv"]["def"])
        return out

    def steps_of(b, blk):
        t = blk["term"]
        steps = []
        for st in blk["stmts"]:
            if st["k"] == "assign" and st["rv"]["k"] == "agg" and hir.last(st["rv"].get("adt") or "") == builder:
                steps.append(("fresh", None, st.get("line")))
        if t["k"] != "call":
            return steps
        c = mir.callee(t) or ""
        cd = mir.callee_def(t) or ""
        if c in prim_emit:
            steps.append(("emit", variant_of(b, t["args"][1]) if len(t["args"]) > 1 else None, t.get("line")))
        elif hir.last(cd) == "push" and "Vec" in cd and t["args"] and mir.is_place_op(t["args"][0]):
            k = mir.origin_key(b, D(b), t["args"][0][1])
            if k.endswith(".blocks") or ".blocks." in k or k.endswith("blocks"):
                steps.append(("open", None, t.get("line")))
            elif "instructions" in k:
                steps.append(("emit", variant_of(b, t["args"][1]) if len(t["args"]) > 1 else None, t.get("line")))
        elif c in summ and c in translators:
            steps.append(("translate", c, t.get("line")))
        elif c in summ:
            steps.append(("call", c, t.get("line")))
        elif c in by and builder in str(by[c].mir["locals"][0].get("ty") or ""):
            steps.append(("fresh", None, t.get("line")))      # a constructor of the builder
        for cl in closures_given(b, t):
            steps.append(("call", cl, t.get("line")))
        return steps

    def run(b, entry, report=None):
        """(may emit while closed, exit states, emits at all) of body b entered in state `entry`"""
        nb = len(b.blocks)
        sin = [set() for _ in range(nb)]
        sin[0] = {entry}
        work = [0]
        bad = False
        emits = False
        fin = set()
        while work:
            bi = work.pop()
            blk = b.blocks[bi]
            if blk.get("cleanup"):
                continue
            out = set(sin[bi])
            for kind, x, ln in steps_of(b, blk):
                if kind == "emit":
                    emits = True
                    if "C" in out:
                        bad = True
                        if report is not None:
                            report.append((b, ln, "emit", "Instruction::%s" % (x or "?")))
                    out = {"C"} if x in terminators else {"O"}
                elif kind == "open":
                    out = {"O"}
                elif kind == "fresh":
                    out = {"C"}
                elif kind == "translate":
                    emits = emits or summ[x]["emits"]
                    out = set(summ[x]["exit"]["O"]) or {"O"}
                else:
                    sm = summ[x]
                    emits = emits or sm["emits"]
                    if "C" in out and sm["bad"]:
                        bad = True
                        if report is not None:
                            report.append((b, ln, hir.last(x), "which emits before it opens a block"))
                    nxt = set()
                    for s_ in out:
                        nxt |= (sm["exit"][s_] or {s_})
                    out = nxt
            if blk["term"]["k"] == "return":
                fin |= out
            for sx_ in mir.succs(blk):
                if b.blocks[sx_].get("cleanup"):
                    continue
                if not out <= sin[sx_]:
                    sin[sx_] |= out
                    work.append(sx_)
        return bad, fin, emits

    changed = True
    rounds = 0
    while changed and rounds < 30:
        changed = False
        rounds += 1
        for p_, sm in summ.items():
            b = by[p_]
            for entry in ("O", "C"):
                bad, fin, emits = run(b, entry)
                if entry == "C" and bad and not sm["bad"]:
                    sm["bad"] = True
                    changed = True
                if not fin <= sm["exit"][entry]:
                    sm["exit"][entry] |= fin
                    changed = True
                if emits and not sm["emits"]:
                    sm["emits"] = True
                    changed = True
    reports = []
    examined = 0
    for p_ in sorted(summ):
        if summ[p_]["emits"]:
            examined += 1
            run(by[p_], "O", reports)
    for b in statics:
        # examined from where they make their builder; before that there is nothing to emit into, which `fresh` says as well
        bad, fin, emits = run(b, "O", reports)
        if emits:
            examined += 1
    seen = set()
    uniq = []
    for b, ln, callee, what in reports:
        k = (b.path, ln, callee)
        if k not in seen:
            seen.add(k)
            uniq.append((b, ln, callee, what))
    return examined, uniq, summ, sorted(translators)


def rule_u17(F):
    """No instruction is emitted into a block that already has its terminator.  The LIR builder pushes every instruction onto the
    last block; the code generator hands each block to Cranelift, which panics ('you cannot add an instruction to a block already
    filled') when something follows a jump, switch or return - and a label that a switch names but no `new_block` ever opened is
    a missing block.  So between a terminator and the next `emit` there is a `new_block` on every path, across helpers
    (`generate_eq_body_enum` returned `true` for a variant with an uninhabited field BEFORE it opened the variant's block:
    `None == None` aborted the compiler)."""
    r = RuleResult("C06.U17", "LIR builder typestate: nothing is emitted behind a terminator (jump / switch / return) before the next new_block, on every path and through helpers", floor=20)
    res = block_typestate(F, ["src/lir/lower.rs", "src/lir/lower/clones.rs", "src/lir/lower/drops.rs", "src/lir/lower/eq.rs"], "lir::lower")
    if res is None:
        r.missing("Lowerer::emit / Lowerer::new_block in src/lir/lower.rs")
        return r
    sites, reports, summ, translators = res
    r.note("taken to be called in an open block (translators of one input instruction; the input block is well-formed): %s" % ", ".join(translators))
    for p_ in sorted(summ):
        if summ[p_]["emits"]:
            r.inst(p_, {"fn": p_, "may_emit_before_opening_a_block": summ[p_]["bad"], "leaves_block": {k: sorted(v) for k, v in summ[p_]["exit"].items()}})
    for b, ln, callee, what in reports:
        r.bad(b.path, "emission behind a terminator (%s)" % callee, relfile(b.file), ln or b.line,
              "%s can call %s (%s) while the block under construction already ends in a jump, switch or return and no new_block has been opened since: the instruction lands behind "
              "the terminator (Cranelift panics on it) and the block the terminator names may never be created" % (hir.last(b.path), callee, what))
    return r


def rule_u18(F):
    """More variants than the one-byte tag distinguishes abort the compiler (Cranelift's switch builder panics on an entry that does
    not fit the index type): the bound on the number of variants of a declared enum, shared with C02.L11."""
    from . import c02
    r = c02.rule_l11(F)
    r.rule = "C06.U18"
    r.desc = "a declared enum with more variants than its one-byte tag distinguishes is refused with a report (not carried into a switch that aborts the compiler)"
    for v in r.violations:
        v.rule = "C06.U18"
    return r


def rule_u19(F):
    """Every location a report cites lies inside the cited file: the renderer works in CHARACTER positions, spans are BYTE ranges,
    and `Span::character_range` is the one conversion.  Both ends of what it returns are sums of character counts
    (`chars().count()` of a slice of the file); the span's byte offsets are used as slice bounds only and never arithmetically.
    (`end = start + (self.end - self.start)` is right for ASCII and, for a span that contains multi-byte characters, points behind
    the span - behind the end of the file for an error in the last line, where the renderer drops the excerpt.)  The reverse
    direction of the unit discipline U1."""
    r = RuleResult("C06.U19", "Span::character_range: both ends are sums of character counts; byte offsets of the span never enter the arithmetic", floor=2)
    ps = [p for p in F.paths() if p.endswith("Span::character_range")]
    if not ps:
        r.missing("parser::meta::Span::character_range")
        return r
    b = F.body(ps[0])
    if b is None or not b.mir:
        r.missing("MIR of Span::character_range")
        return r
    defs = mir.Defs(b)
    argc = b.mir["argc"]

    def leaves(l, depth=0, seen=None):
        """what a number is computed from by arithmetic and copies: calls (by callee name) and fields of the parameters"""
        seen = seen if seen is not None else set()
        if l in seen or depth > 30:
            return set()
        seen.add(l)
        if 1 <= l <= argc:
            return {"arg%d" % l}
        out = set()
        for d in defs.defs.get(l, []):
            if d[2] == "call":
                out.add("call:" + hir.last(mir.callee_def(d[3]) or mir.callee(d[3]) or "?"))
            elif d[2] == "assign":
                rv = d[3]["rv"]
                ops = [rv[k] for k in ("o", "a", "b") if k in rv] + list(rv.get("ops") or [])
                if "p" in rv and rv["k"] not in ("ref", "rawptr"):
                    ops.append(["cp", rv["p"]])
                for o in ops:
                    if not mir.is_place_op(o):
                        continue
                    pl = o[1]
                    if 1 <= pl[0] <= argc:
                        out.add("arg%d%s" % (pl[0], "".join("." + x for x in mir.normalize_path(mir.proj_str(pl[1:])))))
                    else:
                        out |= leaves(pl[0], depth + 1, seen)
        return out
    n = 0
    for bi, blk in enumerate(b.blocks):
        for st in blk["stmts"]:
            if st["k"] == "assign" and st["p"] == [0] and st["rv"]["k"] == "agg":
                for name, o in zip(st["rv"].get("fields") or ["start", "end"], st["rv"].get("ops") or []):
                    if not mir.is_place_op(o):
                        continue
                    n += 1
                    lv = leaves(o[1][0])
                    bytes_ = sorted(x for x in lv if x.startswith("arg"))
                    r.inst("returned %s" % name, {"computed_from": sorted(lv)})
                    if bytes_ or "call:count" not in lv:
                        r.bad(b.path, "character position computed from byte offsets (%s)" % name, relfile(b.file), st.get("line") or b.line,
                              "the `%s` of the character range is computed from %s: for a span that contains multi-byte characters it lies behind the span, for an error at the end of "
                              "the file behind the file - the report is rendered without its source excerpt" % (name, bytes_ or sorted(lv)))
    if n == 0:
        r.missing("the Range returned by Span::character_range")
    return r


def rules(ctx):
    F = ctx["F"]
    return [rule_u1(F), rule_u2(F), rule_u3(F), rule_u3b(F), rule_u4(F), rule_u5(F), rule_u6(F), rule_u7(F), rule_u8(F), rule_u9(F), rule_u10(F), rule_u11(F), rule_u12(F), rule_u13(F), rule_u14(F), rule_u15(F), rule_u16(F), rule_u17(F), rule_u18(F), rule_u19(F)]


def canary(C):
    bodies = [b for b in C.all_bodies() if b.mir]
    r = rule_u1(C, bodies=bodies)
    return [{"rule": "C06.U1", "fired": [v.key for v in r.violations], "expect_min": 3}]
