"""C20 - the IR evaluator agrees with the compiled code or stops loudly."""
import re

from .. import hir, mir
from ..facts import relfile
from ..report import RuleResult
from .c01 import roots, find_body, eval_table, field_roots

EXPLANATION = (
    "The evaluator is written as a mirror of the code generator; mirror agreement is a sibling-table fact decided on the HIR: "
    "V1 for every lir::Instruction variant the evaluator's arm has the operator class, accessor signedness and operand wiring that "
    "correspond to what C01 extracts from the code generator (IntCmp::ULt <-> as_u64 '<' <-> UnsignedLessThan, Sub <-> l - r, "
    "Not <-> !x <-> icmp_imm(Equal,x,0), same-variant rows for arithmetic, ...); V2 every wildcard arm over IrValue/IrType/"
    "Instruction/Pointer in lir::eval and lir::value diverges (panics) instead of producing a value; V3 Allocation::read/write assert "
    "bounds and alignment before slicing and Memory::write/read_slice compare the frame id before touching a frame; V4 the "
    "IrValue/IrType diagonals (from_slice, as_vec, From/TryFrom of simple values) map variant X to X. Equality of results over all "
    "scripts is not decided."
)
EXPLANATION += (
    " V6 IrValue's PartialEq (used for IntCmp/FloatCmp Eq and Ne) compares same variants with plain `==` on the payload (IEEE for floats, as fcmp Equal) and diverges otherwise."
)
EXPLANATION += (  # round-3 supplement
    ' V1 evaluates float comparison rows written via partial_cmp to the set of orderings for which they are true. V7 pointer offsetting accumulates (old position + offset).'
)
EXPLANATION += (
    ' V8 host calls made by the evaluator: in every RegisterableFn::ir_function closure (16 macro instances) the j-th parameter handed to the trampoline is the from_ir_value conversion of IR argument j (argument 0 being the out pointer). V9 Allocation::get returns the address at the given offset (element index, slice from the offset, or advanced base pointer).'
)
ASSUMPTIONS = [
    "Rust arithmetic on the evaluator's native integers either equals cranelift's wrapping arithmetic or panics (debug overflow checks) - both acceptable for 'agree or stop loudly'",
    "host-call sequences and results over all scripts are not decided statically",
]

ARITH = {"Instruction::Add": "+", "Instruction::Sub": "-", "Instruction::Mul": "*", "Instruction::Div": "/", "Instruction::FDiv": "/", "Instruction::Mod": "%"}
CMPOP = {"Lt": "<", "Le": "<=", "Gt": ">", "Ge": ">="}


def arm_named(rows, name):
    for rw in rows:
        if any(a == name or a.startswith(name + "{") or a.startswith(name + "(") for a in rw["alts"]):
            return rw
    return None


FLOAT_TRUTH = {"Lt": {"L"}, "Le": {"L", "E"}, "Gt": {"G"}, "Ge": {"G", "E"}, "Eq": {"E"}, "Ne": {"L", "G", "U"}}
ORD_METHODS = {"is_lt": {"L"}, "is_le": {"L", "E"}, "is_gt": {"G"}, "is_ge": {"G", "E"}, "is_eq": {"E"}, "is_ne": {"L", "G"}}
ALL4 = {"L", "E", "G", "U"}


def _outcomes_of_pattern(desc):
    """Outcomes (L/E/G/U) a pattern over Option<Ordering> accepts, from its textual description."""
    out = set()
    for alt in desc:
        if alt == "_":
            return set(ALL4)
        if alt.endswith("None"):
            out.add("U")
        for nm, o in (("Less", "L"), ("Equal", "E"), ("Greater", "G")):
            if "Ordering::" + nm in alt:
                out.add(o)
        if re.search(r"Some\(_\)$", alt):
            out |= {"L", "E", "G"}
    return out


def ordering_truth(ld, body):
    """If `body` decides a float comparison from `left.as_f64().partial_cmp(&right.as_f64())`, return (set of outcomes for which it
    is true, operand roots, accessors); otherwise None. Outcomes: L, E, G and U (unordered: partial_cmp gave None)."""
    body = hir.strip(body)
    ordnode = {}

    def find_ord(e):
        """the partial_cmp call an expression denotes (directly or through a let)"""
        e = hir.peel_refs(hir.strip(e))
        if e.get("k") == "mcall" and e["m"] == "partial_cmp":
            return e
        if e.get("k") == "call" and not e.get("args"):
            # `let ord = || a.partial_cmp(&b); .. ord()`
            f = hir.peel_refs(hir.strip(e["f"]))
            if f.get("k") == "path" and hir.res_local(f) is not None:
                d = ld.get(hir.res_local(f))
                init = hir.strip(d[1]) if d and d[1] is not None else {}
                if init.get("k") == "closure" and not init.get("params"):
                    return find_ord(init.get("body") or {})
            return None
        if e.get("k") == "block" and not e.get("stmts") and e.get("expr") is not None:
            return find_ord(e["expr"])
        if e.get("k") == "path" and hir.res_local(e) is not None:
            d = ld.get(hir.res_local(e))
            if d and d[1] is not None and not (d[2] and d[2][0] == "arm"):
                return find_ord(d[1])
        return None

    def some_ordering(e):
        e = hir.strip(e)
        if e.get("k") == "call" and hir.last(hir.call_def(e) or "") == "Some" and e["args"]:
            a = hir.strip(e["args"][0])
            nm = hir.last(hir.res_def(a) or "") if a.get("k") == "path" else ""
            return {"Less": "L", "Equal": "E", "Greater": "G"}.get(nm)
        if e.get("k") == "path" and hir.last(hir.res_def(e) or "") == "None":
            return "U"
        return None

    def ev(e):
        e = hir.strip(e)
        k = e.get("k")
        if k == "bin" and e.get("op") in ("==", "!="):
            for x, y in ((e["a"], e["b"]), (e["b"], e["a"])):
                pc = find_ord(x)
                o = some_ordering(y)
                if pc is not None and o is not None:
                    ordnode["pc"] = pc
                    return {o} if e["op"] == "==" else ALL4 - {o}
            return None
        if k == "bin" and e.get("op") in ("&&", "||"):
            a, b_ = ev(e["a"]), ev(e["b"])
            if a is None or b_ is None:
                return None
            return (a & b_) if e["op"] == "&&" else (a | b_)
        if k == "un" and e.get("op") == "!":
            a = ev(e["a"])
            return None if a is None else ALL4 - a
        if k == "match":
            pc = find_ord(e["e"])
            if pc is None:
                return None
            ordnode["pc"] = pc
            truth = set()
            taken = set()
            for arm in e["arms"]:
                if arm.get("guard"):
                    return None
                acc = _outcomes_of_pattern(hir.pat_alternatives(arm["pat"])) - taken
                taken |= acc
                v = hir.strip(arm["body"])
                if v.get("k") != "lit" or not isinstance(v.get("v"), bool):
                    return None
                if v["v"]:
                    truth |= acc
            return truth
        if k == "mcall" and e["m"] in ("is_some_and", "map_or") and find_ord(e["recv"]) is not None:
            args = e["args"]
            if e["m"] == "map_or":
                d0 = hir.strip(args[0])
                if d0.get("k") != "lit" or not isinstance(d0.get("v"), bool) or len(args) < 2:
                    return None
                default, f = d0["v"], args[1]
            else:
                default, f = False, args[0]
            f = hir.strip(f)
            name = None
            if f.get("k") == "path":
                name = hir.last(hir.res_def(f) or "")
            elif f.get("k") == "closure":
                cb = hir.strip(f.get("body") or {})
                if cb.get("k") == "mcall":
                    name = cb["m"]
            if name not in ORD_METHODS:
                return None
            ordnode["pc"] = find_ord(e["recv"])
            return ORD_METHODS[name] | ({"U"} if default else set())
        return None
    truth = ev(body)
    if truth is None or "pc" not in ordnode:
        return None
    pc = ordnode["pc"]
    sides = []
    accs = []
    for sx in (pc["recv"], pc["args"][0]):
        sx = hir.peel_refs(hir.strip(sx))
        accs.append(sx["m"] if sx.get("k") == "mcall" and sx["m"].startswith("as_") else None)
        sides.append(sorted(field_roots(ld, sx) - {"vars", "param:vars"}))
    return truth, sides, accs


def rule_v1(F):
    r = RuleResult("C20.V1", "per-instruction agreement of the evaluator's arms with the code generator's", floor=10 + 6 + 40 + 2 + 6)
    b = find_body(F, "lir::eval::eval", r)
    if not b:
        return r
    ld = hir.LocalDefs(b.hir)
    ms = hir.find_match_on(b.hir["value"], "Instruction::", min_arms=15)
    if not ms:
        r.missing("match over lir::Instruction in lir::eval::eval")
        return r
    rows = hir.table(ms[0])
    # every variant of lir::Instruction has an arm, no catch-all
    adt = F.adt("lir::Instruction")
    if adt is None:
        r.missing("lir::Instruction")
    else:
        for v in adt["variants"]:
            rw = arm_named(rows, "Instruction::" + v["name"])
            r.inst("arm " + v["name"])
            if rw is None:
                r.bad(b.path, "arm " + v["name"], relfile(b.file), b.line, "the evaluator has no arm for Instruction::%s" % v["name"])
        for rw in rows:
            if "_" in rw["alts"] and not hir.diverges(rw["body"]):
                r.bad(b.path, "catch-all", relfile(b.file), rw["line"], "catch-all arm over Instruction does not diverge")
    # IntCmp / FloatCmp
    for iname, enum, acc in (("Instruction::IntCmp", "IntCmp::", None), ("Instruction::FloatCmp", "FloatCmp::", "as_f64")):
        rw = arm_named(rows, iname)
        if rw is None:
            continue
        inner = hir.find_match_on(rw["body"], enum)
        cld, pmap = ld, {}
        if not inner:
            # the table may live in a helper of the evaluator (`compare_ints(cmp, left, right)`): read it there, with the helper's
            # parameters standing for what the arm hands over
            for c in list(hir.nodes(rw["body"], "call")) + list(hir.nodes(rw["body"], "mcall")):
                hb = F.body(hir.call_def(c) or "") if (hir.call_def(c) or "").startswith("lir::eval::") else None
                if hb is None or not hb.hir or not hir.find_match_on(hb.hir["value"], enum):
                    continue
                inner = hir.find_match_on(hb.hir["value"], enum)
                cld = hir.LocalDefs(hb.hir)
                args = ([c["recv"]] if c.get("k") == "mcall" else []) + list(c["args"])
                for p_, a_ in zip(hb.hir.get("params") or [], args):
                    ar = field_roots(ld, a_) - {"vars", "param:vars"}
                    if len(ar) == 1:
                        pmap["param:" + str(p_.get("name"))] = next(iter(ar))
                break
        if not inner:
            r.bad(b.path, iname, relfile(b.file), rw["line"], "no match over %s in the %s arm" % (enum, iname))
            continue

        def fix(rs):
            return {pmap.get(x, x) for x in rs}
        e_adt = F.adt("lir::" + enum[:-2])
        variants = [v["name"] for v in e_adt["variants"]] if e_adt else []
        irows = hir.table(inner[0])
        for v in variants:
            row = arm_named(irows, enum + v)
            key = "%s%s" % (enum, v)
            if row is None:
                r.bad(b.path, key, relfile(b.file), rw["line"], "no evaluator row for %s" % key)
                continue
            body = hir.strip(row["body"])
            if v in ("Eq", "Ne"):
                want_op, want_acc = ("==" if v == "Eq" else "!="), None
            else:
                want_op = CMPOP.get(v[-2:])
                want_acc = acc or ("as_u64" if v[0] == "U" else "as_i64")
            if enum == "FloatCmp::":
                tt = ordering_truth(cld, body)
                if tt is not None:
                    truth, operands, accs = tt
                    operands = [sorted(fix(o)) for o in operands]
                    want = FLOAT_TRUTH[v]
                    r.inst(key, {"row": key, "form": "partial_cmp", "true_for": sorted(truth), "expected": sorted(want), "operands": operands})
                    if truth != want:
                        r.bad(b.path, key, relfile(b.file), row["line"],
                              "%s is true for the orderings %s (U = unordered, a NaN operand), the compiled fcmp condition is true for %s" % (key, sorted(truth), sorted(want)))
                    if operands != [["left"], ["right"]] or accs != ["as_f64", "as_f64"]:
                        r.bad(b.path, key + " operand order", relfile(b.file), row["line"], "%s compares %s via %s, expected left.as_f64() with right.as_f64()" % (key, operands, accs))
                    continue
            if body.get("k") != "bin":
                r.inst(key, {"row": key, "shape": body.get("k")})
                r.bad(b.path, key, relfile(b.file), row["line"], "row for %s is not a comparison expression" % key)
                continue
            op = body["op"]
            sides = []
            for s in (body["a"], body["b"]):
                s = hir.strip(s)
                a = s["m"] if s.get("k") == "mcall" and s["m"].startswith("as_") else None
                sides.append((a, fix(field_roots(cld, s) - {"vars", "param:vars"})))
            r.inst(key, {"row": key, "op": op, "accessors": [sides[0][0], sides[1][0]], "operands": [sorted(sides[0][1]), sorted(sides[1][1])]})
            if op != want_op:
                r.bad(b.path, key, relfile(b.file), row["line"], "%s is evaluated with `%s`, the code generator uses the condition for `%s`" % (key, op, want_op))
            if sides[0][0] != want_acc or sides[1][0] != want_acc:
                r.bad(b.path, key + " accessor", relfile(b.file), row["line"], "%s reads its operands with %s/%s, expected %s" % (key, sides[0][0], sides[1][0], want_acc))
            if sides[0][1] != {"left"} or sides[1][1] != {"right"}:
                r.bad(b.path, key + " operand order", relfile(b.file), row["line"], "%s compares %s with %s, expected left with right" % (key, sorted(sides[0][1]), sorted(sides[1][1])))
    # arithmetic
    for iname, sym in ARITH.items():
        rw = arm_named(rows, iname)
        if rw is None:
            continue
        inner = hir.find_match_on(rw["body"], "IrValue::")
        if not inner:
            r.bad(b.path, iname, relfile(b.file), rw["line"], "no value table in the %s arm" % iname)
            continue
        m = inner[0]
        sroots = [field_roots(ld, x) - {"vars", "param:vars"} for x in (m["e"].get("elems") or [])]
        if sroots != [{"left"}, {"right"}]:
            r.bad(b.path, iname + " operand order", relfile(b.file), m["line"], "%s matches on %s, expected (left, right)" % (iname, sroots))
        for row in hir.table(m):
            for a in row["alts"]:
                mm = re.match(r"^\(IrValue::(\w+)\(_\),IrValue::(\w+)\(_\)\)$", a)
                if a == "_":
                    r.inst("%s fallback" % iname)
                    if not hir.diverges(row["body"]):
                        r.bad(b.path, iname + " fallback", relfile(b.file), row["line"], "unsupported operand types of %s do not stop the evaluator" % iname)
                    continue
                if not mm:
                    continue
                key = "%s %s" % (iname, mm.group(1))
                body = hir.strip(row["body"])
                res = hir.short_result(body)
                ok_shape = body.get("k") == "call" and len(body["args"]) == 1 and hir.strip(body["args"][0]).get("k") == "bin"
                r.inst(key, {"row": a, "result": res})
                if mm.group(1) != mm.group(2) or res != "IrValue::%s(..)" % mm.group(1):
                    r.bad(b.path, key, relfile(b.file), row["line"], "row %s produces %s (variant mismatch)" % (a, res))
                if not ok_shape:
                    r.bad(b.path, key, relfile(b.file), row["line"], "row %s is not `IrValue::X(l %s r)`" % (a, sym))
                    continue
                bn = hir.strip(body["args"][0])
                la = hir.res_local(hir.peel_refs(bn["a"]))
                lb = hir.res_local(hir.peel_refs(bn["b"]))
                pa = ld.get(la)[2] if la is not None and ld.get(la) else None
                pb = ld.get(lb)[2] if lb is not None and ld.get(lb) else None
                if bn["op"] != sym:
                    r.bad(b.path, key, relfile(b.file), row["line"], "%s on %s is evaluated with `%s`, expected `%s`" % (iname, mm.group(1), bn["op"], sym))
                if not (pa and pb and pa[1] == 0 and pb[1] == 1):
                    r.bad(b.path, key + " operand order", relfile(b.file), row["line"], "%s on %s does not compute left %s right (operands swapped or foreign)" % (iname, mm.group(1), sym))
    # Not
    rw = arm_named(rows, "Instruction::Not")
    if rw is not None:
        nots = [n for n in hir.nodes(rw["body"], "un") if n.get("op") == "!"]
        ctor = [c for c in hir.nodes(rw["body"], "call") if (hir.call_def(c) or "").endswith("IrValue::Bool")]
        ok = False
        for c in ctor:
            arg = c["args"][0]
            if any(n.get("k") == "un" and n.get("op") == "!" for n in hir.walk(arg)):
                ok = True
            l = hir.res_local(hir.peel_refs(arg))
            if l is not None and ld.get(l) and ld.get(l)[1] is not None:
                if any(n.get("k") == "un" and n.get("op") == "!" for n in hir.walk(ld.get(l)[1])):
                    ok = True
        r.inst("Instruction::Not", {"negations": len(nots), "stores_negated_value": ok})
        if not ok:
            r.bad(b.path, "Instruction::Not", relfile(b.file), rw["line"],
                  "the Not arm stores its operand without negating it (code generator: icmp_imm(Equal, x, 0))")
        rt = set()
        for c in ctor:
            rt |= field_roots(ld, c["args"][0]) - {"vars", "param:vars"}
        if rt and rt != {"val"}:
            r.bad(b.path, "Instruction::Not operand", relfile(b.file), rw["line"], "Not reads %s instead of its `val` operand" % sorted(rt))
    # Negate
    rw = arm_named(rows, "Instruction::Negate")
    if rw is not None:
        inner = hir.find_match_on(rw["body"], "IrValue::")
        for m in inner[:1]:
            for row in hir.table(m):
                for a in row["alts"]:
                    mm = re.match(r"^IrValue::(\w+)\(_\)$", a)
                    if not mm:
                        continue
                    body = hir.strip(row["body"])
                    res = hir.short_result(body)
                    neg = body.get("k") == "call" and hir.strip(body["args"][0]).get("k") == "un" and hir.strip(body["args"][0]).get("op") == "-"
                    r.inst("Instruction::Negate %s" % mm.group(1))
                    if res != "IrValue::%s(..)" % mm.group(1) or not neg:
                        r.bad(b.path, "Instruction::Negate " + mm.group(1), relfile(b.file), row["line"], "negation of %s yields %s%s" % (mm.group(1), res, "" if neg else " without unary minus"))
    return r


WATCH = ("IrValue::", "IrType::", "Instruction::", "Pointer::", "Operand::", "IntCmp::", "FloatCmp::")
# wildcard arms that legitimately produce a value: a typed refusal that the
# caller turns into a panic / error (one named symbol each)
V2_EXCEPTIONS = {
    "TryFrom<&lir::value::IrValue>": "try_from returns Err(()); every caller unwraps or reports IrValueDoesNotMatchType",
    "codegen::FuncGen::<'c>::integer_operand": "returns None; operand() falls through to float_operand and then ice!()",
    "codegen::FuncGen::<'c>::float_operand": "returns None; operand() ends in ice!()",
}


def rule_v2(F):
    r = RuleResult("C20.V2", "every wildcard arm over IrValue/IrType/Instruction/Pointer in lir::eval, lir::value diverges", floor=12)
    for b in F.bodies_in(["src/lir/eval.rs", "src/lir/value.rs"]):
        if not b.hir or "::tests::" in b.path or b.def_kind == "Closure":
            continue
        for m in hir.nodes(b.hir["value"], "match"):
            t = hir.table(m)
            if not any(any(w in a for w in WATCH) for rw in t for a in rw["alts"]):
                continue
            for rw in t:
                if rw["alts"] == ["_"] and rw["guard"] is None:
                    key = "%s|%s" % (b.path, "|".join(sorted({x.split("(")[0].split("{")[0] for r2 in t for x in r2["alts"] if x != "_"}))[:80])
                    r.inst(key, {"fn": b.path, "line": rw["line"], "fallback": hir.short_result(rw["body"])})
                    if hir.diverges(rw["body"]):
                        continue
                    if any(k in b.path for k in V2_EXCEPTIONS):
                        continue
                    r.bad(b.path, "wildcard yields " + str(hir.short_result(rw["body"])), relfile(b.file), rw["line"],
                          "a catch-all arm produces a value instead of stopping: an unsupported case would complete with a made-up result")
    return r


def stmts_of(body_hir):
    v = body_hir["value"]
    return (v.get("stmts") or []) + ([v["expr"]] if v.get("expr") is not None else [])


def _diverges_from(b, start, memo):
    """does every path from `start` end in a call that does not return (a panic)?"""
    if start in memo:
        return memo[start]
    memo[start] = False
    seen, work = set(), [start]
    ok = True
    while work:
        x = work.pop()
        if x in seen:
            continue
        seen.add(x)
        t = b.blocks[x]["term"]
        if t["k"] == "return":
            ok = False
            break
        if t["k"] == "call" and t.get("t") is None:
            continue
        if t["k"] == "unreachable":
            continue
        nx = [y for y in mir.succs(b.blocks[x]) if not b.blocks[y].get("cleanup")]
        if not nx and t["k"] not in ("call",):
            continue
        work.extend(nx)
        if len(seen) > 40:
            ok = False
            break
    memo[start] = ok
    return ok


def _guard_kind(b, defs, op):
    """What a panicking guard compares: 'bounds' (an ordering with a len()), 'align' (is_multiple_of / remainder), 'frame-id' (the
    id of a pointer with the id of a frame)."""
    kinds = set()
    if not mir.is_place_op(op):
        return kinds
    seen = set()
    work = [op[1][0]]
    names_ = set()
    keys = []
    ops_ = set()
    while work:
        l = work.pop()
        if l in seen or len(seen) > 60:
            continue
        seen.add(l)
        for d in defs.defs.get(l, []):
            if d[2] == "call":
                names_.add(hir.last(mir.callee_def(d[3]) or ""))
                for a in d[3]["args"]:
                    if mir.is_place_op(a):
                        keys.append(mir.origin_key(b, defs, a[1]))
                        work.append(a[1][0])
            elif d[2] == "assign":
                rv = d[3]["rv"]
                if rv["k"] == "bin":
                    ops_.add(rv["op"])
                for o in (rv.get("a"), rv.get("b"), rv.get("o")):
                    if o is not None and mir.is_place_op(o):
                        keys.append(mir.origin_key(b, defs, o[1]))
                work.extend(mir.rv_locals(rv))
    if "len" in names_ and ops_ & {"Le", "Lt", "Ge", "Gt"}:
        kinds.add("bounds")
    if "is_multiple_of" in names_ or ops_ & {"Rem"}:
        kinds.add("align")
    joined = " ".join(keys)
    if ("stack_id" in joined and re.search(r"(^|[ .])id( |$|\.)", joined)) and (ops_ & {"Eq", "Ne"} or names_ & {"eq", "ne"}):
        kinds.add("frame-id")
    return kinds


_GUARDS = {}


def guards_before(F, b, target, depth=0):
    """Kinds of the panicking guards that every path to block `target` has passed: dominating switches with a side that can only
    panic, and crate helpers called on the way whose own guards precede their return."""
    defs = mir.Defs(b)
    dom = mir.dominators(b)
    memo = {}
    kinds = set()
    for sb in dom[target]:
        t = b.blocks[sb]["term"]
        if sb == target:
            continue
        if t["k"] == "switch":
            succ = list(mir.succs(b.blocks[sb]))
            if any(_diverges_from(b, x, memo) for x in succ) and any(not _diverges_from(b, x, memo) for x in succ):
                kinds |= _guard_kind(b, defs, t["o"])
        elif t["k"] == "call" and depth < 2:
            c = mir.callee(t) or ""
            hb = F.body(c)
            if hb is not None and hb.mir and c.startswith("lir::eval::") and c != b.path:
                kinds |= helper_guards(F, hb, depth + 1)
    return kinds


def helper_guards(F, hb, depth=1):
    if hb.path in _GUARDS:
        return _GUARDS[hb.path]
    _GUARDS[hb.path] = set()
    rets = [bi for bi, blk in enumerate(hb.blocks) if blk["term"]["k"] == "return"]
    ks = None
    for rb in rets:
        k = guards_before(F, hb, rb, depth)
        ks = k if ks is None else (ks & k)
    _GUARDS[hb.path] = ks or set()
    return _GUARDS[hb.path]


def _places(x):
    """every place ([local, projection..]) mentioned anywhere in a statement / terminator"""
    if isinstance(x, dict):
        for k, v in x.items():
            if k in ("p", "dest") and isinstance(v, list) and v and isinstance(v[0], int):
                yield v
            else:
                yield from _places(v)
    elif isinstance(x, list):
        if len(x) == 2 and x[0] in ("cp", "mv") and isinstance(x[1], list) and x[1] and isinstance(x[1][0], int):
            yield x[1]
        else:
            for y in x:
                yield from _places(y)


def _frame_touches(b):
    """Blocks in which a stack frame is touched: a method of StackFrame is called, or a field of a StackFrame other than its `id`
    is read or borrowed (the accessor helpers of the frame may be written out in place)."""
    locs = b.mir.get("locals") or []
    out = []
    for bi, blk in enumerate(b.blocks):
        t = blk["term"]
        if t["k"] == "call" and "StackFrame" in (mir.callee(t) or "") and "Vec<" not in (mir.callee(t) or ""):
            out.append(bi)
            continue
        hit = False
        for pl in _places(blk):
            ty = str((locs[pl[0]] if pl[0] < len(locs) else {}).get("ty") or "")
            if "StackFrame" not in ty or "Vec<" in ty:
                continue
            if any(isinstance(e, list) and e[0] == "f" and e[2] != "id" for e in pl[1:]):
                hit = True
        if hit:
            out.append(bi)
    return out


def rule_v3(F):
    """Every slice of an allocation is taken only after the bounds and the alignment of the access were asserted, and a frame is only
    touched through a local pointer after the pointer's frame id was compared with the frame's - on every path, wherever the assertion
    is written (in the accessor, or in a helper of lir::eval that the accessor calls first)."""
    r = RuleResult("C20.V3", "checked memory: bounds+alignment asserts precede slicing; frame id compared before a frame is touched", floor=4)
    _GUARDS.clear()
    for fn in ("lir::eval::Allocation::read", "lir::eval::Allocation::write"):
        b = F.body(fn)
        if b is None or not b.mir:
            r.missing(fn)
            continue
        slices = [bi for bi, t in mir.calls(b) if hir.last(mir.callee_def(t) or "") in ("index", "index_mut", "get_unchecked", "get_unchecked_mut", "copy_from_slice", "split_at", "split_at_mut")
                  and ("slice" in (mir.callee(t) or "") or "Index" in (mir.callee_def(t) or ""))]
        if not slices:
            r.missing("slice access in " + fn)
            continue
        worst = None
        for sb in slices:
            k = guards_before(F, b, sb)
            worst = k if worst is None else (worst & k)
        r.inst(fn, {"fn": fn, "slice_accesses": len(slices), "guards_on_every_path_to_them": sorted(worst)})
        if "bounds" not in worst:
            r.bad(fn, "bounds", relfile(b.file), b.line, "no bounds assertion precedes the slice access")
        if "align" not in worst:
            r.bad(fn, "alignment", relfile(b.file), b.line, "no alignment assertion precedes the slice access")
    for fn, callee in (("lir::eval::Memory::write", "write"), ("lir::eval::Memory::read_slice", "read")):
        b = F.body(fn)
        if b is None or not b.mir:
            r.missing(fn)
            continue
        uses = _frame_touches(b)
        ok = bool(uses) and all("frame-id" in guards_before(F, b, ub) for ub in uses)
        r.inst(fn, {"fn": fn, "frame_accesses": len(uses), "frame_id_checked_before_access": ok})
        if not ok:
            r.bad(fn, "frame id", relfile(b.file), b.line, "the frame id of a local pointer is not compared before the frame is accessed (use after free would go unnoticed)")
    g = F.body("lir::eval::Memory::get")
    if g is not None and g.mir:
        uses = _frame_touches(g)
        if uses and not all("frame-id" in guards_before(F, g, ub) for ub in uses):
            r.note("cross-reference (not armed, no witness IR): Memory::get lacks the frame-id comparison its siblings write/read_slice have")
    return r


def rule_v4(F):
    r = RuleResult("C20.V4", "IrValue/IrType diagonals: from_slice, as_vec and simple-value conversions map variant X to X", floor=14 + 13)
    b = F.body("lir::value::IrValue::from_slice")
    if b is None:
        r.missing("lir::value::IrValue::from_slice")
    else:
        for m in hir.find_match_on(b.hir["value"], "IrType::", min_arms=5):
            for rw in hir.table(m):
                for a in rw["alts"]:
                    if not a.startswith("IrType::"):
                        continue
                    v = a.split("::")[1]
                    ctors = [hir.last(hir.call_def(c) or "") for c in hir.nodes(rw["body"], "call") if "IrValue::" in (hir.call_def(c) or "") or (hir.call_def(c) or "").startswith("lir::value::IrValue")]
                    ctors = [c for c in ctors if c and c[0].isupper()]
                    r.inst("from_slice " + v, {"ir_type": v, "constructs": ctors})
                    if v not in ctors or any(c != v for c in ctors):
                        r.bad(b.path, "from_slice " + v, relfile(b.file), rw["line"], "bytes read as IrType::%s become IrValue::%s" % (v, ctors))
    # From<T> for IrValue: IrValue::X(value) with X matching T
    exp = {"bool": "Bool", "u8": "U8", "u16": "U16", "u32": "U32", "u64": "U64", "i8": "I8", "i16": "I16", "i32": "I32", "i64": "I64",
           "f32": "F32", "f64": "F64", "char": "Char", "inetnum::asn::Asn": "Asn"}
    for t, v in exp.items():
        cands = [q for q in F.paths() if ("From<%s>" % t) in q and "TryFrom" not in q and "IrValue" in q and q.endswith("::from")]
        p = "From<%s> for IrValue" % t
        b = F.body(cands[0]) if cands else None
        if b is None:
            r.missing(p)
            continue
        res = hir.short_result(b.hir["value"])
        r.inst("From<%s>" % t, {"rust": t, "constructs": res})
        if res != "IrValue::%s(..)" % v:
            r.bad(p, "From<%s>" % t, relfile(b.file), b.line, "a Rust %s becomes %s" % (t, res))
    g = F.body("lir::value::IrValue::get_type")
    if g is not None:
        for m in hir.find_match_on(g.hir["value"], "IrValue::", min_arms=5):
            for rw in hir.table(m):
                for a in rw["alts"]:
                    v = a.split("::")[1].split("(")[0]
                    if rw["result"] != "IrType::" + v:
                        r.note("cross-reference (only used by the test helper MemVal): IrValue::get_type maps %s to %s" % (v, rw["result"]))
    return r


def rule_v6(F):
    r = RuleResult("C20.V6", "IrValue equality (used for IntCmp/FloatCmp Eq/Ne): same variant, plain `==` on the payloads (IEEE for floats), everything else stops", floor=8)
    ps = [p for p in F.paths() if "IrValue" in p and p.endswith("std::cmp::PartialEq>::eq")]
    if not ps:
        r.missing("<IrValue as PartialEq>::eq")
        return r
    b = F.body(ps[0])
    ld = hir.LocalDefs(b.hir)
    ms = hir.find_match_on(b.hir["value"], "IrValue::", min_arms=3)
    if not ms:
        r.missing("match over (IrValue, IrValue) in PartialEq for IrValue")
        return r
    for row in hir.table(ms[0]):
        for a in row["alts"]:
            mm = re.match(r"^\(IrValue::(\w+)\(_\),IrValue::(\w+)\(_\)\)$", a)
            if a == "_":
                r.inst("fallback")
                if not hir.diverges(row["body"]):
                    r.bad(b.path, "fallback", relfile(b.file), row["line"], "comparing values of different (or unsupported) types must stop the evaluator, not yield a value")
                continue
            if not mm:
                continue
            v = mm.group(1)
            body = hir.strip(row["body"])
            plain = body.get("k") == "bin" and body.get("op") == "==" and hir.peel_refs(body["a"]).get("k") == "path" and hir.peel_refs(body["b"]).get("k") == "path"
            r.inst("eq " + v, {"variant": v, "plain_eq": plain})
            if mm.group(1) != mm.group(2):
                r.bad(b.path, "eq " + v, relfile(b.file), row["line"], "values of different variants (%s, %s) compare as equal-able" % (mm.group(1), mm.group(2)))
            if not plain:
                r.bad(b.path, "eq " + v, relfile(b.file), row["line"],
                      "equality of IrValue::%s is not the plain `==` of the payloads (e.g. comparing float bit patterns): the JIT uses icmp/fcmp Equal, so NaN and +-0.0 (or any transformed payload) give a different result" % v)
    return r


def rule_v7(F):
    """The evaluator's `Offset` is relative to the pointer it is applied to, as the JIT's pointer addition is: the new position is
    the old position plus the offset (an offset of an already offset pointer - e.g. a field of a nested record - accumulates)."""
    r = RuleResult("C20.V7", "pointer offsetting in the evaluator accumulates: new position = old position + offset", floor=1)
    ps = [p for p in F.paths() if p.endswith("LocalPointer::offset_by")]
    if not ps:
        r.missing("lir::eval LocalPointer::offset_by")
        return r
    b = F.body(ps[0])
    if not b.mir:
        r.missing("MIR of LocalPointer::offset_by")
        return r
    defs = mir.Defs(b)
    n = 0
    written = []          # (operand written to .allocation_offset, line)
    for blk in b.blocks:
        for st in blk["stmts"]:
            if st["k"] != "assign":
                continue
            rv = st["rv"]
            if rv["k"] == "agg" and str(rv.get("adt", "")).endswith("LocalPointer") and "allocation_offset" in (rv.get("fields") or []):
                written.append((rv["ops"][rv["fields"].index("allocation_offset")], st.get("line")))
            elif len(st["p"]) >= 2 and isinstance(st["p"][-1], list) and st["p"][-1][0] == "f" and st["p"][-1][-1] == "allocation_offset" and rv["k"] == "use":
                written.append((rv["o"], st.get("line")))
    for op, line in written:
        n += 1
        ks = set()
        adds = False
        if mir.is_place_op(op):
            seen, work = set(), [op[1][0]]
            ks.add(mir.origin_key(b, defs, op[1]))
            while work:
                l = work.pop()
                if l in seen:
                    continue
                seen.add(l)
                for d in defs.defs.get(l, []):
                    if d[2] == "assign":
                        rv = d[3]["rv"]
                        if rv["k"] == "bin" and rv["op"] in ("Add", "AddWithOverflow", "AddUnchecked"):
                            adds = True
                        for o in (rv.get("a"), rv.get("b"), rv.get("o")):
                            if o is not None and mir.is_place_op(o):
                                ks.add(mir.origin_key(b, defs, o[1]))
                        work.extend(mir.rv_locals(rv))
                    elif d[2] == "call":
                        if hir.last(mir.callee_def(d[3]) or "") in ("checked_add", "wrapping_add", "saturating_add", "add"):
                            adds = True
                        for a in d[3]["args"]:
                            if mir.is_place_op(a):
                                ks.add(mir.origin_key(b, defs, a[1]))
                                work.append(a[1][0])
        old = any(k.startswith("arg1") and "allocation_offset" in k for k in ks)
        arg = any(re.match(r"arg2($|[.&*])", k) for k in ks)
        ok = adds and old and arg
        r.inst("offset_by allocation_offset", {"adds": adds, "uses_old_position": old, "uses_offset_argument": arg})
        if not ok:
            r.bad(b.path, "allocation_offset", relfile(b.file), line or b.line,
                  "the offset pointer's position is not `old position + offset` (uses old position: %s, uses the argument: %s, addition: %s): offsetting an already offset pointer lands at the wrong field, inside the same allocation and aligned, so no check fires and the evaluator silently computes with other data than the compiled code" % (old, arg, adds))
    if n == 0:
        r.missing("allocation_offset field in LocalPointer::offset_by")
    return r


def rule_v8(F):
    """A host call made by the evaluator must pass the same arguments in the same positions as the compiled code does.  The
    evaluator reaches registered functions through the closure built by RegisterableFn::ir_function: IR argument 0 is the out
    pointer, IR argument j is converted (Value::from_ir_value) and handed to the trampoline as the j-th Rust parameter - for every
    arity and both out-pointer variants (16 macro instances)."""
    import re
    r = RuleResult("C20.V8", "evaluator host calls: IR argument j is converted and passed as the j-th parameter of the registered function (all arities)", floor=14)
    ps = sorted(p for p in F.paths() if "RegisterableFn<" in p and "ir_function::{closure" in p)
    if len(ps) < 14:
        r.missing("the ir_function closures of the RegisterableFn impls (found %d)" % len(ps))
    for p in ps:
        b = F.body(p)
        if b is None or not b.mir:
            continue
        defs = mir.Defs(b)
        conv = {bi: t for bi, t in mir.calls(b) if hir.last(mir.callee(t) or "") == "from_ir_value"}
        tramp = [(bi, t) for bi, t in mir.calls(b) if "ind" in t["f"] and len(t["args"]) >= 2]
        if not tramp:
            r.missing("the trampoline call in " + p)
            continue
        bi, t = tramp[-1]
        params = t["args"][2:]
        dom = mir.dominators(b)
        extract = {ci: ct for ci, ct in mir.calls(b) if hir.last(mir.callee_def(ct) or "") in ("next", "pop", "remove", "next_back")
                   and "IrValue" in str(ct["f"].get("gargs") or "") + (mir.callee(ct) or "") + b.mir["locals"][ct["dest"][0]]["ty"]}
        order = sorted(extract, key=lambda c: len([x for x in extract if x in dom[c]]))
        rows = []
        bad = None
        for j, a in enumerate(params, start=1):
            if not mir.is_place_op(a):
                bad = "parameter %d is a constant" % j
                break
            cs = [c for c in mir.back_calls(b, defs, a[1][0]) if c in conv]
            if len(cs) != 1:
                bad = "parameter %d is not the result of exactly one from_ir_value conversion" % j
                break
            src = conv[cs[0]]["args"][1] if len(conv[cs[0]]["args"]) > 1 else None
            key = mir.origin_key(b, defs, src[1]) if mir.is_place_op(src) else "?"
            # the position in the argument vector: constant index, possibly inside `rest @ ..` sub-slices (offsets add up)
            m = re.search(r"((?:\.\[\d+\.\.\])*)\.\[(\d+)\]", key)
            idx = (int(m.group(2)) + sum(int(x) for x in re.findall(r"\[(\d+)\.\.\]", m.group(1)))) if m else None
            if idx is None and mir.is_place_op(src):
                # taken out of the argument vector one by one: the position follows from the order of the extractions
                ex = [c for c in mir.back_calls(b, defs, src[1][0]) if c in extract]
                if len(ex) == 1:
                    o = order.index(ex[0])
                    kind = hir.last(mir.callee_def(extract[ex[0]]) or "")
                    idx = o if kind in ("next", "remove") else (len(order) - 1 - o if kind in ("pop", "next_back") else None)
            rows.append(idx)
            if idx is None:
                bad = "parameter %d is converted from %s, which is not a determinable position of the argument list" % (j, key)
                break
            if idx != j:
                bad = "parameter %d is converted from IR argument %s" % (j, idx)
                break
        r.inst(p.split(" as ")[1].split(">::ir_function")[0] if " as " in p else p, {"closure": p, "parameters": len(params), "converted_from_ir_arguments": rows})
        if bad:
            r.bad(p, "argument position", relfile(b.file), t.get("line", b.line),
                  "in the evaluator's wrapper of a registered function %s (IR argument 0 is the out pointer, argument j belongs to parameter j): the evaluator calls the host function with "
                  "other arguments than the compiled code does" % bad)
    return r


def rule_v9(F):
    """The evaluator hands out raw addresses into its checked memory for Clone / Drop / Eq and for the out pointer of host calls:
    Allocation::get(offset) must return the address of byte `offset` - an element of `inner` indexed by the offset parameter, the
    start of the slice `[offset..]`, or the base pointer advanced by `offset`.  (`[..offset].as_ptr()` is the base address for every
    offset: a String in the second field of a record is cloned from the first field's bytes, silently.)"""
    from .c08 import deps
    r = RuleResult("C20.V9", "Allocation::get returns the address AT the given offset (not the base of the allocation)", floor=1)
    ps = [p for p in F.paths() if p.endswith("lir::eval::Allocation::get") or p.endswith("Allocation::get")]
    ps = [p for p in ps if "lir::eval" in p]
    if not ps:
        r.missing("lir::eval::Allocation::get")
        return r
    b = F.body(ps[0])
    defs = mir.Defs(b)
    off = "arg%d" % b.mir["argc"]

    def from_off(local):
        return local == b.mir["argc"] or any(x.split(".")[0] == off for x in deps(b, defs, local))
    how = []
    for bi, blk in enumerate(b.blocks):
        for st in blk["stmts"]:
            if st["k"] != "assign":
                continue
            places = []
            rv = st["rv"]
            if "p" in rv and isinstance(rv["p"], list):
                places.append(rv["p"])
            for k in ("o", "a", "b"):
                if mir.is_place_op(rv.get(k)):
                    places.append(rv[k][1])
            for pl in places:
                for e in pl[1:]:
                    if isinstance(e, list) and e and e[0] == "i" and from_off(e[1]):
                        how.append("element [offset]")
    for bi, t in mir.calls(b):
        n = hir.last(mir.callee_def(t) or mir.callee(t) or "")
        if n in ("index", "get", "get_unchecked", "index_mut") and len(t["args"]) > 1 and mir.is_place_op(t["args"][1]):
            for d in defs.whole_defs(t["args"][1][1][0]):
                if d[2] == "assign" and d[3]["rv"]["k"] == "agg" and "RangeFrom" in str(d[3]["rv"].get("adt")):
                    ops = d[3]["rv"].get("ops") or []
                    if ops and mir.is_place_op(ops[0]) and from_off(ops[0][1][0]):
                        how.append("slice [offset..]")
                elif d[2] == "assign" and d[3]["rv"]["k"] == "agg" and ("RangeTo" in str(d[3]["rv"].get("adt")) or str(d[3]["rv"].get("adt")).endswith("ops::Range")):
                    how.append("BAD slice ending at / not starting at the offset (%s)" % d[3]["rv"].get("adt"))
            if from_off(t["args"][1][1][0]) and n != "get":
                how.append("element [offset]")
        if n in ("add", "byte_add", "offset", "byte_offset", "wrapping_add", "wrapping_byte_add") and len(t["args"]) > 1 and mir.is_place_op(t["args"][1]) and from_off(t["args"][1][1][0]):
            how.append("pointer advanced by offset")
    good = [h for h in how if not h.startswith("BAD")]
    r.inst("Allocation::get", {"address_computed_as": sorted(set(how))})
    if not good or any(h.startswith("BAD") for h in how):
        r.bad(b.path, "address does not depend on the offset as a start position", relfile(b.file), b.line,
              "Allocation::get does not return the address of byte `offset` (%s): Clone / Drop / Eq and host-call out pointers on a value that is not at offset 0 of its slot operate on "
              "the bytes at the start of the slot instead" % (sorted(set(how)) or "the offset is not used"))
    return r


def rule_v10(F):
    """`Offset` yields the address `offset` bytes past THE POINTER IT IS GIVEN.  In the evaluator that is Memory::offset_by -> the
    pointer's own offset_by (decided by V7 to accumulate).  Every answer of the memory-level function must therefore come from that
    computation on the given pointer: an exit that returns a pointer obtained otherwise (a cache keyed by less than the pointer's
    full position, a previously handed-out index) silently yields the address of another field - in bounds and aligned, so no check
    fires, and the evaluator completes with a different value."""
    r = RuleResult("C20.V10", "Memory::offset_by answers only with a pointer derived from the given pointer's own position (every exit passes LocalPointer::offset_by)", floor=1)
    ps = [p for p in F.paths() if p.endswith("Memory::offset_by") and "lir::eval" in p]
    inner = [p for p in F.paths() if p.endswith("LocalPointer::offset_by")]
    if not ps or not inner:
        r.missing("lir::eval Memory::offset_by / LocalPointer::offset_by")
        return r
    b = F.body(ps[0])
    if not b.mir:
        r.missing("MIR of Memory::offset_by")
        return r
    derive = {bi for bi, t in mir.calls(b) if (mir.callee(t) in inner or mir.callee_def(t) in inner)}
    rets = [bi for bi, blk in enumerate(b.blocks) if blk["term"]["k"] == "return"]
    r.inst("Memory::offset_by", {"derivations": len(derive), "returns": len(rets)})
    if not derive:
        r.bad(b.path, "no derivation", relfile(b.file), b.line, "Memory::offset_by no longer computes the new pointer with LocalPointer::offset_by")
        return r
    reach = mir.reachable_from(b, 0, stop=derive)
    for x in rets:
        if x in reach and x not in derive:
            # is x reachable from the entry without passing a derivation?
            seen, work = set(), [0]
            hit = False
            while work:
                y = work.pop()
                if y in seen or y in derive:
                    continue
                seen.add(y)
                if y == x:
                    hit = True
                    break
                work.extend(mir.succs(b.blocks[y]))
            if hit:
                r.bad(b.path, "exit without derivation", relfile(b.file), b.blocks[x]["term"].get("line") or b.line,
                      "Memory::offset_by can return without computing `pointer.offset_by(offset)` for the pointer it was given (e.g. from a table of earlier results): "
                      "`(base+8)+4` answered with a remembered `base+4` reads another field of a nested record - the evaluator completes with a different value than the compiled code")
    return r


def rule_v11(F):
    """The evaluator's variables belong to one activation: they are keyed by (scope, kind), so a function that is active twice
    (recursion) shares its keys with the activation that called it.  A call therefore hands the caller's variables to the frame
    it pushes, and the return puts them back before it stores the returned value - on the MIR of `eval`: the frame pushed for a call
    receives a value derived from the variable map, and the map is re-assigned from the popped frame."""
    r = RuleResult("C20.V11", "evaluator variables are per activation: saved in the frame a call pushes, restored by the return", floor=1)
    b = F.body("lir::eval::eval")
    if b is None or not b.mir:
        r.missing("lir::eval::eval")
        return r
    defs = mir.Defs(b)
    locs = b.mir["locals"]
    maps = [i for i, l in enumerate(locs) if str(l.get("ty") or "").startswith("std::collections::HashMap<lir::Var, lir::value::IrValue") or
            (str(l.get("ty") or "").startswith("std::collections::HashMap<") and "Var" in str(l.get("ty")) and "IrValue" in str(l.get("ty")))]
    maps = [i for i in maps if locs[i].get("name")]
    if not maps:
        r.missing("the evaluator's variable map (HashMap<Var, IrValue>) in lir::eval::eval")
        return r
    vm = maps[0]
    pushes = [(bi, t) for bi, t in mir.calls(b) if hir.last(mir.callee(t) or "") == "push_frame"]
    pops = [(bi, t) for bi, t in mir.calls(b) if hir.last(mir.callee(t) or "") == "pop_frame"]
    if not pushes or not pops:
        r.missing("push_frame / pop_frame in lir::eval::eval")
        return r
    from .c08 import deps
    saved = False
    for bi, t in pushes:
        for a in t["args"][1:]:
            if mir.is_place_op(a) and "HashMap<" in str(locs[a[1][0]].get("ty") or ""):
                chain = mir.back_calls(b, defs, a[1][0])
                srcs = set()
                for cb_ in chain:
                    for a2 in b.blocks[cb_]["term"]["args"]:
                        if mir.is_place_op(a2):
                            srcs |= {a2[1][0]} | {x for d in defs.whole_defs(a2[1][0]) if d[2] == "assign" for x in mir.rv_locals(d[3]["rv"])}
                if vm in srcs or a[1][0] == vm:
                    saved = True
    restored = False
    for d in defs.defs.get(vm, []):
        if d[2] == "assign" and len(d[3]["p"]) == 1:
            for x in mir.rv_locals(d[3]["rv"]):
                if any(pb in mir.back_calls(b, defs, x) for pb, _ in pops):
                    restored = True
    r.inst("call / return", {"variables_saved_in_the_pushed_frame": saved, "variables_restored_from_the_popped_frame": restored})
    if not saved or not restored:
        r.bad(b.path, "variables are not per activation", relfile(b.file), pushes[0][1].get("line") or b.line,
              "a call does not save the caller's variables in the frame it pushes (saved: %s) or the return does not put them back (restored: %s): the variables are keyed by scope, so a "
              "recursive call overwrites those of the activation that called it and the evaluator completes with a different value than the compiled code" % (saved, restored))
    return r


def rule_v12(F):
    """`Switch` means: the branch whose key EQUALS the examinee, else the default - whatever the order of the branch list (the
    compiled code's jump table does not depend on it, and the lowering of `match` emits its branches in hash-map order).  The
    evaluator's lookup therefore looks at every branch and compares with `==`; a lookup that assumes sorted keys (`binary_search*`,
    `partition_point`) silently falls to the default for keys that are present and the
    evaluator completes with another arm's value."""
    r = RuleResult("C20.V12", "evaluator Switch: the branch is found by equality over all branches (no order-dependent search of the branch list)", floor=1)
    ps = [p for p in F.paths() if p.startswith("lir::eval::") and hir.last(p.split("::{closure")[0]) == "eval"]
    bodies = [F.body(p) for p in ps if F.body(p) is not None]
    top = [b for b in bodies if "{closure" not in b.path and b.hir]
    if not top:
        r.missing("lir::eval::eval")
        return r
    ms = hir.find_match_on(top[0].hir["value"], "Instruction::", min_arms=10)
    arm = None
    for m in ms:
        for a in m["arms"]:
            if any(x.startswith("Instruction::Switch") for x in hir.pat_alternatives(a["pat"])):
                arm = a
    if arm is None:
        r.missing("the Instruction::Switch arm of lir::eval::eval")
        return r
    ORDERED = ("binary_search", "binary_search_by", "binary_search_by_key", "partition_point")
    binds = {n_ for n_, _ in hir.pat_bindings(arm["pat"])}
    eq_search = 0
    for c in hir.nodes(arm["body"], "mcall"):
        if c["m"] in ("find", "find_map", "position", "any", "filter") and c["args"] and hir.strip(c["args"][0]).get("k") == "closure":
            if any(n.get("k") == "bin" and n.get("op") == "==" for n in hir.walk(hir.strip(c["args"][0]).get("body") or {})):
                eq_search += 1
        if c["m"] in ORDERED and any(n.get("k") == "path" and (n.get("res") or {}).get("name") == "branches" for n in hir.walk(c["recv"])):
            r.bad(top[0].path, "order-dependent lookup of the Switch branch", relfile(top[0].file), c.get("line") or arm.get("line") or top[0].line,
                  "the evaluator looks the branch of a Switch up with `%s`: that is right only for a sorted branch list, and `match` emits its branches in hash-map order - a key that is "
                  "present is missed, the default (another arm) is taken and the evaluator completes with a different value than the compiled code" % c["m"])
    # a hand-written loop over the branches with an equality test counts as well
    for lp in hir.nodes(arm["body"], "loop"):
        if any(n.get("k") == "bin" and n.get("op") == "==" for n in hir.walk(lp)):
            eq_search += 1
    r.inst("Switch lookup", {"equality_searches": eq_search})
    if eq_search < 1 and not r.violations:
        r.bad(top[0].path, "no equality search of the Switch branches", relfile(top[0].file), arm.get("line") or top[0].line,
              "the Switch arm of the evaluator no longer selects the branch by comparing every branch key with the examinee")
    return r


def rules(ctx):
    F = ctx["F"]
    return [rule_v1(F), rule_v2(F), rule_v3(F), rule_v4(F), rule_v6(F), rule_v7(F), rule_v8(F), rule_v9(F), rule_v10(F), rule_v11(F), rule_v12(F)]
