"""C09 - source text means what the documented grammar says."""
import os
import re

from .. import hir, mir
from ..facts import relfile
from ..report import RuleResult, REPO
from .c01 import find_body, roots, eval_table
from . import c06

EXPLANATION = (
    "The value denoted by every literal spelling is not decided. Decided: P1 byte/char unit discipline in the lexer and literal "
    "parser (the taint analysis of C06.U1 restricted to parser::*); P2 the 13x13 relative-associativity table computed symbolically "
    "from BinOp::precedence, the derived order of Precedence, BinOp::associativity and the &&/|| special case, compared cell by cell "
    "with the documented grammar (* / % > + - > comparisons > && ||; comparisons not chainable; && and || not mixable; everything "
    "else left-associative), plus the parser loop's reaction to each verdict (Right: recurse, Left: hand back, Not: error) and the "
    "left/right wiring of Expr::BinOp; P3 spelling tables round-trip: keyword strings <-> Keyword::as_str, punctuation bytes <-> "
    "Token Display, peek_binop Token->BinOp against the operator spellings, numeric suffix names <-> IntType/FloatType; "
    "P4 the token recognisers are tried in the documented priority order."
)
EXPLANATION += (  # round-3 supplement
    ' P5 the first line is skipped exactly when it starts with `#!`. P6 doubled braces are collapsed only on the f-string path. P7 integer literals are range-checked somewhere between parser and narrowing cast (known finding).'
)
EXPLANATION += (
    ' P8 the string and char literal scanners follow the escape transition table of the grammar for every (state, character class) - evaluated on the closure by the finite-domain evaluator, independent of how the state machine is written. P9 doubled braces are only collapsed where they were written literally: on the raw text, or per character with a literal flag - never on the output of the unescaper. P10 after Lexer::number consumed a fraction point or an exponent marker, only Token::Float can be built (path-sensitive boolean simulation from the consuming call).'
    ' P11 the f32 value of a float literal is not made by narrowing the f64 parse of its text (known finding: it is, so some literals are rounded twice).'
)
ASSUMPTIONS = [
    "the language reference (docs/source/reference/language_reference.md) is the specification of precedence",
    "escape decoding is delegated to rustc_literal_escaper (trusted)",
]

LEVEL = {"Mul": 3, "Div": 3, "Mod": 3, "Add": 2, "Sub": 2, "Eq": 1, "Ne": 1, "Lt": 1, "Le": 1, "Gt": 1, "Ge": 1, "And": 0, "Or": 0}
OPS = list(LEVEL)


def spec_rel(a, b):
    if {a, b} == {"And", "Or"}:
        return "Not"
    if LEVEL[a] < LEVEL[b]:
        return "Right"
    if LEVEL[a] > LEVEL[b]:
        return "Left"
    return "Not" if LEVEL[a] == 1 else "Left"


def rule_p2(F):
    r = RuleResult("C09.P2", "13x13 relative associativity computed from the code equals the documented grammar; parser reacts correctly", floor=169 + 4)
    pb = find_body(F, "BinOp>::precedence", r) or None
    if pb is None:
        cands = [p for p in F.paths() if p.endswith("::precedence") and "parser::precedence" in p]
        pb = F.body(cands[0]) if cands else None
    ab = None
    rb = None
    for p in F.paths():
        if "parser::precedence" in p and p.endswith("::associativity"):
            ab = F.body(p)
        if "parser::precedence" in p and p.endswith("::relative_associativity"):
            rb = F.body(p)
        if "parser::precedence" in p and p.endswith("::precedence"):
            pb = F.body(p)
    for nm, b in (("precedence", pb), ("associativity", ab), ("relative_associativity", rb)):
        if b is None:
            r.missing("parser::precedence::BinOp::" + nm)
    adt = F.adt("parser::precedence::Precedence")
    if adt is None:
        r.missing("parser::precedence::Precedence")
    if r.anchor_missing:
        return r
    order = [v["name"] for v in adt["variants"]]
    derives_ord = any(i.get("self_adt") == "parser::precedence::Precedence" and i.get("trait") == "std::cmp::Ord" and i.get("derived") for i in F.impls())
    if not derives_ord:
        r.bad("parser::precedence::Precedence", "Ord", relfile(adt["file"]), adt["line"], "Precedence no longer derives Ord: the variant order does not define the precedence order")
    # precedence rows
    pm = hir.find_match_on(pb.hir["value"], "BinOp::", min_arms=2)
    prec = {}
    if pm:
        rows = hir.table(pm[0])
        for op in OPS:
            row, _ = eval_table(None, rows, "BinOp::" + op, {})
            prec[op] = hir.last(row["result"]) if row and row["result"] else None
    # associativity rows (by precedence level)
    am = hir.find_match_on(ab.hir["value"], "Precedence::", min_arms=1)
    assoc = {}
    if am:
        rows = hir.table(am[0])
        for lv in order:
            row, _ = eval_table(None, rows, "Precedence::" + lv, {})
            assoc[lv] = hir.last(row["result"]) if row and row["result"] else None
        # the scrutinee must be self.precedence()
        sc = am[0]["e"]
        if not (sc.get("k") == "mcall" and sc["m"] == "precedence"):
            r.bad(ab.path, "scrutinee", relfile(ab.file), ab.line, "associativity is not derived from self.precedence()")
    # relative_associativity structure
    h = rb.hir["value"]
    special = set()
    special_result = None
    for iff in hir.nodes(h, "if"):
        c = iff["cond"]
        if c.get("k") == "let":
            for alt in hir.pat_alternatives(c["pat"]):
                m = re.match(r"^\(BinOp::(\w+),BinOp::(\w+)\)$", alt)
                if m:
                    special.add((m.group(1), m.group(2)))
            sroots = [sorted(roots(None, e)) for e in (hir.peel_refs(c["init"]).get("elems") or [])]
            descs = [hir.result_desc(x.get("e")) for x in hir.nodes(iff["then"], "ret")]
            special_result = hir.last(descs[0]) if descs and descs[0] else None
            if sroots != [["self"], ["other"]]:
                r.bad(rb.path, "special case operands", relfile(rb.file), iff["line"], "the &&/|| special case does not inspect (self, other)")
    cm = None
    for m in hir.nodes(h, "match"):
        alts = [a for arm in m["arms"] for a in hir.pat_alternatives(arm["pat"])]
        if any("Ordering::" in a for a in alts):
            cm = m
    if cm is None:
        r.missing("match on Ordering in relative_associativity")
        return r
    ord_rows = []  # (ordering, guard pairs or None, verdict)
    guard_unknown = False

    def pairs_of(g):
        """(BinOp, BinOp) pairs a `matches!((self, other), ..)` / `if let` style guard accepts, or None."""
        out = set()
        found = False
        for m in hir.nodes(g, "match"):
            sroots = [sorted(roots(None, e)) for e in (hir.peel_refs(m["e"]).get("elems") or [])]
            if sroots != [["self"], ["other"]]:
                continue
            for arm in m["arms"]:
                body = hir.strip(arm["body"])
                if body.get("k") == "lit" and body.get("v") is True:
                    for alt in hir.pat_alternatives(arm["pat"]):
                        mm = re.match(r"^\(BinOp::(\w+),BinOp::(\w+)\)$", alt)
                        if mm:
                            out.add((mm.group(1), mm.group(2)))
                            found = True
        return out if found else None
    rld = hir.LocalDefs(rb.hir)

    def guard_expr(g):
        """A guard that is a local bool (`let mixes = matches!(..)`) stands for its initialiser."""
        g0 = hir.strip(g)
        if g0.get("k") == "path":
            l = hir.res_local(g0)
            d = rld.get(l) if l is not None else None
            if d and d[1] is not None:
                return d[1]
        return g
    for arm in cm["arms"]:
        alts = []
        for a in hir.pat_alternatives(arm["pat"]):
            alts += ["Ordering::Less", "Ordering::Greater", "Ordering::Equal"] if a == "_" else [a]
        for a in alts:
            if not a.startswith("Ordering::"):
                continue
            body = hir.strip(arm["body"])
            if body.get("k") == "mcall" and body["m"] == "associativity" and roots(None, body["recv"]) == {"self"}:
                verdict = "self.associativity()"
            else:
                verdict = hir.last(hir.short_result(arm["body"]) or "")
            gp = None
            if arm.get("guard") is not None:
                gp = pairs_of(guard_expr(arm["guard"]))
                if gp is None:
                    guard_unknown = True
            ord_rows.append((a.split("::")[1], gp, verdict, arm.get("guard") is not None))
    evaluable = True
    try:
        from .. import symex as _sx0
        for a_ in OPS:
            for b_ in OPS:
                g_, _e = _sx0.run_function(rb.hir, {0: a_, 1: b_}, F=F)
                if not isinstance(g_, str) or isinstance(g_, _sx0.Sym):
                    evaluable = False
    except Exception:
        evaluable = False
    # the structural reading (guards, the comparison expression) only matters where the relation cannot be computed by evaluation
    if guard_unknown and not evaluable:
        r.bad(rb.path, "guard", relfile(rb.file), cm["line"], "a guard in relative_associativity is not of the form matches!((self, other), (BinOp::X, BinOp::Y) | ..): the relation cannot be computed")
    sc = cm["e"]
    cmp_ok = sc.get("k") == "mcall" and sc["m"] == "cmp" and roots(None, sc["recv"]) == {"self"} and roots(None, sc["args"][0]) == {"other"} \
        and all(n.get("m") in ("precedence", "cmp") for n in hir.nodes(sc, "mcall"))
    if not cmp_ok and not evaluable:
        r.bad(rb.path, "comparison", relfile(rb.file), cm["line"], "relative_associativity does not compare self.precedence() with other.precedence()")

    def rel(a, b):
        if (a, b) in special:
            return special_result
        la, lb = order.index(prec[a]), order.index(prec[b])
        o = "Less" if la < lb else "Greater" if la > lb else "Equal"
        v = None
        for (oo, gp, verdict, guarded) in ord_rows:
            if oo != o:
                continue
            if guarded and (gp is None or (a, b) not in gp):
                continue
            v = verdict
            break
        if v == "self.associativity()":
            return assoc.get(prec[a])
        return v
    for a in OPS:
        for b in OPS:
            key = "%s then %s" % (a, b)
            # the relation is obtained by EVALUATING relative_associativity(a, b) (vf/symex: precedence(), associativity() and any
            # helper followed, derived Ord by variant order); the structural reading below is only the fallback
            try:
                from .. import symex as _sx
                got, _ev = _sx.run_function(rb.hir, {0: a, 1: b}, F=F)
                if not isinstance(got, str) or isinstance(got, _sx.Sym):
                    raise _sx.Unknown("result %r" % (got,))
            except Exception:
                try:
                    got = rel(a, b)
                except (ValueError, KeyError):
                    got = None
            want = spec_rel(a, b)
            r.inst(key, {"prev": a, "next": b, "code": got, "grammar": want})
            if got != want:
                r.bad("parser::precedence", key, relfile(rb.file), rb.line,
                      "`a %s b %s c`: the code says %s, the documented grammar says %s" % (a, b, got, want))
    # parser loop
    be = None
    for p in F.paths():
        if p.endswith("::binop_expr") and "parser::expr" in p:
            be = F.body(p)
    if be is None:
        r.missing("parser binop_expr")
        return r
    ld = hir.LocalDefs(be.hir)
    am = hir.find_match_on(be.hir["value"], "Associativity::", min_arms=3)
    if not am:
        r.missing("match on Associativity in binop_expr")
    else:
        for row in hir.table(am[0]):
            a = row["alts"][0]
            mm_ = re.search(r"Associativity::(Right|Left|Not)", a)
            if mm_:
                a = mm_.group(0)      # `Some((_, Associativity::Left))` reacts to Left
            body = hir.strip(row["body"])
            has_break = any(n.get("k") == "break" for n in hir.walk(body))
            has_err = any((hir.result_desc(n.get("e")) or "").find("Err") >= 0 for n in hir.nodes(body, "ret"))
            if not has_err:
                # `return self.report_it(..)` with a helper that can only fail
                for n in hir.nodes(body, "ret"):
                    e_ = hir.strip(n.get("e") or {})
                    if e_.get("k") in ("call", "mcall") and mir.always_err(F, hir.call_def(e_)):
                        has_err = True
            empty = body.get("k") == "block" and not body.get("stmts") and body.get("expr") is None
            r.inst("parser on " + a, {"verdict": a, "break": has_break, "error": has_err, "continues": empty})
            want = {"Associativity::Right": empty, "Associativity::Left": has_break and not has_err, "Associativity::Not": has_err}
            if a in want and not want[a]:
                r.bad(be.path, a, relfile(be.file), row["line"], "parser reaction to %s is wrong (expected Right: continue, Left: break, Not: error)" % a)
        sc = am[0]["e"]
        l = hir.res_local(hir.peel_refs(sc))
        init = ld.get(l)[1] if l is not None and ld.get(l) else sc
        call = [c for c in hir.nodes(init, "mcall") if c["m"] == "relative_associativity"]
        ok = bool(call) and klass(be, ld, call[0]["recv"]) == {"PREV"} and klass(be, ld, call[0]["args"][0]) == {"OP"}
        if not ok:
            # the question may be asked inside a closure (`prev.map(|prev| (prev, prev.relative_associativity(&operator)))`): evaluate the
            # method (vf/sx) and look at the first such call of every path: receiver = the `prev` parameter, argument = the peeked operator
            try:
                from .. import sx
                pname = be.hir["params"][1].get("name") if len(be.hir["params"]) > 1 else None
                firsts = []
                for _, evs in sx.Exec(F, opaque={be.path}).paths(be.hir, {}):
                    ra = [e for e in evs if e[0] == "mcall" and e[1] == "relative_associativity"]
                    if ra:
                        firsts.append(ra[0])
                ok = bool(firsts) and pname is not None and all(
                    sx.mentions(e[2], pname) and not sx.mentions(e[2], "peek_binop") and len(e[3]) == 1 and "peek_binop" in str(e[3][0]) and not sx.mentions(e[3][0], pname)
                    for e in firsts)
            except Exception:
                ok = False
        r.inst("relative_associativity(prev, operator)")
        if not ok:
            r.bad(be.path, "relative_associativity operands", relfile(be.file), be.line, "the parser must ask prev.relative_associativity(&operator)")
    for c in hir.nodes(be.hir["value"], "call"):
        if (hir.call_def(c) or "").endswith("Expr::BinOp"):
            rs = [klass(be, ld, a) for a in c["args"]]
            r.inst("Expr::BinOp wiring", {"args": [sorted(x) for x in rs]})
            if rs != [{"LHS"}, {"OP"}, {"RHS"}]:
                r.bad(be.path, "Expr::BinOp wiring", relfile(be.file), c["line"], "Expr::BinOp(lhs, operator, rhs) is not built in that order: %s" % [sorted(x) for x in rs])
    rec = [c for c in hir.nodes(be.hir["value"], "mcall") if c["m"] == "binop_expr"]
    for c in rec:
        rs = klass(be, ld, c["args"][0])
        r.inst("recursive lower bound")
        if rs != {"OP"}:
            r.bad(be.path, "recursive lower bound", relfile(be.file), c["line"], "the right operand is parsed with %s as lower bound instead of the operator just consumed" % sorted(rs))
    return r


PRODUCERS = {"peek_binop": "OP", "negation": "LHS", "binop_expr": "RHS"}


def klass(b, ld, e):
    """What the locals mentioned by `e` are, by where their value comes from (never by their names): PREV = the operator
    parameter of binop_expr, OP = result of peek_binop(), LHS = result of negation() (or the running tree), RHS = result of
    the recursive binop_expr()."""
    out = set()
    pidx = hir.param_index(b.hir)
    for n in hir.walk(e):
        if n.get("k") != "path" or hir.res_local(n) is None:
            continue
        l = hir.res_local(n)
        seen = set()
        while True:
            if l in pidx:
                out.add("PREV" if pidx[l] == 1 else "PARAM%d" % pidx[l])
                break
            d = ld.get(l)
            if d is None or d[1] is None or l in seen:
                out.add("?")
                break
            seen.add(l)
            init = d[1]
            ms = [c["m"] for c in hir.nodes(init, "mcall") if c["m"] in PRODUCERS]
            if ms:
                out.add(PRODUCERS[ms[0]])
                break
            nxt = hir.res_local(hir.peel_refs(hir.strip(init)))
            if nxt is None:
                out.add("?")
                break
            l = nxt
    return out


def rule_p5(F):
    """A first line that starts with `#!` is ignored - whatever follows the two characters (`#! /usr/bin/env roto` included)."""
    r = RuleResult("C09.P5", "shebang: the first line is skipped exactly when it starts with `#!`", floor=1)
    ps = [p for p in F.paths() if p.endswith("::skip_shebang") and "parser::lexer" in p]
    if not ps:
        r.missing("parser::lexer skip_shebang")
        return r
    b = F.body(ps[0])
    ifs = [n for n in hir.nodes(b.hir["value"], "if")]
    ok = False
    detail = None
    for iff in ifs:
        c = hir.strip(iff["cond"])
        calls = [(x["m"], [hir.strip(a).get("v") for a in x["args"]]) for x in hir.nodes(c, "mcall")]
        detail = calls
        eats = [x for x in calls if x[0] in ("eat_str", "starts_with", "strip_prefix") and x[1] == ["#!"]]
        # the prefix test alone: no second conjunct
        ok = bool(eats) and c.get("k") == "mcall" and len(calls) == 1
    r.inst("skip_shebang condition", {"calls_in_condition": detail, "prefix_test_alone": ok})
    if not ok:
        r.bad(b.path, "shebang condition", relfile(b.file), b.line,
              "the first line is skipped only under an extra condition besides the `#!` prefix (%s): a documented shebang such as `#! /usr/bin/env roto` is a parse error" % detail)
    return r


def _brace_collapse_sites(F):
    """Where doubled braces are turned into single ones: a `.replace("{{", ..)`, or a function / closure of the parser (not the
    lexer) that tests characters against both '{' and '}'."""
    sites = []
    for b in F.bodies_in(["src/parser/expr.rs", "src/parser/mod.rs"]):
        if not b.hir or "::tests::" in b.path:
            continue
        val = b.hir.get("value") or {}
        for c in hir.nodes(val, "mcall"):
            if c["m"] in ("replace", "replacen") and c["args"] and hir.strip(c["args"][0]).get("v") in ("{{", "}}"):
                sites.append((b, c, "replace"))
        chars = {n.get("v") for n in hir.walk(val) if n.get("k") in ("lit", "plit") and (n.get("ty") == "char" or n.get("lk") == "char")}
        if {"{", "}"} <= chars and b.def_kind == "Closure":
            first = next(n for n in hir.walk(val) if n.get("k") in ("lit", "plit") and n.get("v") == "{")
            sites.append((b, first, "chars"))
    return sites


def rule_p6(F):
    """`{{` and `}}` are escapes in f-strings only: the code that collapses doubled braces must not be on the path of plain string
    (or char) literals - a shared unescape helper that does it changes the value of every plain string containing `{{`."""
    from ..callgraph import CallGraph
    r = RuleResult("C09.P6", "doubled braces are collapsed only for f-string text, never on the path of plain string literals", floor=1)
    sites = _brace_collapse_sites(F)
    if not sites:
        r.missing("the `{{` / `}}` collapse of f-string parts")
        return r
    cg = CallGraph(F)
    plain = [p for p in F.paths() if p.endswith("::simple_literal") and "parser::expr" in p]
    seen, parent = cg.reachable(plain) if plain else (set(), {})
    done = set()
    for b, c, _kind in sites:
        owner = b.path.split("::{closure")[0]
        if owner in done:
            continue
        done.add(owner)
        on_plain = owner in seen or b.path in seen
        r.inst("brace collapse in %s" % hir.last(owner), {"fn": owner, "line": c.get("line"), "reachable_from_simple_literal": on_plain})
        if on_plain:
            r.bad(owner, "brace collapse on the plain-string path", relfile(b.file), c.get("line"),
                  "`{{` / `}}` are replaced in %s, which plain string literals also go through (%s): \"{{\" evaluates to \"{\"" % (hir.last(owner), " -> ".join(hir.last(x) for x in cg.chain(parent, owner))))
    if not plain:
        r.missing("parser simple_literal")
    return r


def rule_p9(F):
    """Only braces that are WRITTEN in the f-string are doubled-brace escapes; a brace that an escape sequence produces (`\\u{7b}`)
    is just that character.  So the collapse either works on the raw text, before unescaping, or it knows for every character
    whether it was written literally and only pairs up literal braces."""
    r = RuleResult("C09.P9", "doubled-brace collapse applies to literally written braces only (not to the output of escape sequences)", floor=1)
    sites = _brace_collapse_sites(F)
    if not sites:
        r.missing("the `{{` / `}}` collapse of f-string parts")
        return r
    done = set()
    for b, c, kind in sites:
        if (b.path, kind) in done:
            continue
        done.add((b.path, kind))
        ld = hir.LocalDefs(b.hir)
        if kind == "replace":
            # the text it is applied to: raw token text, or the result of unescaping?
            rc = hir.peel_refs(hir.strip(c["recv"]))
            after_unescape = False
            for _ in range(8):
                if rc.get("k") == "mcall" and rc["m"] in ("replace", "replacen", "clone", "to_string", "to_owned", "as_str"):
                    rc = hir.peel_refs(hir.strip(rc["recv"]))
                    continue
                if rc.get("k") == "match" and str(rc.get("src", "")).startswith("TryDesugar"):
                    rc = hir.peel_refs(hir.strip(hir.strip(rc["e"])["args"][0]))
                    continue
                if rc.get("k") == "path" and hir.res_local(rc) is not None:
                    d = ld.get(hir.res_local(rc))
                    if d is None or d[1] is None or d[2] != ():
                        break
                    rc = hir.peel_refs(hir.strip(d[1]))
                    continue
                break
            name = hir.last(hir.call_def(rc) or "") if rc.get("k") == "call" else (rc.get("m") if rc.get("k") == "mcall" else "")
            after_unescape = "unescape" in (name or "")
            r.inst("collapse by replace in %s" % hir.last(b.path), {"fn": b.path, "line": c.get("line"), "applied_to": name or hir.result_desc(rc), "after_unescaping": after_unescape})
            if after_unescape:
                r.bad(b.path.split("::{closure")[0], "braces collapsed after unescaping", relfile(b.file), c.get("line"),
                      "`{{` / `}}` are collapsed in the text that %s returned: a brace produced by an escape sequence is indistinguishable from a written one there, so "
                      "`f\"\\u{7b}\\u{7b}\"` evaluates to `{` instead of `{{`" % name)
        else:
            # evaluate the per-character closure on the five cases that matter (finite-domain evaluation, vf/symex.py): a brace pairs
            # up with the pending one only if it was written literally and is the same brace
            from .. import symex
            params = [p_ for p_ in b.hir.get("params", []) if p_.get("k") == "bind"]
            pbool = [p_["local"] for p_ in params if p_.get("ty") == "bool"]
            pchar = [p_["local"] for p_ in params if p_.get("ty") == "char"]
            bound = {x.get("local") for x in hir.walk(b.hir) if x.get("k") == "bind"}
            state = set()
            for x in hir.walk(b.hir["value"]):
                if x.get("k") in ("assign", "assignop"):
                    l = hir.res_local(hir.peel_refs(hir.strip(x["lhs"])))
                    if l is not None and l not in bound:
                        state.add(l)
            uses_flag = None
            table = {}
            if len(pbool) == 1 and len(pchar) == 1 and len(state) == 1:
                st_l = list(state)[0]
                cases = [(True, "{", symex.ctor("Some", "{"), False), (False, "{", symex.ctor("Some", "{"), True), (True, "{", "None", True),
                         (True, "}", symex.ctor("Some", "{"), True), (True, "a", symex.ctor("Some", "{"), True)]
                uses_flag = True
                for lit_, ch_, pend_, want_push in cases:
                    try:
                        m = symex.Machine(b.hir, {pbool[0]: lit_, pchar[0]: ch_, st_l: pend_})
                        for p_ in params:
                            if p_["local"] not in m.env:
                                m.env[p_["local"]] = symex.Sym(p_.get("name") or "p")
                        m.run()
                        pushed = any(e[0] == "mcall" and e[1] in ("push", "push_str", "extend") for e in m.events)
                    except symex.Unknown as e:
                        uses_flag = None
                        r.missing("an evaluable per-character brace collapse in %s (%s)" % (hir.last(b.path.split("::{closure")[0]), e))
                        break
                    table["literal=%s char=%s pending=%s" % (lit_, ch_, "Some({)" if pend_ != "None" else "None")] = "pushed" if pushed else "skipped"
                    if pushed != want_push:
                        uses_flag = False
            else:
                r.missing("the (literal, char) parameters and the pending-brace state of the collapse closure in %s" % hir.last(b.path.split("::{closure")[0]))
            r.inst("collapse per character in %s" % hir.last(b.path.split("::{closure")[0]), {"fn": b.path, "table": table, "pairs_only_literal_braces": uses_flag})
            if uses_flag is False:
                r.bad(b.path.split("::{closure")[0], "brace pairing ignores whether the brace was written literally", relfile(b.file), c.get("line"),
                      "the per-character collapse pairs up braces without asking whether they were written literally or produced by an escape sequence")
    return r


def rule_p7(F):
    """An accepted integer literal denotes its documented value: between the text and the run-time value (parser `simple_literal`
    -> type checker `literal` -> literal arm of the LIR lowering, which narrows the i64 with `as`) something has to reject a value
    that does not fit the literal's type; otherwise `300u8` silently denotes 44."""
    r = RuleResult("C09.P7", "integer literals are range-checked against their type somewhere between parsing and the narrowing cast of the lowering", floor=3)
    lowering = None
    for cand in F.bodies_in(["src/lir/lower.rs"]):
        if cand.mir and any(st["k"] == "assign" and st["rv"]["k"] == "agg" and st["rv"].get("variant") == "U8" and (st["rv"].get("adt") or "").endswith("IrValue")
                            and any(mir.is_place_op(o) for o in st["rv"]["ops"]) for blk in cand.blocks for st in blk["stmts"]):
            lowering = cand
    stages = [("parser simple_literal", [F.body(p) for p in F.paths() if p.endswith("::simple_literal") and "parser::expr" in p]),
              ("type checker literal", [F.body(p) for p in F.paths() if p.endswith("::literal") and "typechecker::expr" in p]),
              ("LIR literal lowering", [lowering] if lowering is not None else [])]
    checked = []
    for stage, bs in stages:
        b = bs[0] if bs else None
        if b is None or not b.mir:
            r.missing(stage)
            continue
        names_ = {hir.last(mir.callee_def(t)) for _, t in mir.calls(b)}
        gargs = {g for _, t in mir.calls(b) if hir.last(mir.callee_def(t)) == "parse" for g in (t["f"].get("gargs") or [])}
        if stage == "parser simple_literal":
            # only what happens in the arms for integer tokens counts (AS numbers etc. are parsed with their own types)
            names_, gargs = set(), set()
            for m in hir.nodes(b.hir["value"], "match"):
                for arm in m["arms"]:
                    if any(("Token::Integer" in a or "Token::Hex" in a) for a in hir.pat_alternatives(arm["pat"])):
                        for c in hir.nodes(arm["body"], "mcall"):
                            names_.add(c["m"])
                            if c["m"] == "parse":
                                gargs |= set(c.get("gargs") or [])
                        for c in hir.nodes(arm["body"], "call"):
                            names_.add(hir.last(hir.call_def(c) or ""))
        consts = set()
        for blk in b.blocks:
            for st in blk["stmts"]:
                if st["k"] == "assign":
                    for o in [st["rv"].get("o"), st["rv"].get("a"), st["rv"].get("b")] + list(st["rv"].get("ops", [])):
                        c = mir.op_const(o) if o is not None else None
                        if c is not None and ("MAX" in str(c.get("text", "")) or "MIN" in str(c.get("text", ""))):
                            consts.add(str(c.get("text")))
        has_check = bool(names_ & {"try_from", "try_into"}) or bool(consts) or bool(gargs & {"u8", "u16", "u32", "i8", "i16", "i32"})
        r.inst(stage, {"fn": b.path, "range_check_found": has_check, "parse_types": sorted(gargs)})
        if has_check:
            checked.append(stage)
    if lowering is not None and not checked:
        r.bad("integer literal pipeline", "no range check", relfile(lowering.file), lowering.line,
              "an integer literal is parsed as i64, given its type and narrowed with `as` in the lowering, and nothing on the way rejects a value that does not fit: `300u8` compiles and evaluates to 44")
    return r


def names(e):
    """Names of the locals an expression mentions directly (not followed)."""
    return {n["res"]["name"] for n in hir.walk(e) if n.get("k") == "path" and hir.res_local(n) is not None}


BINOP_SPELL = {"&&": "And", "||": "Or", "==": "Eq", "!=": "Ne", "<=": "Le", ">=": "Ge", "<": "Lt", ">": "Gt", "+": "Add", "-": "Sub", "*": "Mul", "/": "Div", "%": "Mod"}


def token_display(F, r):
    b = None
    for p in F.paths():
        if "Token" in p and p.endswith("std::fmt::Display>::fmt") and "parser::token" in p:
            b = F.body(p)
    if b is None:
        r.missing("Display for parser::token::Token")
        return {}, None
    out = {}
    for m in hir.find_match_on(b.hir["value"], "Token::", min_arms=20):
        for row in hir.table(m):
            body = hir.strip(row["body"])
            if body.get("k") == "lit" and body.get("lk") == "str":
                for a in row["alts"]:
                    if re.match(r"^Token::\w+$", a):
                        out[a.split("::")[1]] = body["v"]
    return out, b


def rule_p3(F):
    r = RuleResult("C09.P3", "spelling tables round-trip: keywords, punctuation bytes <-> Token Display, Token -> BinOp, numeric suffixes", floor=22 + 37 + 13 + 10 + 8)
    disp, db = token_display(F, r)
    # keywords
    kb = find_body(F, "::keyword_or_ident", r, contains="lexer")
    ab = None
    for p in F.paths():
        if p.endswith("Keyword::as_str"):
            ab = F.body(p)
    if ab is None:
        r.missing("Keyword::as_str")
    if kb and ab:
        lex = {}
        for m in hir.nodes(kb.hir["value"], "match"):
            for row in hir.table(m):
                for a in row["alts"]:
                    mm = re.match(r"^lit:'(.*)'$", a)
                    if mm and isinstance(row["result"], str) and row["result"].startswith("Keyword::"):
                        lex[mm.group(1)] = row["result"].split("::")[1]
        if not lex:
            # the table written as an array of (spelling, Keyword) pairs searched with `find` - in the function or in a `const` item
            # of the lexer that the function names; the search must compare the spelling with `==`
            srcs = [kb.hir["value"]]
            for n in hir.walk(kb.hir["value"]):
                d_ = hir.res_def(n) if n.get("k") == "path" else None
                cb_ = F.body(d_) if d_ and "parser::lexer" in d_ and F.has(d_) else None
                if cb_ is not None and cb_.hir and cb_.def_kind.startswith("Const"):
                    srcs.append(cb_.hir["value"])
            eq_search = any(m_["m"] in ("find", "find_map", "position") and m_["args"] and hir.strip(m_["args"][0]).get("k") == "closure"
                            and hir.strip(hir.strip(m_["args"][0]).get("body") or {}).get("k") == "bin" and hir.strip(hir.strip(m_["args"][0])["body"]).get("op") == "=="
                            for m_ in hir.nodes(kb.hir["value"], "mcall"))
            for src in srcs:
                for arr in hir.nodes(src, "array"):
                    for e in arr["elems"]:
                        e = hir.strip(e)
                        if e.get("k") == "tup" and len(e.get("elems") or []) == 2:
                            a_, b_ = [hir.strip(x) for x in e["elems"]]
                            kd = hir.result_desc(b_)
                            if a_.get("k") == "lit" and isinstance(a_.get("v"), str) and isinstance(kd, str) and "Keyword::" in kd and eq_search:
                                lex[a_["v"]] = kd.split("Keyword::")[1].split("(")[0]
        back = {}
        for m in hir.find_match_on(ab.hir["value"], "Keyword::", min_arms=5):
            for row in hir.table(m):
                body = hir.strip(row["body"])
                if body.get("k") == "lit":
                    for a in row["alts"]:
                        back[a.split("::")[1]] = body["v"]
        adt = F.adt("parser::token::Keyword")
        for v in (adt["variants"] if adt else []):
            name = v["name"]
            spell = back.get(name)
            r.inst("keyword " + name, {"keyword": name, "as_str": spell, "lexed_from": [k for k, x in lex.items() if x == name]})
            if spell is None or lex.get(spell) != name:
                r.bad(kb.path, "keyword " + name, relfile(kb.file), kb.line, "Keyword::%s prints as %r but the lexer maps %r to %s" % (name, spell, spell, lex.get(spell)))
        for s, k in lex.items():
            if back.get(k) != s:
                r.bad(kb.path, "keyword spelling " + s, relfile(kb.file), kb.line, "the lexer turns %r into Keyword::%s whose spelling is %r" % (s, k, back.get(k)))
    # punctuation
    for fn in ("::two_char_punctuation", "::one_char_punctuation"):
        b = find_body(F, fn, r, contains="lexer")
        if not b:
            continue
        for m in hir.nodes(b.hir["value"], "match"):
            for row in hir.table(m):
                if not (isinstance(row["result"], str) and row["result"].startswith("Token::")):
                    continue
                tok = row["result"].split("::")[1]
                for a in row["alts"]:
                    nums = re.findall(r"lit:(\d+)", a)
                    if not nums:
                        continue
                    text = "".join(chr(int(x)) for x in nums)
                    r.inst("punct " + text, {"bytes": text, "token": tok, "display": disp.get(tok)})
                    if disp.get(tok) != text:
                        r.bad(b.path, "punct " + text, relfile(b.file), row["line"], "the lexer turns %r into Token::%s, which is spelled %r" % (text, tok, disp.get(tok)))
        # bump length equals pattern length
        want = 2 if "two" in fn else 1
        bumps = [c for c in hir.nodes(b.hir["value"], "mcall") if c["m"] == "bump"]
        for c in bumps:
            v = [n.get("v") for n in hir.walk(c["args"][0]) if n.get("k") == "lit"]
            r.inst("%s bump" % fn)
            if v != [want]:
                r.bad(b.path, "bump length", relfile(b.file), c["line"], "%s consumes %s bytes for a %d-byte token" % (fn, v, want))
    # peek_binop
    pb = find_body(F, "::peek_binop", r, contains="parser::expr")
    if pb:
        seen = {}
        tables = [(xb, m) for xb in hir.with_callees(F, pb, depth=2, same_file=True) for m in hir.find_match_on(xb.hir["value"], "Token::", min_arms=5)]
        for xb, m in tables:
            for row in hir.table(m):
                res_ = row["result"]
                body_ = hir.strip(row["body"])
                if isinstance(res_, str) and "Some(" in res_ and body_.get("k") == "call" and len(body_.get("args") or []) == 1:
                    res_ = hir.result_desc(body_["args"][0])
                    if isinstance(res_, str) and "BinOp::" in res_:
                        res_ = "BinOp::" + res_.split("BinOp::")[1]
                if not (isinstance(res_, str) and res_.startswith("BinOp::")):
                    continue
                op = res_.split("::")[1]
                for a in row["alts"]:
                    tok = a.split("::")[1]
                    spell = disp.get(tok)
                    r.inst("binop token " + tok, {"token": tok, "spelling": spell, "op": op})
                    if BINOP_SPELL.get(spell) != op:
                        r.bad(pb.path, "binop token " + tok, relfile(pb.file), row["line"], "`%s` is parsed as BinOp::%s, the language defines it as %s" % (spell, op, BINOP_SPELL.get(spell)))
                    if op in seen:
                        r.bad(pb.path, "binop token " + tok, relfile(pb.file), row["line"], "BinOp::%s is produced by both %s and %s" % (op, seen[op], tok))
                    seen[op] = tok
        for op in BINOP_SPELL.values():
            if op not in seen:
                r.bad(pb.path, "binop " + op, relfile(pb.file), pb.line, "no token is parsed as BinOp::%s" % op)
    # numeric suffixes in simple_literal
    sb = find_body(F, "::simple_literal", r, contains="parser::expr")
    if sb:
        # the suffix table may live in private helpers of the parser that simple_literal calls (`int_type_of_suffix(..)`)
        for m in [m_ for fb_ in hir.with_callees(F, sb, depth=2, same_file=True) for m_ in hir.nodes(fb_.hir["value"], "match")]:
            for row in hir.table(m):
                for a in row["alts"]:
                    mm = re.match(r"^lit:'([iuf]\d+)'$", a)
                    if not mm:
                        continue
                    suf = mm.group(1)
                    # arms of an inner match on the same scrutinee that cannot be taken for this suffix do not count
                    outer_l = hir.res_local(hir.peel_refs(hir.strip(m["e"])))
                    dead = set()
                    for im in hir.nodes(row["body"], "match"):
                        if im is m or outer_l is None or hir.res_local(hir.peel_refs(hir.strip(im["e"]))) != outer_l:
                            continue
                        taken = False
                        for arm in im["arms"]:
                            alts_i = hir.pat_alternatives(arm["pat"])
                            hit = (not taken) and not arm.get("guard") and ("lit:'%s'" % suf in alts_i or "_" in alts_i)
                            if hit:
                                taken = True
                            else:
                                dead |= {id(x) for x in hir.walk(arm["body"])}
                    tys = set()
                    for n in hir.walk(row["body"]):
                        if id(n) in dead:
                            continue
                        d = hir.res_def(n) if n.get("k") == "path" else None
                        if d and ("IntType::" in d or "FloatType::" in d):
                            tys.add(hir.last(d))
                    r.inst("suffix " + suf, {"suffix": suf, "type": sorted(tys)})
                    if tys and tys != {suf.upper()}:
                        r.bad(sb.path, "suffix " + suf, relfile(sb.file), row["line"], "literal suffix `%s` selects %s" % (suf, sorted(tys)))
    if sb:
        # .. or be written as `const` arrays of (suffix, type) pairs searched with `find(|(name, _)| *name == suffix)`
        fam = hir.with_callees(F, sb, depth=2, same_file=True)
        consts = {}
        for fb_ in fam:
            for n in hir.walk(fb_.hir["value"]):
                d_ = hir.res_def(n) if n.get("k") == "path" else None
                cb_ = F.body(d_) if d_ and "parser::expr" in d_ and F.has(d_) else None
                if cb_ is not None and cb_.hir and cb_.def_kind.startswith("Const"):
                    consts[d_] = cb_
        eq_search = any(m_["m"] in ("find", "find_map", "position") and m_["args"] and hir.strip(m_["args"][0]).get("k") == "closure"
                        and hir.strip(hir.strip(m_["args"][0]).get("body") or {}).get("k") == "bin" and hir.strip(hir.strip(m_["args"][0])["body"]).get("op") == "=="
                        for fb_ in fam for m_ in hir.nodes(fb_.hir["value"], "mcall"))
        for d_, cb_ in sorted(consts.items()):
            for arr in hir.nodes(cb_.hir["value"], "array"):
                for e in arr["elems"]:
                    e = hir.strip(e)
                    if not (e.get("k") == "tup" and len(e.get("elems") or []) == 2):
                        continue
                    a_, b_ = [hir.strip(x) for x in e["elems"]]
                    td = hir.res_def(b_) if b_.get("k") == "path" else None
                    if not (a_.get("k") == "lit" and isinstance(a_.get("v"), str) and re.match(r"^[iuf]\d+$", a_["v"]) and td and ("IntType::" in td or "FloatType::" in td)):
                        continue
                    suf = a_["v"]
                    r.inst("suffix " + suf, {"suffix": suf, "type": [hir.last(td)], "table": d_, "searched_by_equality": eq_search})
                    if hir.last(td) != suf.upper():
                        r.bad(cb_.path, "suffix " + suf, relfile(cb_.file), e.get("line") or cb_.line, "literal suffix `%s` selects %s" % (suf, hir.last(td)))
                    if not eq_search:
                        r.bad(cb_.path, "suffix " + suf, relfile(cb_.file), e.get("line") or cb_.line, "the suffix table is not searched by comparing the whole suffix with `==`")
    # IntType / FloatType -> type name used by the type checker
    lb = None
    for p in F.paths():
        if p.endswith("::literal") and "typechecker::expr" in p:
            lb = F.body(p)
    if lb is None:
        r.missing("typechecker literal()")
    else:
        n = 0
        for m in hir.nodes(lb.hir["value"], "match"):
            for row in hir.table(m):
                body = hir.strip(row["body"])
                for a in row["alts"]:
                    mm = re.match(r"^(IntType|FloatType)::(\w+)$", a)
                    if mm and body.get("k") == "lit":
                        n += 1
                        r.inst("type name " + mm.group(2), {"ast": a, "type_name": body["v"]})
                        if body["v"] != mm.group(2).lower():
                            r.bad(lb.path, "type name " + mm.group(2), relfile(lb.file), row["line"], "a literal with suffix type %s is given the type `%s`" % (a, body["v"]))
        if n < 8:
            r.missing("IntType -> type name table in typechecker literal() (found %d rows)" % n)
    return r


ORDER = ["ipv6", "ipv4", "two_char_punctuation", "one_char_punctuation", "as_number", "hex_number", "number", "f_string", "string", "char", "keyword_or_ident"]
# orderings that matter (earlier must be tried first): reason
MUST_PRECEDE = [
    ("ipv6", "number", "`1::2` would lex as the integer 1"),
    ("ipv4", "number", "`1.2.3.4` would lex as floats"),
    ("ipv6", "keyword_or_ident", "`ab::1` hex groups start like identifiers"),
    ("ipv6", "one_char_punctuation", "`::1` starts with a colon"),
    ("two_char_punctuation", "one_char_punctuation", "`==` would lex as two `=`"),
    ("as_number", "keyword_or_ident", "`AS123` would lex as an identifier"),
    ("hex_number", "number", "`0x1F` would lex as 0 followed by an identifier"),
    ("f_string", "keyword_or_ident", "`f\"..\"` would lex as identifier f"),
    ("f_string", "string", "documented order"),
]


def rule_p4(F):
    from .. import mir
    r = RuleResult("C09.P4", "token recognisers are tried in the required priority order", floor=len(MUST_PRECEDE))
    b = find_body(F, "::next_token", r, contains="lexer")
    if not b:
        return r
    dom = mir.dominators(b)
    pos = {}
    for bi, t in mir.calls(b):
        name = hir.last(mir.callee_def(t))
        if name in ORDER and name not in pos:
            pos[name] = bi
    for a, c, why in MUST_PRECEDE:
        key = "%s before %s" % (a, c)
        r.inst(key, {"first": a, "then": c, "why": why})
        if a not in pos or c not in pos:
            r.bad(b.path, key, relfile(b.file), b.line, "recogniser %s or %s is no longer called from next_token" % (a, c))
        elif pos[a] not in dom[pos[c]] or pos[a] == pos[c]:
            r.bad(b.path, key, relfile(b.file), b.line, "%s must be tried before %s: %s" % (a, c, why))
    return r


def rule_p1(F):
    bodies = [b for b in F.bodies_in(["src/parser/lexer.rs", "src/parser/expr.rs", "src/parser/mod.rs", "src/parser/meta.rs"]) if b.mir]
    r = c06.rule_u1(F, bodies=bodies)
    r.rule = "C09.P1"
    for v in r.violations:
        v.rule = "C09.P1"
    r.desc = "byte/char unit discipline in the lexer and literal parser (C06.U1 restricted to parser::*)"
    r.floor = 6
    return r


def rule_p8(F):
    """Where a quoted literal ends: the scanners of string and char literals walk the text with a one-bit state 'the previous
    character was an unescaped backslash'.  The transition table is fixed by the grammar and is evaluated here for every
    combination of state and character class (finite: 2 x 3), whatever the code looks like: an escaped character never ends the
    literal and never escapes the next one (`"C:\\"` ends at its last quote); an unescaped quote ends it; an unescaped backslash
    escapes exactly the next character."""
    from .. import symex
    r = RuleResult("C09.P8", "string / char literal scanners: the escape state follows the grammar's transition table for every (state, character class)", floor=1)
    verified = set()   # enclosing functions that contain a scanner closure with the right table
    for cb in F.bodies_in(["src/parser/lexer.rs"]):
        if cb.def_kind != "Closure" or not cb.hir or "::tests::" in cb.path:
            continue
        params = cb.hir.get("params", [])
        if len(params) != 1:
            continue
        pb = [x for x in hir.walk(params[0]) if x.get("k") == "bind"]
        if len(pb) != 1 or "char" not in str(params[0].get("ty") or pb[0].get("ty") or ""):
            continue
        bound = {x.get("local") for x in hir.walk(cb.hir) if x.get("k") == "bind"}
        flags, free = set(), {}
        for x in hir.walk(cb.hir["value"]):
            if x.get("k") in ("assign", "assignop"):
                l = hir.res_local(hir.peel_refs(hir.strip(x["lhs"])))
                if l is not None and l not in bound:
                    flags.add(l)
            if x.get("k") == "path" and hir.res_local(x) is not None and hir.res_local(x) not in bound:
                free[hir.res_local(x)] = x.get("ty")
        chars = {x.get("v") for x in hir.walk(cb.hir["value"]) if x.get("k") in ("lit", "plit") and (x.get("ty") == "char" or x.get("lk") == "char")}
        if len(flags) != 1 or "\\" not in chars:
            continue  # not an escape scanner
        flag = list(flags)[0]
        quotes = [c for c in chars if c != "\\"]
        captured_quote = [l for l, ty in free.items() if l != flag and "char" in str(ty)]
        env0 = {}
        if len(quotes) == 1 and not captured_quote:
            q = quotes[0]
        elif not quotes and len(captured_quote) == 1:
            q = '"'
            env0[captured_quote[0]] = q   # the quote is a parameter of the enclosing helper: any character other than a backslash
        else:
            r.missing("the terminating character of the scanner closure %s" % cb.path)
            continue
        owner = cb.path.split("::{closure")[0]
        expected = {(True, q): (False, False), (True, "\\"): (False, False), (True, "a"): (False, False),
                    (False, q): (True, None), (False, "\\"): (False, True), (False, "a"): (False, False)}
        rows, bad, unknown = {}, [], None
        for (st, ch), (eret, eflag) in expected.items():
            try:
                env = dict(env0)
                env[flag] = st
                env[pb[0]["local"]] = ch
                m = symex.Machine(cb.hir, env)
                ret = m.run()
                got = (ret, m.env.get(flag))
            except symex.Unknown as e:
                unknown = str(e)
                break
            cls = {q: "quote", "\\": "backslash"}.get(ch, "other")
            rows["escaped=%s, %s" % (st, cls)] = {"ends": got[0], "escaped_next": got[1]}
            if got[0] != eret or (eflag is not None and got[1] != eflag):
                bad.append("state escaped=%s, character %s: ends=%s escaped_next=%s (grammar: ends=%s escaped_next=%s)" % (st, cls, got[0], got[1], eret, eflag))
        if unknown is not None:
            r.missing("an evaluable scanner closure in %s (%s)" % (hir.last(owner), unknown))
            continue
        r.inst("%s scanner" % hir.last(owner), {"closure": cb.path, "quote": "captured" if env0 else q, "table": rows})
        if bad:
            r.bad(owner, "escape transition table", relfile(cb.file), cb.line,
                  "the scanner of quoted literals in %s deviates from the grammar: %s - a literal that ends in an escaped backslash does not end at its closing quote (or an escaped quote ends it)" % (hir.last(owner), "; ".join(bad)))
        else:
            verified.add(owner)
    # both literal kinds go through a scanner (their own closure, or a shared helper they call)
    for fn in ("string", "char"):
        ps = [p for p in F.paths() if "parser::lexer::Lexer" in p and p.endswith("::" + fn)]
        ok = False
        for p in ps:
            fb = F.body(p)
            if p in verified or (fb is not None and fb.mir and any(mir.callee(t) in verified for _, t in mir.calls(fb))):
                ok = True
        r.inst("Lexer::%s reaches a scanner" % fn, {"ok": ok})
        if not ok and not r.violations:
            r.missing("the escape scanner used by Lexer::%s" % fn)
    return r


def rule_p10(F):
    """A number with a fraction or an exponent is a float (`10e5`, `5E-5` are the reference's own examples): in Lexer::number, once
    the `.` of a fraction or the `e` / `E` of an exponent has been consumed, the token that is built is Token::Float on every path -
    decided by following the boolean state from the consuming call to the token construction (path-sensitive)."""
    r = RuleResult("C09.P10", "number tokens: after a fraction point or an exponent marker was consumed the token is a Float on every path", floor=2)
    ps = [p for p in F.paths() if "parser::lexer::Lexer" in p and p.endswith("::number")]
    if not ps:
        r.missing("Lexer::number")
        return r
    b = F.body(ps[0])
    defs = mir.Defs(b)
    ints = [bi for bi, blk in enumerate(b.blocks) for st in blk["stmts"] if st["k"] == "assign" and st["rv"]["k"] == "agg" and st["rv"].get("variant") == "Integer" and "Token" in str(st["rv"].get("adt"))]
    flts = [bi for bi, blk in enumerate(b.blocks) for st in blk["stmts"] if st["k"] == "assign" and st["rv"]["k"] == "agg" and st["rv"].get("variant") == "Float" and "Token" in str(st["rv"].get("adt"))]
    if not ints or not flts:
        r.missing("the Token::Integer / Token::Float constructions in Lexer::number")
        return r

    def chars_of(t):
        out = set()
        for a in t["args"][1:]:
            c = mir.op_const(a)
            txt = str(c.get("text", "")) if c is not None else ""
            if not txt and mir.is_place_op(a):
                for d in defs.whole_defs(a[1][0]):
                    if d[2] == "assign" and d[3]["rv"]["k"] == "agg":
                        for o in d[3]["rv"].get("ops", []):
                            cc = mir.op_const(o)
                            if cc is not None:
                                out.add(str(cc.get("text", "")).strip("'"))
                    elif d[2] == "assign" and d[3]["rv"]["k"] == "use":
                        cc = mir.op_const(d[3]["rv"]["o"])
                        if cc is not None:
                            txt = str(cc.get("text", ""))
            if txt:
                out.add(txt.strip("'"))
        return out
    def marker(cs):
        return "exponent marker" if cs & {"e", "E"} else ("fraction point" if cs & {"."} else None)

    def chars_in(bb, dd, t):
        nonlocal defs, b
        sb, sd = b, defs
        b, defs = bb, dd
        try:
            return chars_of(t)
        finally:
            b, defs = sb, sd

    # helpers of the lexer that consume a marker and say so: `fn eat_exponent(rest) -> bool` - consumed => returns true
    helper_marks = {}
    for hb in F.bodies_in(["src/parser/lexer.rs"]):
        if not hb.mir or hb.path == b.path or "{closure" in hb.path or "bool" != (hb.mir["locals"][0].get("ty") or ""):
            continue
        hdefs = mir.Defs(hb)
        for hbi, ht in mir.calls(hb):
            if hir.last(mir.callee(ht) or "") not in ("eat_char", "eat_one_of", "eat_str"):
                continue
            w = marker(chars_in(hb, hdefs, ht))
            if w is None:
                continue
            rets = set()
            mir.bool_sim(hb, {("call", hbi): True}, start=hbi, returns=rets)
            says_so = rets == {True}
            helper_marks[hb.path] = (w, says_so, ht.get("line"))
    n = set()
    sites = []          # (what, line, start block, atoms)
    for bi, t in mir.calls(b):
        c = mir.callee(t) or ""
        name = hir.last(c)
        if name in ("eat_char", "eat_one_of", "eat_str"):
            w = marker(chars_of(t))
            if w:
                sites.append((w, t.get("line"), bi, {("call", bi): True}))
        elif c in helper_marks:
            w, says_so, hl = helper_marks[c]
            if not says_so:
                r.bad(b.path, "%s consumed by a helper that does not report it" % w, relfile(b.file), t.get("line"),
                      "%s consumes the %s of a number but can return false afterwards: its caller cannot know that the literal is a float" % (hir.last(c), w))
            sites.append((w + " (via %s)" % hir.last(c), t.get("line"), bi, {("call", bi): True}))
        elif name in ("strip_prefix", "split_once", "split_at") and marker(chars_of(t)):
            # consumption = the remainder handed out by the call is stored into a string cursor
            w = marker(chars_of(t))
            # the cursor: the string local(s) whose final value is handed to the call that takes the token off the input
            cursors = set()
            for _, bt in mir.calls(b):
                if hir.last(mir.callee(bt) or "") not in ("bump_to", "bump", "advance_to") or len(bt["args"]) < 2:
                    continue
                for a in bt["args"][1:]:
                    if mir.is_place_op(a):
                        root, _p = mir.origin(b, defs, a[1])
                        m_ = re.match(r"local(\d+)", root)
                        if m_:
                            cursors.add(int(m_.group(1)))
            for bj, blk in enumerate(b.blocks):
                for st in blk["stmts"]:
                    if st["k"] != "assign" or len(st["p"]) != 1 or st["p"][0] not in cursors or st["rv"]["k"] != "use" or not mir.is_place_op(st["rv"]["o"]):
                        continue
                    src = st["rv"]["o"][1]
                    if bi in mir.back_calls(b, defs, src[0]) or any(d[0] == bi for d in defs.defs.get(src[0], [])):
                        sites.append((w + " (remainder of %s stored)" % name, st.get("line"), bj, {}))
    for w, line, start, atoms in sites:
        n.add(w.split(" (")[0])
        reached = mir.bool_sim(b, atoms, start=start)
        int_reach = [x for x in ints if x in reached]
        r.inst("%s consumed at line %s" % (w, line), {"line": line, "Integer_token_still_reachable": bool(int_reach)})
        if int_reach:
            r.bad(b.path, "%s consumed but an Integer token can be built" % w.split(" (")[0], relfile(b.file), line,
                  "after the %s of a number has been consumed, Lexer::number can still build Token::Integer: a documented float spelling such as `10e5` (or `1.5`) is lexed as an integer "
                  "literal and rejected (or parsed with the wrong type)" % w.split(" (")[0])
    if len(n) < 2:
        r.missing("the calls that consume the fraction point and the exponent marker in Lexer::number (found %d)" % len(n))
    return r


def rule_p11(F):
    """A float literal of type f32 denotes the f32 nearest to its decimal text.  Rounding the text to an f64 first and narrowing that
    rounds twice, which differs for decimals just above (below) the midpoint of two f32 values that lie within half an f64 ulp of it
    (`1.00000005960464478` is 1.0000001, not 1.0).  So no f64 -> f32 narrowing is applied to the payload of a float literal of the
    syntax tree (wherever the f32 value is made, it has to come from the text)."""
    r = RuleResult("C09.P11", "the f32 value of a float literal is not made by narrowing an f64 parse of its text (single rounding)", floor=1)
    n = 0
    for b in F.all_bodies():
        if not b.mir or not (b.path.startswith("lir::") or b.path.startswith("mir::") or b.path.startswith("typechecker::") or b.path.startswith("parser::") or b.path.startswith("codegen::")):
            continue
        defs = None
        for blk in b.blocks:
            for st in blk["stmts"]:
                if st["k"] != "assign" or st["rv"]["k"] != "cast" or st["rv"].get("ck") != "FloatToFloat" or st["rv"].get("ty") != "f32":
                    continue
                o = st["rv"]["o"]
                if not mir.is_place_op(o):
                    continue
                defs = defs or mir.Defs(b)
                root, path = mir.origin(b, defs, o[1])
                lit = root.startswith("arg") and "as:Float" in path and "ast::Literal" in (b.mir["locals"][int(root[3:])].get("ty") or "")
                via_parse = root.startswith("call:") and "parse" in root and b.path.startswith("parser::")
                if not (lit or via_parse):
                    continue
                n += 1
                r.inst("narrowing of a literal's f64 value in %s" % b.path, {"fn": b.path, "line": st["line"], "operand": "%s %s" % (root, "".join(path))})
                r.bad(b.path, "f32 literal narrowed from f64", relfile(b.file), st["line"],
                      "the f32 value of a float literal is `payload as f32` of the f64 the parser made from the text: two roundings; a decimal within half an f64 ulp above the midpoint of two "
                      "f32 values gets the lower one (1.00000005960464478f32 == 1.0f32)")
    lowering = [p for p in F.paths() if p.endswith("::literal") and "lir::lower" in p]
    if not lowering:
        r.missing("lir::lower literal lowering")
    else:
        r.inst("literal lowering inspected", {"fn": lowering[0], "narrowing_casts_of_literal_payloads": n})
    return r


BACKWARD_STR = {"ends_with", "rfind", "strip_suffix", "rsplit_once", "rsplit", "rsplitn", "rmatches", "rmatch_indices", "trim_end_matches", "next_back", "last", "rev"}


def _returns_prefix(hb):
    """does the function return (a value derived from) `text[..n]`?"""
    hdefs = mir.Defs(hb)
    seen, work = set(), [0]
    while work:
        l = work.pop()
        if l in seen:
            continue
        seen.add(l)
        for d in hdefs.defs.get(l, []):
            if d[2] == "call":
                t = d[3]
                if hir.last(mir.callee_def(t) or "") in ("index", "get", "get_unchecked", "split_at"):
                    for a in t.get("args") or []:
                        if mir.is_place_op(a):
                            ty = str(hb.mir["locals"][a[1][0]].get("ty") or "")
                            if "RangeTo<" in ty or "RangeToInclusive<" in ty:
                                return True
                for a in t.get("args") or []:
                    if mir.is_place_op(a):
                        work.append(a[1][0])
            elif d[2] == "assign":
                work.extend(mir.rv_locals(d[3]["rv"]))
    return False


def rule_p12(F, bodies=None):
    """Escape-aware scanners read left to right.  What a character means (a brace that starts an interpolation, a quote that ends a
    literal) depends on the escapes consumed before it, and those cannot be recovered from the raw text in front of the cursor:
    an escaped backslash followed by the letter u and an interpolation ends in backslash-u-brace although that is no unicode escape.
    So no scanner of the lexer decides by looking at a prefix of the input (`input[..i]`) from the back (ends_with / rfind /
    strip_suffix / rsplit / rev)."""
    r = RuleResult("C09.P12", "no lexer scanner decides what a character means by looking backwards over the raw text before the cursor", floor=0)
    bodies = bodies if bodies is not None else [b for b in F.bodies_in(["src/parser/lexer.rs"]) if b.mir and "::tests::" not in b.path]
    n = 0
    for b in bodies:
        defs = mir.Defs(b)

        def prefix_slice(local, seen=None, depth=0):
            """does the value derive from `text[..i]`?"""
            seen = seen if seen is not None else set()
            if local in seen or depth > 25:
                return False
            seen.add(local)
            for d in defs.defs.get(local, []):
                if d[2] == "call":
                    t = d[3]
                    nm = hir.last(mir.callee_def(t) or "")
                    if nm in ("index", "get", "get_unchecked", "split_at"):
                        for a in t.get("args") or []:
                            if mir.is_place_op(a):
                                ty = str(b.mir["locals"][a[1][0]].get("ty") or "")
                                if "RangeTo<" in ty or "RangeToInclusive<" in ty:
                                    return True
                    # a crate helper that returns a prefix of the text (`fn eaten(&self, tail) -> &str { &self.input[..n] }`)
                    cal = mir.callee(t) or mir.callee_def(t) or ""
                    if F is not None and hasattr(F, "has") and F.has(cal) and cal != b.path and depth < 3:
                        hb = F.body(cal)
                        if hb is not None and hb.mir and _returns_prefix(hb):
                            return True
                    for a in t.get("args") or []:
                        if mir.is_place_op(a) and prefix_slice(a[1][0], seen, depth + 1):
                            return True
                elif d[2] == "assign":
                    for x in mir.rv_locals(d[3]["rv"]):
                        if prefix_slice(x, seen, depth + 1):
                            return True
            return False

        for bi, t in mir.calls(b):
            nm = hir.last(mir.callee_def(t) or "")
            full = mir.callee(t) or mir.callee_def(t) or ""
            if nm not in BACKWARD_STR or "str" not in full.lower():
                continue
            n += 1
            a0 = (t.get("args") or [None])[0]
            if a0 is not None and mir.is_place_op(a0) and prefix_slice(a0[1][0]):
                r.bad(b.path, "looks backwards over input[..i] (%s)" % nm, relfile(b.file), t.get("line") or b.line,
                      "%s calls %s on a prefix `text[..i]` of the input: the scanner decides what the character at i means from the raw characters in front of it, "
                      "which an earlier escape may already have consumed (an f-string with an escaped backslash, the letter u and an interpolation)" % (hir.last(b.path), nm))
    r.inst("backward-looking str calls examined: %d in %d lexer bodies" % (n, len(bodies)))
    return r


def rule_p13(F):
    """Identifiers are XID_Start (or `_`) followed by XID_Continue: the extent of an identifier / keyword token is fixed by a scan of
    the tail whose predicate asks `is_xid_continue`.  On the MIR of Lexer::keyword_or_ident every path from the entry to the point
    where the token is cut off (`bump_to` / `bump`) passes through such a scan.  (An ASCII fast path that scans `[a-zA-Z0-9_]*` and
    cuts the token there splits `Straße` into `Stra` and `ße`.)  Limitation, stated: a fast path that falls back to the Unicode scan
    behind an explicit `if` would have to be entered as reviewed - the rule asks for the scan on every path."""
    r = RuleResult("C09.P13", "identifier tokens end where a scan with is_xid_continue ends, on every path of keyword_or_ident", floor=1)
    ps = [p for p in F.paths() if p.endswith("::keyword_or_ident") and "parser::lexer" in p and "{closure" not in p]
    if not ps:
        r.missing("parser::lexer keyword_or_ident")
        return r
    b = F.body(ps[0])
    if not b.mir:
        r.missing("MIR of keyword_or_ident")
        return r
    defs = mir.Defs(b)

    def asks_xid_continue(path, depth=0):
        cb = F.body(path) if path and F.has(path) else None
        if cb is None or not cb.mir or depth > 2:
            return False
        for _, t in mir.calls(cb):
            d = (mir.callee_def(t) or "") + " " + (mir.callee(t) or "")
            if "is_xid_continue" in d:
                return True
            c = mir.callee(t) or ""
            if c.startswith("parser::") and c != path and asks_xid_continue(c, depth + 1):
                return True
        return any(asks_xid_continue(q, depth + 1) for q in F.paths() if q.startswith(path + "::{closure"))
    scans, cuts = [], []
    for bi, t in mir.calls(b):
        nm = hir.last(mir.callee_def(t) or mir.callee(t) or "")
        if nm in ("bump_to", "bump", "bump_by"):
            cuts.append(bi)
        ok = False
        for a in t["args"]:
            if mir.is_place_op(a):
                for d in defs.whole_defs(a[1][0]):
                    if d[2] == "assign" and d[3]["rv"]["k"] == "agg" and d[3]["rv"].get("ak") == "closure" and asks_xid_continue(d[3]["rv"].get("def")):
                        ok = True
            else:
                c = mir.op_const(a)
                if c is not None and "is_xid_continue" in str(c.get("fn") or c.get("ty") or ""):
                    ok = True
        c_ = mir.callee(t) or ""
        if not ok and c_.startswith("parser::lexer") and c_ != b.path and hir.last(c_) not in ("bump_to", "bump") and asks_xid_continue(c_):
            ok = True       # a private helper that makes the scan
        if ok:
            scans.append(bi)
    if not cuts:
        r.missing("the call that cuts the token off (bump_to) in keyword_or_ident")
        return r
    for cb_ in cuts:
        seen, work, reached = set(), [0], False
        while work:
            x = work.pop()
            if x in seen or x in scans:
                continue
            seen.add(x)
            if x == cb_:
                reached = True
                break
            work.extend(mir.succs(b.blocks[x]))
        r.inst("token cut #%d" % cb_, {"line": b.blocks[cb_]["term"].get("line"), "xid_continue_scans": len(scans), "reachable_without_the_scan": reached})
        if reached:
            r.bad(b.path, "identifier cut off without an XID_Continue scan", relfile(b.file), b.blocks[cb_]["term"].get("line") or b.line,
                  "a path of keyword_or_ident fixes the end of an identifier without scanning the tail with is_xid_continue: an identifier that continues with a non-ASCII XID_Continue "
                  "character (`Straße`, `café_au_lait`) is cut into two tokens")
    return r


def rule_p14(F):
    """Every character of the source is lexed exactly once and in order: the lexer's cursor (`Lexer::input`, the not yet consumed rest
    of the text) only ever becomes a SUFFIX OF ITSELF.  An assignment that recomputes it from something else (a saved copy of the
    whole source and an offset: a "rewind" after look-ahead) can resume at a position that is not where the raw text that follows
    starts - after `{ f"` the parser reads the f-string body raw, and a rewind to the start of the next token skips the body's
    leading whitespace, which is part of the string."""
    from .c08 import deps
    r = RuleResult("C09.P14", "the lexer's cursor only moves forward: every assignment to Lexer::input is computed from the current input", floor=1)
    n = 0
    for b in F.bodies_in(["src/parser/lexer.rs", "src/parser/mod.rs", "src/parser/expr.rs"]):
        if not b.mir or "::tests::" in b.path:
            continue
        defs = None
        for bi, blk in enumerate(b.blocks):
            for st in blk["stmts"]:
                if st["k"] != "assign" or not any(isinstance(e, list) and e[0] == "f" and e[2] == "input" for e in st["p"][1:]):
                    continue
                if "Lexer" not in str(b.mir["locals"][st["p"][0]].get("ty") or ""):
                    continue
                defs = defs or mir.Defs(b)
                srcs = set()
                for x in mir.rv_locals(st["rv"]):
                    srcs |= set(deps(b, defs, x))
                n += 1
                from_input = any(x.endswith(".input") or ".input." in x for x in srcs)
                elsewhere = sorted(x for x in srcs if "." in x and not (x.endswith(".input") or ".input." in x) and x.split(".")[0] == "arg1")
                r.inst("%s sets the cursor #%d" % (hir.last(b.path), n), {"fn": b.path, "line": st.get("line"), "computed_from": sorted(srcs)[:6]})
                if not from_input or elsewhere:
                    r.bad(b.path, "cursor recomputed from %s" % (", ".join(elsewhere) or "something else than the current input"), relfile(b.file), st.get("line") or b.line,
                          "%s sets the lexer's cursor from %s instead of from the current input: the cursor can move to a position that is not where the text that is read next starts "
                          "(a rewind after look-ahead drops or repeats characters - e.g. the leading whitespace of an f-string body)" % (hir.last(b.path), sorted(srcs)[:4]))
    if n == 0:
        r.missing("an assignment to Lexer::input in the parser")
    return r


def rule_p15(F):
    """A number literal denotes the number its digits spell: between the text-to-number conversion (`parse`, `from_str_radix`) and the
    `Literal` it ends up in there is no numeric `as` cast.  A cast is where a spelling silently gets another value: `u64::from_str_radix
    (..)? as i64` makes `0xFFFFFFFFFFFFFFFF` the i64 -1 (and `0x8000000000000000 > 1` false) instead of a literal that does not fit.
    Forward data-flow over the MIR of the literal parser and its private helpers: the result of a cast never reaches a
    `Literal::Integer` / `Literal::Float` aggregate."""
    r = RuleResult("C09.P15", "number literals: the parsed value reaches the AST without a numeric cast (no reinterpretation of the digits' value)", floor=3)
    sb = None
    for p_ in F.paths():
        if p_.endswith("::simple_literal") and "parser::expr" in p_ and "{closure" not in p_:
            sb = F.body(p_)
    if sb is None or not sb.hir:
        r.missing("parser::expr simple_literal")
        return r
    fam = [x for x in hir.with_callees(F, sb, depth=2, same_file=True) if x.mir]
    fam += [F.body(q) for x in list(fam) for q in F.paths() if q.startswith(x.path + "::{closure") and F.body(q) is not None and F.body(q).mir]
    sites = 0
    for b in fam:
        aggs = [(bi, st) for bi, blk in enumerate(b.blocks) for st in blk["stmts"]
                if st["k"] == "assign" and st["rv"]["k"] == "agg" and hir.last(st["rv"].get("adt") or "") == "Literal" and st["rv"].get("variant") in ("Integer", "Float")]
        if not aggs:
            continue
        tainted = {}
        for bi, blk in enumerate(b.blocks):
            for st in blk["stmts"]:
                if st["k"] == "assign" and st["rv"]["k"] == "cast" and st["rv"].get("ck") in ("IntToInt", "FloatToFloat", "IntToFloat", "FloatToInt") and not st.get("exp"):
                    tainted[st["p"][0]] = (st.get("line"), "%s to %s" % (st["rv"].get("ck"), st["rv"].get("ty")))
        changed = True
        while changed and tainted:
            changed = False
            for bi, blk in enumerate(b.blocks):
                for st in blk["stmts"]:
                    if st["k"] == "assign" and st["p"][0] not in tainted:
                        hit = [l for l in mir.rv_locals(st["rv"]) if l in tainted]
                        if hit:
                            tainted[st["p"][0]] = tainted[hit[0]]
                            changed = True
                t = blk["term"]
                if t["k"] == "call" and t.get("dest") and t["dest"][0] not in tainted:
                    hit = [a[1][0] for a in t["args"] if mir.is_place_op(a) and a[1][0] in tainted]
                    if hit:
                        tainted[t["dest"][0]] = tainted[hit[0]]
                        changed = True
        for bi, st in aggs:
            sites += 1
            ops = [o[1][0] for o in st["rv"].get("ops") or [] if mir.is_place_op(o)]
            hit = [tainted[l] for l in ops[:1] if l in tainted]
            r.inst("%s: Literal::%s line-independent #%d" % (hir.last(b.path), st["rv"]["variant"], sites), {"fn": b.path, "line": st.get("line"), "value_passed_through_cast": bool(hit)})
            if hit:
                r.bad(b.path, "Literal::%s value passes through a cast" % st["rv"]["variant"], relfile(b.file), hit[0][0] or st.get("line") or b.line,
                      "the value of a Literal::%s passes through an `as` cast (%s) between the conversion of the digits and the literal: spellings whose number does not fit the "
                      "type the parser reads them into are given another value instead of being refused (`0xFFFFFFFFFFFFFFFF` as an i64 is -1)" % (st["rv"]["variant"], hit[0][1]))
    if sites == 0:
        r.missing("the construction of Literal::Integer / Literal::Float in the literal parser")
    return r


def rules(ctx):
    F = ctx["F"]
    return [rule_p1(F), rule_p2(F), rule_p3(F), rule_p4(F), rule_p5(F), rule_p6(F), rule_p7(F), rule_p8(F), rule_p9(F), rule_p10(F), rule_p11(F), rule_p12(F), rule_p13(F), rule_p14(F), rule_p15(F)]


def canary(C):
    bodies = [b for b in C.all_bodies() if b.mir]
    r = rule_p12(C, bodies=bodies)
    return [{"rule": "C09.P12", "fired": [v.key for v in r.violations], "expect_min": 1}]
