"""C10 - well-typed scripts and built-ins cannot kill the host process."""
import re
from .. import mir, hir
from ..callgraph import CallGraph
from ..facts import relfile
from ..registry import registrations
from ..report import RuleResult
from .c01 import find_body, roots, field_roots
from .c20 import arm_named

EXPLANATION = (
    "Absence of traps for all operand values in generated code is not decided in general. Decided: K1 every cranelift instruction "
    "from the trapping set (sdiv, udiv, srem, urem, trap*, fcvt_to_[su]int, *_overflow_trap) emitted by the code generator must be "
    "preceded in the same arm by the emission of a guard on its operand (comparison + branch/select/trapz-free path); K2 every panic "
    "site (unwrap/expect/panic!/assert/index and std functions that panic on part of their domain) in the bodies of the 93 registered "
    "built-ins and their crate-local callees (call graph) must be discharged by a reviewed (function, kind, producer) table - mutex "
    "poisoning, documented memory exhaustion, loop-bounded indices, debug assertions - because a panic inside an extern \"C\" trampoline "
    "aborts the host."
)
EXPLANATION += (  # round-3 supplement
    ' K3 no unguarded unsigned subtraction in built-ins (canary). K4 = C15.M4: list accessors compute element addresses only after index < len held (boolean path simulation).'
)
ASSUMPTIONS = [
    "cranelift: sdiv/udiv/srem/urem trap on a zero divisor (and sdiv on MIN/-1)",
    "a panic cannot unwind through the extern \"C\" trampolines and aborts the process",
    "memory exhaustion (capacity overflow, allocation failure) is a documented resource limit, not a violation",
]

TRAPPING = {"sdiv", "udiv", "srem", "urem", "trap", "trapz", "trapnz", "fcvt_to_sint", "fcvt_to_uint", "uadd_overflow_trap",
            "sdiv_imm", "udiv_imm", "srem_imm", "urem_imm"}
GUARDS = {"brif", "select", "icmp_imm", "icmp", "select_spectre_guard", "br_table"}


def rule_k1(F):
    r = RuleResult("C10.K1", "trapping cranelift instructions are emitted only behind a guard on their operand", floor=4)
    b = find_body(F, "::instruction", r, contains="codegen::")
    if not b:
        return r
    # the arms are EVALUATED (vf/sx: helpers followed): which trapping builder operations does instruction() reach for a division /
    # remainder, and is a guard on the divisor emitted before them on that path?
    from .. import sx
    from ..callgraph import CallGraph
    ipos = [i for i, p_ in enumerate(b.hir.get("params") or []) if "Instruction" in str(p_.get("ty") or "")]
    if not ipos:
        r.missing("the lir::Instruction parameter of codegen::instruction")
        return r
    ex = sx.Exec(F)
    for name in ("Div", "Mod", "FDiv"):
        for signed in (True, False):
            val = ("ctor", name, ("to", sx.Sym("to")), ("left", sx.Sym("left")), ("right", sx.Sym("right")), ("signed", signed))
            try:
                ps = ex.paths(b.hir, {ipos[0]: val})
            except (sx.TooManyPaths, sx.Unknown) as e_:
                r.bad("codegen instruction", "Instruction::%s" % name, relfile(b.file), b.line, "cannot evaluate codegen::instruction on Instruction::%s: %s" % (name, e_))
                continue
            seen_ops = {}
            for _, evs in ps:
                for i, e in enumerate(evs):
                    if e[0] != "mcall" or e[1] not in TRAPPING:
                        continue
                    divisor = e[3][-1] if e[3] else None
                    guards = [g[1] for g in evs[:i] if g[0] == "mcall" and g[1] in GUARDS and any(sx.mentions(a, "right") for a in g[3])]
                    prev = seen_ops.get(e[1])
                    seen_ops[e[1]] = guards if prev is None else [x for x in prev if x in guards]
            for op, guards in sorted(seen_ops.items()):
                key = "Instruction::%s %s" % (name, op)
                if key in {k for k in r.instances}:
                    continue
                r.inst(key, {"arm": "Instruction::" + name, "op": op, "guards_before": guards})
                if not guards:
                    r.bad("codegen instruction", key, relfile(b.file), b.line,
                          "%s is emitted without a guard on its operand: a zero divisor (or MIN / -1) raises a hardware trap that kills the host process" % op)
    # bodies of the code generator that instruction() does not reach must not emit trapping instructions at all
    reach, _ = CallGraph(F).reachable([b.path])
    for ob in F.bodies_in(["src/codegen/mod.rs"]):
        if not ob.hir or ob.path == b.path or ob.path in reach or ob.path.split("::{closure")[0] in reach:
            continue
        for c in hir.nodes(ob.hir.get("value") or {}, "mcall"):
            if c["m"] in TRAPPING and "ins" in [n.get("m") for n in hir.walk(c["recv"])]:
                r.inst("%s %s" % (ob.path, c["m"]))
                r.bad(ob.path, c["m"], relfile(ob.file), c["line"], "trapping instruction %s emitted outside instruction() and the helpers it calls" % c["m"])
    return r


STD_PANICKY = {
    "std::option::Option::<T>::unwrap": "unwrap", "std::option::Option::<T>::expect": "expect",
    "std::result::Result::<T, E>::unwrap": "unwrap", "std::result::Result::<T, E>::expect": "expect",
    "std::ops::Index::index": "index", "std::ops::IndexMut::index_mut": "index",
    "std::str::<impl str>::repeat": "repeat", "core::str::<impl str>::split_at": "split_at",
    "std::vec::Vec::<T, A>::remove": "remove", "std::vec::Vec::<T, A>::swap_remove": "swap_remove",
    "std::vec::Vec::<T, A>::insert": "insert", "core::slice::<impl [T]>::swap": "slice_swap",
    "core::slice::<impl [T]>::copy_from_slice": "copy_from_slice", "core::slice::<impl [T]>::split_at": "split_at",
    "std::string::String::remove": "remove", "std::string::String::insert": "insert", "std::string::String::truncate": "truncate",
    "std::char::from_u32_unchecked": "unchecked", "std::option::Option::<T>::unwrap_unchecked": "unchecked",
    "core::num::<impl usize>::pow": "pow", "std::iter::Iterator::step_by": "step_by",
}

# (function suffix, kind, producer) -> reason
K2_OK = {
    ("*", "unwrap", "lock"): "Mutex poisoning only happens after a previous panic",
    ("<value::list::ErasedList as std::cmp::PartialEq>::eq", "unwrap", "get"): "i ranges over 0..len of both lists after the length comparison",
    ("value::list::RawList::contains", "unwrap", "get"): "i ranges over 0..self.len()",
    ("value::list::RawList::index", "unwrap", "get"): "i ranges over 0..self.len()",
    ("value::list::RawList::reserve", "unwrap", "checked_add"): "capacity overflow = documented memory exhaustion",
    ("value::list::compute_capacity", "unwrap", "checked_next_power_of_two"): "capacity overflow = documented memory exhaustion",
    ("value::list::array_layout", "unwrap", "from_size_align"): "capacity overflow = documented memory exhaustion",
    ("value::vtable::VTable::layout", "unwrap", "from_size_align"): "size/align come from a real Rust type's Layout",
    ("value::string::RotoString::repeat", "repeat", "-"): "str::repeat panics only on capacity overflow = documented memory exhaustion",
    ("value::string::StringChars::slice", "index", "-"): "both offsets come from char_indices() of the same string (or its len), byte_i <= byte_j",
    ("value::string::StringLines::slice", "index", "-"): "both offsets come from match_indices('\\n') + 1 of the same string (or its len), start <= end",
}


def _norm_key(k):
    return re.sub(r"[&*]|\.\&|\.\*", "", k or "").replace("..", ".").strip(".")


def _index_drawn_from_len_range(F, b, defs, get_call, _depth=0):
    """`x.get(i).unwrap()` cannot fail when `i` is drawn from `0..x.len()` OF THE SAME `x`: either by a loop over that range in this
    body, or - in a closure - because the closure is handed to an iterator adaptor on such a range in the enclosing function."""
    if len(get_call["args"]) < 2 or not mir.is_place_op(get_call["args"][1]) or not mir.is_place_op(get_call["args"][0]):
        return False
    idx = get_call["args"][1][1]
    root, _path = mir.origin(b, defs, idx)
    recv_key = _norm_key(mir.origin_key(b, defs, get_call["args"][0][1]))

    def len_receivers(bb, dd, local):
        """origin keys of the receivers of the `len` calls a value derives from; None if arithmetic is involved"""
        out = []
        for x in mir.back_calls(bb, dd, local):
            t = bb.blocks[x]["term"]
            n = hir.last(mir.callee_def(t) or "")
            if n in ("add", "sub", "checked_add", "saturating_add", "wrapping_add", "max", "min"):
                return None
            if n == "len" and t["args"] and mir.is_place_op(t["args"][0]):
                out.append(_norm_key(mir.origin_key(bb, dd, t["args"][0][1])))
        return out
    if root.startswith("call:") and hir.last(root[5:]) == "next" and "Range" in root:
        lr = len_receivers(b, defs, idx[0])
        return bool(lr) and all(k == recv_key for k in lr)
    if root.startswith("arg") and "{closure" not in b.path and _depth < 2 and recv_key.startswith("arg") and root[3:].isdigit():
        # a helper `fn h(&self, i, ..)` that indexes its own receiver with a parameter: decided at its call sites - every caller in the
        # crate must hand over an index drawn from 0..len() of the very object it passes as the receiver
        ri = int(re.sub(r"\D.*$", "", recv_key[3:]) or 0)
        ii = int(root[3:])
        sites = []
        for cb in F.all_bodies():
            if not cb.mir or cb.path == b.path:
                continue
            for bi, t in mir.calls(cb):
                if b.path in (mir.callee(t), mir.callee_def(t)):
                    sites.append((cb, t))
        if not sites or ri < 1:
            return False
        for cb, t in sites:
            if len(t["args"]) < max(ri, ii):
                return False
            fake = {"args": [t["args"][ri - 1], t["args"][ii - 1]]}
            if not _index_drawn_from_len_range(F, cb, mir.Defs(cb), fake, _depth + 1):
                return False
        return True
    if root.startswith("arg") and "{closure" in b.path:
        parent = F.body(b.path.rsplit("::{closure", 1)[0])
        if parent is None or not parent.mir:
            return False
        pdefs = mir.Defs(parent)
        for blk in parent.blocks:
            for st in blk["stmts"]:
                if st["k"] == "assign" and st["rv"]["k"] == "agg" and st["rv"].get("ak") == "closure" and st["rv"].get("def") == b.path:
                    cl = st["p"][0]
                    # the receiver inside the closure is a captured variable: which value of the parent is it?
                    def upvar_index(local, depth=0):
                        """which captured variable (index into the closure's environment) a local of the closure body is read from"""
                        for d in defs.whole_defs(local):
                            if d[2] == "call" and depth <= 8 and hir.last(mir.callee_def(d[3]) or "") in ("deref", "deref_mut") and d[3]["args"] and mir.is_place_op(d[3]["args"][0]):
                                u = upvar_index(d[3]["args"][0][1][0], depth + 1)     # the captured variable is a lock guard
                                if u is not None:
                                    return u
                            if d[2] != "assign" or depth > 8:
                                continue
                            rv = d[3]["rv"]
                            pl = rv.get("p") if rv["k"] in ("ref", "rawptr") else (rv["o"][1] if rv["k"] == "use" and mir.is_place_op(rv["o"]) else None)
                            if pl is None:
                                continue
                            if pl[0] == 1:
                                for x in pl[1:]:
                                    if isinstance(x, list) and x[0] == "f":
                                        return x[1]
                            else:
                                u = upvar_index(pl[0], depth + 1)
                                if u is not None:
                                    return u
                        return None
                    ui = upvar_index(get_call["args"][0][1][0])
                    if ui is None or ui >= len(st["rv"]["ops"]) or not mir.is_place_op(st["rv"]["ops"][ui]):
                        return False
                    precv = _norm_key(mir.origin_key(parent, pdefs, st["rv"]["ops"][ui][1]))
                    for bi, t in mir.calls(parent):
                        if any(mir.is_place_op(a) and (a[1][0] == cl or cl in {x for d in pdefs.whole_defs(a[1][0]) if d[2] == "assign" for x in mir.rv_locals(d[3]["rv"])}) for a in t["args"][1:]):
                            recv = t["args"][0]
                            g = " ".join(t["f"].get("gargs") or [])
                            if mir.is_place_op(recv) and "Range" in g:
                                lr = len_receivers(parent, pdefs, recv[1][0])
                                if lr and all(k == precv for k in lr):
                                    return True
                                # the range is drawn from the length of ANOTHER list, and the adaptor only runs behind the test that
                                # both lengths are equal (`if self.len != other.len { return false }`)
                                if lr and len(set(lr)) == 1 and _len_equal_gate(parent, pdefs, bi, lr[0], precv):
                                    return True
                                # .. or the enclosing function is a helper that is handed both lists, and every caller either hands it
                                # the same list twice or calls it behind the test that the lengths are equal
                                if lr and len(set(lr)) == 1 and lr[0].startswith("arg") and precv.startswith("arg") and "{closure" not in parent.path and _depth < 2:
                                    try:
                                        ia, ib = int(re.sub(r"\D.*$", "", lr[0][3:])), int(re.sub(r"\D.*$", "", precv[3:]))
                                    except ValueError:
                                        ia = ib = 0
                                    sites = [(cb, cbi, ct) for cb in F.all_bodies() if cb.mir and cb.path != parent.path for cbi, ct in mir.calls(cb) if parent.path in (mir.callee(ct), mir.callee_def(ct))]
                                    if ia >= 1 and ib >= 1 and sites:
                                        good = True
                                        for cb, cbi, ct in sites:
                                            if len(ct["args"]) < max(ia, ib) or not (mir.is_place_op(ct["args"][ia - 1]) and mir.is_place_op(ct["args"][ib - 1])):
                                                good = False
                                                break
                                            cd = mir.Defs(cb)
                                            ka = _norm_key(mir.origin_key(cb, cd, ct["args"][ia - 1][1]))
                                            kb = _norm_key(mir.origin_key(cb, cd, ct["args"][ib - 1][1]))
                                            if ka != kb and not _len_equal_gate(cb, cd, cbi, ka, kb):
                                                good = False
                                                break
                                        if good:
                                            return True
    return False


def _len_equal_gate(b, defs, target_bb, kx, ky):
    """target_bb is only reached over the `equal` edge of a comparison of the lengths of the lists with origin keys kx and ky"""
    def len_of(o):
        if not mir.is_place_op(o):
            return None
        k = _norm_key(mir.origin_key(b, defs, o[1]))
        if k.endswith(".len"):
            return k[:-4]
        for x in mir.back_calls(b, defs, o[1][0]):
            t = b.blocks[x]["term"]
            if hir.last(mir.callee_def(t) or "") == "len" and t["args"] and mir.is_place_op(t["args"][0]):
                return _norm_key(mir.origin_key(b, defs, t["args"][0][1]))
        return None
    dom = mir.dominators(b)
    for di in dom[target_bb]:
        t = b.blocks[di]["term"]
        if t["k"] != "switch" or not mir.is_place_op(t["o"]):
            continue
        for d in defs.whole_defs(t["o"][1][0]):
            if d[2] != "assign" or d[3]["rv"]["k"] != "bin" or d[3]["rv"]["op"] not in ("Eq", "Ne"):
                continue
            if {len_of(d[3]["rv"]["a"]), len_of(d[3]["rv"]["b"])} != {kx, ky}:
                continue
            # value 0 of `a != b` / value 1 (otherwise) of `a == b` is the equal edge
            tg = dict(t["targets"])
            if d[3]["rv"]["op"] == "Ne":
                eq_edge, ne_edge = tg.get(0), t["otherwise"]
            else:
                eq_edge, ne_edge = t["otherwise"], tg.get(0)
            if eq_edge is None or ne_edge is None:
                continue
            if target_bb in mir.reachable_from(b, eq_edge) | {eq_edge} and target_bb not in mir.reachable_from(b, ne_edge) | {ne_edge}:
                return True
    return False


def _capacity_arithmetic(b, defs, t):
    """Checked arithmetic on a list's own sizes (`len`, `capacity`, element size): its overflow is the documented resource limit
    (memory exhaustion), not a value-dependent panic."""
    keys = []
    for a in t["args"]:
        if mir.is_place_op(a):
            keys.append(mir.origin_key(b, defs, a[1]))
    joined = " ".join(keys)
    return any(x in joined for x in (".len", ".capacity", "size()", "len()", "capacity()"))


def rule_k2(F):
    r = RuleResult("C10.K2", "no unreviewed panic site in the bodies of registered built-ins and their crate-local callees", floor=30)
    regs = registrations(F)
    if len(regs) < 85:
        r.missing("85+ built-in registrations (found %d)" % len(regs))
    cg = CallGraph(F)
    rootset = [g["body"] for g in regs if g["body"]]
    seen, parent = cg.reachable(rootset)
    names = {g["body"]: "%s.%s" % (hir.last(g["self_ty"] or "?"), g["name"]) for g in regs if g["body"]}
    nbodies = 0
    for p in sorted(seen):
        b = F.body(p)
        if b is None or not b.mir:
            continue
        if not (b.file.startswith("src/runtime/basic") or b.file.startswith("src/runtime/io") or b.file.startswith("src/value/")):
            continue
        if "::tests::" in p:
            continue
        nbodies += 1
        defs = None
        label = names.get(p, p)
        for bi, blk in enumerate(b.blocks):
            if blk.get("cleanup"):
                continue
            t = blk["term"]
            kind = None
            producer = "-"
            if t["k"] == "assert":
                if t["msg"] in ("Overflow", "OverflowNeg", "MisalignedPointerDereference", "NullPointerDereference"):
                    continue
                kind = "assert:" + t["msg"]
            elif t["k"] == "call":
                d = mir.callee_def(t)
                if d in STD_PANICKY:
                    kind = STD_PANICKY[d]
                    if kind == "index":
                        g = t["f"].get("gargs") or []
                        # HashMap / IndexMap indexing is not on the built-in path; slices and str are
                        if not g or not (g[0] == "str" or g[0].startswith("[") or g[0].startswith("std::vec::Vec")):
                            continue
                elif d.startswith("core::panicking::") or "begin_panic" in d:
                    macs = t.get("mac") or []
                    if "debug_assert" in macs or any(m.startswith("debug_assert") for m in macs):
                        r.inst("%s debug_assert" % p)
                        continue
                    kind = "panic"
                else:
                    continue
                if kind in ("unwrap", "expect") and t["args"] and mir.is_place_op(t["args"][0]):
                    if defs is None:
                        defs = mir.Defs(b)
                    ch = mir.value_chain(b, defs, t["args"][0][1][0])
                    prods = [(hir.last(c[1]), c[0]) for c in ch if hir.last(c[1]) not in ("branch", "map_err", "from_residual", "deref", "as_ref", "ok")]
                    producer = prods[0][0] if prods else "-"
                    # decided rather than listed: an index drawn from 0..len, and overflow of the list's own size arithmetic
                    if prods and producer == "get" and "value::list" in (mir.callee(b.blocks[prods[0][1]]["term"]) or "") \
                            and _index_drawn_from_len_range(F, b, defs, b.blocks[prods[0][1]]["term"]):
                        r.inst("%s|unwrap|get (index drawn from 0..len)" % label, {"fn": label, "line": t["line"], "kind": kind, "producer": producer, "decided": "index drawn from 0..len()"})
                        continue
                    if prods and producer in ("checked_add", "checked_mul", "checked_next_power_of_two") and "value::list" in p \
                            and _capacity_arithmetic(b, defs, b.blocks[prods[0][1]]["term"]):
                        r.inst("%s|unwrap|%s (size arithmetic)" % (label, producer), {"fn": label, "line": t["line"], "kind": kind, "producer": producer, "decided": "overflow of the list's own size arithmetic = memory exhaustion"})
                        continue
            if kind is None:
                continue
            r.inst("%s|%s|%s" % (label, kind, producer), {"fn": label, "line": t["line"], "kind": kind, "producer": producer})
            # a reviewed site covers the closures written inside the reviewed function (`(0..len).all(|i| ..get(i).unwrap()..)`)
            ok = [k for k in K2_OK if (k[0] == "*" or p.endswith(k[0]) or p == k[0] or (k[0] + "::{closure") in p) and k[1] == kind and k[2] == producer]
            if ok:
                continue
            r.bad("builtin " + label, "%s of %s" % (kind, producer), relfile(b.file), t["line"],
                  "a built-in can panic here (%s on %s); inside an extern \"C\" trampoline that aborts the host process. Reached via %s"
                  % (kind, producer, " -> ".join(names.get(x, hir.last(x)) for x in cg.chain(parent, p))))
    r.note("built-in bodies and callees inspected: %d" % nbodies)
    return r


K3_OK = {}  # (function suffix, line-free description) -> reason; no reviewed site on the reference tree


def _unguarded_subs(b):
    """Unsigned subtractions `a - b` (plain operator: panics in debug builds, wraps in release builds) that are not dominated by
    a comparison involving the same two operands."""
    out = []
    defs = None
    dom = None
    for bi, blk in enumerate(b.blocks):
        if blk.get("cleanup"):
            continue
        for st in blk["stmts"]:
            if st["k"] != "assign" or st["rv"]["k"] != "bin" or not st["rv"]["op"].startswith("Sub"):
                continue
            ty = b.mir["locals"][st["p"][0]]["ty"]
            if not (ty.startswith("(u") or ty.startswith("u")):
                continue
            if defs is None:
                defs = mir.Defs(b)
                dom = mir.dominators(b)

            def key(o):
                c = mir.op_const(o)
                if c is not None:
                    return "const:%s" % c.get("v")
                return mir.origin_key(b, defs, o[1]) if mir.is_place_op(o) else "?"
            ka, kb = key(st["rv"]["a"]), key(st["rv"]["b"])
            guarded = False
            for di in dom[bi]:
                t = b.blocks[di]["term"]
                if t["k"] != "switch" or not mir.is_place_op(t["o"]):
                    continue
                for d in defs.whole_defs(t["o"][1][0]):
                    if d[2] == "assign" and d[3]["rv"]["k"] == "bin" and d[3]["rv"]["op"] in ("Lt", "Le", "Gt", "Ge", "Eq", "Ne"):
                        ks = {key(d[3]["rv"]["a"]), key(d[3]["rv"]["b"])}
                        if ka in ks and (kb in ks or kb.startswith("const:")):
                            guarded = True
            out.append((st.get("line", 0), ka, kb, guarded))
    return out


def rule_k3(F):
    r = RuleResult("C10.K3", "no unguarded unsigned subtraction in built-ins: `len - 1` style arithmetic on run-time quantities underflows (panic in the trampoline, or a wrapped size)", floor=0)
    regs = registrations(F)
    cg = CallGraph(F)
    seen, parent = cg.reachable([g["body"] for g in regs if g["body"]])
    names = {g["body"]: "%s.%s" % (hir.last(g["self_ty"] or "?"), g["name"]) for g in regs if g["body"]}
    nb = 0
    for p in sorted(seen):
        b = F.body(p)
        if b is None or not b.mir or "::tests::" in p:
            continue
        if not (b.file.startswith("src/runtime/basic") or b.file.startswith("src/runtime/io") or b.file.startswith("src/value/")):
            continue
        nb += 1
        for line, ka, kb, guarded in _unguarded_subs(b):
            label = names.get(p, p)
            r.inst("%s|%s - %s" % (label, ka, kb), {"fn": label, "line": line, "guarded": guarded})
            if guarded or any(p.endswith(k[0]) and k[1] == "%s - %s" % (ka, kb) for k in K3_OK):
                continue
            r.bad("builtin " + label, "unsigned %s - %s" % (ka, kb), relfile(b.file), line,
                  "unsigned subtraction with no dominating comparison of its operands: when the right side is larger this panics inside the extern \"C\" trampoline (debug) or wraps to a huge size (release). Reached via %s"
                  % " -> ".join(names.get(x, hir.last(x)) for x in cg.chain(parent, p)))
    r.note("built-in bodies and callees inspected: %d" % nb)
    if nb < 100:
        r.missing("100+ built-in bodies and callees (found %d)" % nb)
    return r


def rule_k4(F):
    """Out-of-range list indices must not reach an address computation (a wild read/write or an overflow panic in the trampoline
    kills the host) - the bounds rule of C15.M4 under C10's id."""
    from . import c15
    r0 = c15.rule_m4(F)
    r = RuleResult("C10.K4", "list accessors reached from built-ins compute element addresses only after `index < len` held for every index on that path", floor=3)
    r.instances, r.samples, r.anchor_missing = list(r0.instances), list(r0.samples), list(r0.anchor_missing)
    for v in r0.violations:
        v.rule = "C10.K4"
        r.violations.append(v)
    return r


def canary(C):
    fired = []
    for b in C.all_bodies():
        if b.mir and "arith" in b.path:
            for line, ka, kb, guarded in _unguarded_subs(b):
                if not guarded:
                    fired.append("%s|%s - %s" % (b.path, ka, kb))
    return [{"rule": "C10.K3", "fired": fired, "expect_min": 2, "expect_absent": ["guarded_len_minus_one", "checked"]}]


def rule_k5(F):
    """No built-in writes past the storage of a list: the raw list operations (`extend`, `push`, `with_capacity` + copy) are reached
    only through the list's own MutexGuard, so the length a copy is sized for and the length that is copied are read under one
    acquisition (`concat` sampling `other.len()` under a separate lock and copying later overflows the heap when another thread
    pushes in between - a well-typed script kills the host).  Shared with C16.M2."""
    from . import c16
    r = RuleResult("C16.M2", "RawList methods are only called through the mutex guard (or on a not-yet-shared list)", floor=15)
    c16.rule_m2(F, r)
    rs = [r]
    r = rs[0]
    r.rule = "C10.K5"
    r.desc = "raw list storage operations are reached only through the list's own MutexGuard (no copy sized by a length read under another acquisition)"
    for v in r.violations:
        v.rule = "C10.K5"
    return r


def rule_k6(F):
    """No built-in writes past the storage of a list: `reserve(added)` sizes the new buffer from the required total `len + added`
    (shared with C15.M15).  A buffer sized from `added` alone is overrun by `concat` / `+` of a short and a longer list - heap
    corruption aborts the host."""
    from . import c15
    r = c15.rule_m15(F)
    r.rule = "C10.K6"
    r.desc = "RawList::reserve sizes the new buffer from len + added (no heap overrun by concat of a short and a longer list)"
    for v in r.violations:
        v.rule = "C10.K6"
    return r


def rules(ctx):
    F = ctx["F"]
    return [rule_k1(F), rule_k2(F), rule_k3(F), rule_k4(F), rule_k5(F), rule_k6(F)]
