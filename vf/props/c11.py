"""C11 - function handles keep alive exactly what they need."""
import re

from .. import mir, hir
from ..facts import relfile
from ..report import RuleResult
from .c01 import roots

EXPLANATION = (
    "Ownership structure is static and is decided: H1 TypedFunc owns a SharedModuleData (= Arc<ModuleData>) field which its only "
    "construction initialises from the module's own Arc clone, and its Clone is derived; H2 ModuleData declares the script constants "
    "before the JIT memory (drop order = declaration order; the constants' drop functions live in the JIT memory); H3 who-may-call / "
    "who-may-construct: JITModule::free_memory only in <JITModuleWrapper as Drop>::drop, JITModuleWrapper / ModuleData / "
    "SharedModuleData built only in their `new`, ModuleData::new only inside Arc::new; H4 every absolute pointer baked into generated "
    "code originates in a collection that finalize() moves into SharedModuleData (runtime_constants, roto_constants, registered_fns); "
    "H5 RotoConstant allocates and deallocates with the same (size, align) and drops the value before freeing. "
    "'Exactly once over all drop histories' beyond what Rust's ownership guarantees is not decided."
)
EXPLANATION += (  # round-3 supplement
    " H7 a closure or struct that captures a handle's code pointer also captures its module reference. H8 codegen pushes the keep-alive Arc on every path to the recording of a closure pointer."
)
EXPLANATION += (
    ' H9 who may relinquish ownership without a drop: mem::forget / into_raw / leak / ManuallyDrop::new / increment_strong_count occur only at the reviewed sites (five, with their counterparts).'
)
ASSUMPTIONS = [
    "Rust ownership/Arc semantics: a value is dropped exactly once when its last owner goes away",
    "fields are dropped in declaration order",
    "cranelift JIT memory stays valid until free_memory",
]

MD = "codegen::ModuleData"
SMD = "codegen::SharedModuleData"
JW = "codegen::JITModuleWrapper"
TF = "codegen::TypedFunc"


def fields(F, path):
    a = F.adt(path)
    if a is None:
        return None
    return a["variants"][0]["fields"]


def rule_h1(F):
    r = RuleResult("C11.H1", "TypedFunc owns an Arc of the module data, initialised from the module's own Arc; Clone derived", floor=5)
    fs = fields(F, TF)
    if fs is None:
        r.missing(TF)
        return r
    mods = [f for f in fs if f["ty"] == SMD]
    r.inst("TypedFunc has SharedModuleData field", {"fields": [(f["name"], f["ty"]) for f in fs]})
    if not mods:
        r.bad(TF, "module field", "src/codegen/mod.rs", 0, "TypedFunc has no field of type SharedModuleData: nothing keeps the machine code alive")
        return r
    mname = mods[0]["name"]
    s = fields(F, SMD)
    r.inst("SharedModuleData shape", {"fields": [f["ty"] for f in s] if s else None})
    if s is None or [f["ty"] for f in s] != ["std::sync::Arc<codegen::ModuleData>"]:
        r.bad(SMD, "shape", "src/codegen/mod.rs", 0, "SharedModuleData is expected to be exactly Arc<ModuleData>")
    for adt in (TF, SMD):
        cl = [i for i in F.impls() if i.get("self_adt") == adt and i.get("trait") == "std::clone::Clone"]
        r.inst("Clone for " + adt, {"derived": [i["derived"] for i in cl]})
        if not cl or not all(i["derived"] for i in cl):
            r.bad(adt, "Clone", "src/codegen/mod.rs", 0, "Clone for %s is not derived: a hand-written clone could copy the code pointer without the Arc" % adt)
    b = F.body("codegen::Module::<Ctx>::get_function")
    if b is None:
        r.missing("codegen::Module::<Ctx>::get_function")
        return r
    defs = mir.Defs(b)
    for bi, st in mir.agg_sites(b, TF):
        names = st["rv"]["fields"]
        ops = st["rv"]["ops"]
        idx = names.index(mname)
        op = ops[idx]
        key = mir.origin_key(b, defs, op[1]) if mir.is_place_op(op) else "const"
        r.inst("construction %s" % mname, {"field": mname, "origin": key})
        if not (key.startswith("arg1.") and "inner" in key and "clone()" in key):
            r.bad(b.path, "module field origin", relfile(b.file), st["line"], "TypedFunc.%s is initialised from %s, expected a clone of the module's own SharedModuleData" % (mname, key))
        # the code pointer must come from the same module's JIT
        fidx = names.index("func") if "func" in names else None
        if fidx is not None and mir.is_place_op(ops[fidx]):
            ch = mir.value_chain(b, defs, ops[fidx][1][0])
            r.inst("construction func", {"chain": [c[1] for c in ch][:3]})
            def from_jit(bb, dd, chain, depth=0):
                """the pointer comes out of get_finalized_function - directly, or through an accessor of the module data that is asked on this module's own data (`self.inner.finalized_function(id)`)"""
                if any("get_finalized_function" in c[1] for c in chain):
                    return True
                if depth >= 2:
                    return False
                for c in chain:
                    hb = F.body(c[1]) if c[1] and c[1].startswith("codegen::") and F.has(c[1]) else None
                    if hb is None or not hb.mir:
                        continue
                    t_ = bb.blocks[c[0]]["term"]
                    if bb is b and not (t_["args"] and mir.is_place_op(t_["args"][0]) and mir.origin_key(bb, dd, t_["args"][0][1]).startswith("arg1")):
                        continue
                    hd = mir.Defs(hb)
                    if from_jit(hb, hd, mir.value_chain(hb, hd, 0), depth + 1):
                        return True
                return False
            if not from_jit(b, defs, ch):
                r.bad(b.path, "func origin", relfile(b.file), st["line"], "TypedFunc.func does not come from get_finalized_function of this module")
    return r


def rule_h2(F):
    r = RuleResult("C11.H2", "ModuleData drops script constants (and registered state) before the JIT memory", floor=1)
    fs = fields(F, MD)
    if fs is None:
        r.missing(MD)
        return r
    names = [f["name"] for f in fs]
    tys = [f["ty"] for f in fs]
    r.inst("ModuleData field order", {"order": names})
    jit = [i for i, t in enumerate(tys) if t == JW]
    consts = [i for i, t in enumerate(tys) if "codegen::RotoConstant" in t]
    if not jit or not consts:
        r.bad(MD, "fields", "src/codegen/mod.rs", 0, "ModuleData no longer holds both the RotoConstant map and the JIT wrapper")
    elif not max(consts) < min(jit):
        r.bad(MD, "field order", "src/codegen/mod.rs", 0, "the JIT memory (%s) is declared before the script constants (%s): constants would be dropped by code that is already freed" % (names[jit[0]], names[consts[0]]))
    else:
        # everything else the module keeps alive can own script-created values too (a registered closure that stored a list it was
        # handed: the list's vtable points at generated drop glue), so the machine code is the LAST thing to go: no owning field
        # (anything but a plain number / marker) is declared after it
        later = [names[i] for i in range(min(jit) + 1, len(fs)) if not re.match(r"^(std::marker::PhantomData<|usize$|u\d+$|i\d+$|bool$|\(\)$)", tys[i])]
        r.inst("JIT memory is the last owning field", {"declared_after_it": later})
        if later:
            r.bad(MD, "field order: " + ", ".join(later) + " after the JIT memory", "src/codegen/mod.rs", 0,
                  "%s is declared (and therefore dropped) after the JIT memory (%s): state captured by registered closures or held by registered constants can own script-created "
                  "values whose drop functions live in that memory" % (", ".join(later), names[jit[0]]))
    return r


def _forward(b, start):
    """Locals that (transitively) receive the value of one of the `start` locals by move / copy / being put into an aggregate or passed
    through a call, with what they passed on the way: (tracked locals, [(bb, callee def) of calls that take a tracked value],
    {adt paths of aggregates built from a tracked value}, returned?)"""
    tracked = set(start)
    calls_, aggs = [], set()
    changed = True
    while changed:
        changed = False
        for bi, blk in enumerate(b.blocks):
            for st in blk["stmts"]:
                if st["k"] != "assign":
                    continue
                rv = st["rv"]
                if any(x in tracked for x in mir.rv_locals(rv)):
                    if rv["k"] == "agg" and rv.get("adt"):
                        aggs.add(rv["adt"])
                    if st["p"][0] not in tracked:
                        tracked.add(st["p"][0])
                        changed = True
            t = blk["term"]
            if t["k"] == "call" and any(mir.is_place_op(a) and a[1][0] in tracked for a in t["args"]):
                d = mir.callee_def(t) or ""
                if (bi, d) not in calls_:
                    calls_.append((bi, d))
                if t.get("dest") and t["dest"][0] not in tracked:
                    tracked.add(t["dest"][0])
                    changed = True
    return tracked, calls_, aggs, 0 in tracked


def _ends_up(F, b, start, want_call=None, want_agg=None, depth=0):
    """Does the value in `start` (locals of b) reach a call of `want_call` (suffix of the callee's def path) / an aggregate of
    `want_agg` - in b, or, when b hands it back to its callers, in every caller?"""
    tracked, calls_, aggs, returned = _forward(b, start)
    if want_call and any(d.endswith(want_call) for _, d in calls_):
        return True
    if want_agg and want_agg in aggs:
        return True
    if not returned or depth > 3:
        return False
    sites = []
    for cb in F.all_bodies():
        if cb.mir:
            sites += [(cb, t) for _, t in mir.calls(cb) if b.path in (mir.callee(t), mir.callee_def(t))]
    return bool(sites) and all(t.get("dest") and _ends_up(F, cb, [t["dest"][0]], want_call, want_agg, depth + 1) for cb, t in sites)


def _call_roots(F, path, seen=None):
    """the functions from which `path` is (transitively) called and that have no caller of their own in the crate"""
    seen = seen if seen is not None else set()
    if path in seen:
        return set()
    seen.add(path)
    if path.endswith("ModuleBuilder::finalize"):
        return {path}           # everything above finalize() reaches the site through finalize()
    cs = {c for c in mir._callers_of(F, path) if c != path}
    if not cs:
        return {path}
    out = set()
    for c in cs:
        out |= _call_roots(F, c, seen)
    return out


def rule_h3(F):
    """Who frees and who owns: the JIT memory is freed only by the Drop of the wrapper that owns it; the wrapper only ever becomes a
    field of ModuleData; ModuleData only ever goes straight into Arc::new (it has no other owner than the shared handle); the shared
    handle is only assembled on behalf of ModuleBuilder::finalize.  Decided by following each constructed value forward through the
    function that builds it (and, where that function returns it, through every caller) - so a constructor may be inlined or added."""
    r = RuleResult("C11.H3", "who frees / constructs: free_memory only in Drop of the wrapper; wrapper -> ModuleData -> Arc::new -> SharedModuleData, assembled only for finalize(); no other owner", floor=4)
    bodies = [b for b in F.all_bodies() if b.mir]
    seen = {JW: 0, MD: 0, SMD: 0}
    for b in bodies:
        for bi, t in mir.calls(b):
            name = mir.callee_def(t)
            if name.endswith("JITModule::free_memory"):
                r.inst("free_memory in " + b.path)
                if b.path != "<codegen::JITModuleWrapper as std::ops::Drop>::drop":
                    r.bad(b.path, "free_memory", relfile(b.file), t["line"], "JIT memory is freed outside <JITModuleWrapper as Drop>::drop")
        derived = lambda adt: b.path.startswith("<" + adt) and b.path.endswith("as std::clone::Clone>::clone")
        for bi, st in mir.agg_sites(b, JW):
            seen[JW] += 1
            ok = _ends_up(F, b, [st["p"][0]], want_agg=MD)
            r.inst("%s built in %s" % (JW, b.path), {"becomes_a_field_of_ModuleData": ok})
            if not ok and not derived(JW):
                r.bad(b.path, "constructs " + JW, relfile(b.file), st["line"], "%s is constructed here but does not become a field of %s: the JIT memory gets an owner outside the shared module data" % (JW, MD))
        for bi, st in mir.agg_sites(b, MD):
            seen[MD] += 1
            ok = _ends_up(F, b, [st["p"][0]], want_call="Arc::<T>::new")
            r.inst("%s built in %s" % (MD, b.path), {"goes_straight_into_Arc_new": ok})
            if not ok and not derived(MD):
                r.bad(b.path, "constructs " + MD, relfile(b.file), st["line"], "%s is constructed here but is not wrapped in Arc::new (by this function or by all its callers): it is not owned by the shared handle" % MD)
        for bi, st in mir.agg_sites(b, SMD):
            seen[SMD] += 1
            if derived(SMD):
                continue
            roots_ = _call_roots(F, b.path)
            via = {x for x in roots_ if not x.endswith("ModuleBuilder::finalize")}
            r.inst("%s built in %s" % (SMD, b.path), {"call_roots": sorted(roots_)})
            if via:
                r.bad(b.path, "constructs " + SMD, relfile(b.file), st["line"], "module data is assembled outside ModuleBuilder::finalize (also reachable from %s)" % sorted(via))
    for adt, n in seen.items():
        if n == 0:
            r.missing("construction site of " + adt)
    # no other ADT owns ModuleData / JITModuleWrapper / JITModule by value
    for a in F.adts():
        for v in a["variants"]:
            for f in v["fields"]:
                t = f["ty"]
                if a["path"] not in (MD, SMD, JW, "codegen::ModuleBuilder") and (
                        t in (MD, JW) or "cranelift_jit::JITModule" in t):
                    r.bad(a["path"], "field " + f["name"], relfile(a["file"]), a["line"], "%s.%s owns %s directly" % (a["path"], f["name"], t))
    return r


def rule_h4(F):
    r = RuleResult("C11.H4", "absolute pointers baked into code originate in collections that finalize() moves into the shared module data", floor=6)
    b = None
    for p in F.paths():
        if p.endswith("::instruction") and "codegen::" in p:
            b = F.body(p)
    if b is None:
        r.missing("codegen instruction()")
        return r
    ld = hir.LocalDefs(b.hir)
    ms = hir.find_match_on(b.hir["value"], "Instruction::", min_arms=10)
    rows = hir.table(ms[0]) if ms else []
    for rw in rows:
        if any(a.startswith("Instruction::ConstantAddress") for a in rw["alts"]):
            # the value handed to iconst: which fields of self.module does it read?
            srcs = set()
            for c in hir.nodes(rw["body"], "mcall"):
                if c["m"] == "get":
                    rc = hir.peel_refs(c["recv"])
                    chain = []
                    while rc.get("k") == "field":
                        chain.append(rc["n"])
                        rc = hir.peel_refs(rc["e"])
                    srcs.add(".".join(reversed(chain)))
            r.inst("ConstantAddress sources", {"maps": sorted(srcs)})
            if not srcs or not srcs <= {"module.runtime_constants", "module.roto_constants"}:
                r.bad(b.path, "ConstantAddress", relfile(b.file), rw["line"], "constant addresses are taken from %s; only the module-owned maps (runtime_constants, roto_constants) outlive the runtime" % sorted(srcs))
    # what ModuleData keeps alive is what the builder collected: each field of the ModuleData literal is followed back (data flow on
    # the MIR, through constructor parameters and their call sites) to the field of ModuleBuilder it comes from - wherever the literal
    # is written (ModuleData::new, SharedModuleData::new, finalize itself)
    from .c08 import deps

    def builder_fields(b, defs, local, depth=0):
        out = set()
        for dk in deps(b, defs, local):
            m = re.match(r"^arg(\d+)(?:\.(.+))?$", dk)
            if not m:
                out.add("?" + dk)
                continue
            ai = int(m.group(1))
            aty = str(b.mir["locals"][ai].get("ty") or "")
            if "ModuleBuilder" in aty and m.group(2):
                out.add(m.group(2).split(".")[0])
                continue
            if depth > 3:
                out.add("?depth")
                continue
            sites = []
            for cb in F.all_bodies():
                if cb.mir:
                    sites += [(cb, t) for _, t in mir.calls(cb) if b.path in (mir.callee(t), mir.callee_def(t))]
            if not sites:
                out.add("?no caller of " + hir.last(b.path))
            for cb, t in sites:
                a = t["args"][ai - 1] if ai - 1 < len(t["args"]) else None
                if a is None or not mir.is_place_op(a):
                    out.add("?constant")
                    continue
                out |= builder_fields(cb, mir.Defs(cb), a[1][0], depth + 1)
        return out
    want = {"_constants": "runtime_constants", "_roto_constants": "roto_constants", "_registered_fns": "registered_fns", "cranelift_jit": "inner"}
    nsites = 0
    for mb in F.all_bodies():
        if not mb.mir:
            continue
        for _, st in mir.agg_sites(mb, MD):
            if mb.path.endswith("as std::clone::Clone>::clone"):
                continue
            nsites += 1
            mdefs = mir.Defs(mb)
            for fname, o in zip(st["rv"].get("fields") or [], st["rv"]["ops"]):
                if fname not in want:
                    continue
                src = builder_fields(mb, mdefs, o[1][0]) if mir.is_place_op(o) else {"?constant"}
                r.inst("ModuleData.%s" % fname, {"field": fname, "comes_from_builder_field": sorted(src), "literal_in": mb.path})
                if src != {want[fname]}:
                    r.bad(mb.path, fname, relfile(mb.file), st.get("line") or mb.line,
                          "ModuleData.%s is filled from %s instead of the builder's own `%s`: what generated code points into is not what the handles keep alive" % (fname, sorted(src), want[fname]))
    if nsites == 0:
        r.missing("codegen::ModuleData::new")
    # the registered constants are CLONED into the module-owned map (the runtime may be dropped before the functions)
    ins_sites = []
    for cbd in F.bodies_in(["src/codegen/mod.rs"]):
        if not cbd.hir or "::tests::" in cbd.path:
            continue
        for c in hir.nodes(cbd.hir["value"], "mcall"):
            rc = hir.peel_refs(c["recv"])
            if c["m"] == "insert" and rc.get("k") == "field" and rc["n"] == "runtime_constants" and len(c["args"]) == 2:
                ins_sites.append((cbd, c))
    if not ins_sites:
        r.missing("ModuleBuilder::declare_constant")
    for cbd, c in ins_sites:
        v = hir.strip(c["args"][1])
        l = hir.res_local(v) if v.get("k") == "path" else None
        if l is not None:
            d = hir.LocalDefs(cbd.hir).get(l)
            if d and d[1] is not None:
                v = hir.strip(d[1])
        ok = v.get("k") == "mcall" and v["m"] == "clone"
        r.inst("declare_constant clones", {"ok": ok, "fn": cbd.path})
        if not ok:
            r.bad(cbd.path, "clone", relfile(cbd.file), c.get("line") or cbd.line, "the registered constant is not stored as a clone in the module-owned map")
    # registered closures: the Arc whose address is baked in is pushed into registered_fns (in codegen() or in the builder method it
    # calls for each runtime function)
    ok, nsite, where = False, 0, None
    for cb in F.bodies_in(["src/codegen/mod.rs"]):
        if not cb.hir or "::tests::" in cb.path:
            continue
        ldc = hir.LocalDefs(cb.hir)
        pushes = [c for c in hir.nodes(cb.hir["value"], "mcall") if c["m"] == "push" and hir.peel_refs(c["recv"]).get("n") == "registered_fns"]
        inserts = [c for c in hir.nodes(cb.hir["value"], "mcall") if c["m"] == "insert" and hir.peel_refs(c["recv"]).get("n") == "runtime_functions"]
        if not inserts:
            continue
        nsite += len(inserts)
        where = cb
        for ps in pushes:
            pl = hir.res_local(hir.peel_refs(ps["args"][0]))
            for ins in inserts:
                # ptr local in the inserted tuple derives from the same local
                deps_ = set()
                for n in hir.walk(ins["args"][1]):
                    if n.get("k") == "path" and hir.res_local(n) is not None:
                        d = ldc.get(hir.res_local(n))
                        if d and d[1] is not None:
                            for m in hir.walk(d[1]):
                                if m.get("k") == "path" and hir.res_local(m) == pl:
                                    deps_.add(pl)
                if pl in deps_:
                    ok = True
    if nsite == 0:
        r.missing("codegen::codegen")
    else:
        r.inst("closure pointer kept alive", {"ok": ok, "fn": where.path})
        if not ok:
            r.bad(where.path, "registered_fns", relfile(where.file), where.line, "the closure pointer handed to generated code is not derived from the Arc pushed into module.registered_fns")
    return r


def rule_h5(F):
    r = RuleResult("C11.H5", "RotoConstant: alloc and dealloc use the same (size, align); value dropped before the slot is freed", floor=3)
    nb = F.body("codegen::RotoConstant::new")
    db = F.body("<codegen::RotoConstant as std::ops::Drop>::drop")
    if nb is None:
        r.missing("codegen::RotoConstant::new")
    if db is None:
        r.missing("<codegen::RotoConstant as Drop>::drop")
    if nb is None or db is None:
        return r

    # the slot is freed with the layout it was allocated with: the layout handed to dealloc is built from fields of the constant, and
    # `new` initialises exactly those fields from what its own alloc layout is built from (data flow on the MIR: it does not matter
    # whether the constant stores size and align, or the Layout itself)
    from .c08 import deps
    ndefs, ddefs = mir.Defs(nb), mir.Defs(db)
    alloc_deps, dealloc_fields = None, None
    for _, t in mir.calls(nb):
        if (mir.callee_def(t) or "").endswith("alloc::alloc") and t["args"] and mir.is_place_op(t["args"][0]):
            alloc_deps = set(deps(nb, ndefs, t["args"][0][1][0]))
    for _, t in mir.calls(db):
        if (mir.callee_def(t) or "").endswith("alloc::dealloc") and len(t["args"]) == 2 and mir.is_place_op(t["args"][1]):
            dealloc_fields = set(deps(db, ddefs, t["args"][1][1][0]))
    stored = {}
    for _, st in mir.agg_sites(nb, "codegen::RotoConstant"):
        for fname, o in zip(st["rv"].get("fields") or [], st["rv"]["ops"]):
            stored[fname] = set(deps(nb, ndefs, o[1][0])) if mir.is_place_op(o) else set()
    r.inst("layout args", {"alloc_layout_from": sorted(alloc_deps or []), "dealloc_layout_from": sorted(dealloc_fields or []), "fields_initialised_from": {k: sorted(v) for k, v in stored.items()}})
    if alloc_deps is None or dealloc_fields is None or not stored:
        r.bad("codegen::RotoConstant", "layout", relfile(nb.file), nb.line, "alloc in RotoConstant::new / dealloc in its Drop / the struct literal not found")
    else:
        fl = {x.split(".", 1)[1] for x in dealloc_fields if x.startswith("arg1.")}
        back = set().union(*[stored.get(f, {"?" + f}) for f in fl]) if fl else set()
        if not fl or any(not x.startswith("arg1.") for x in dealloc_fields) or back != alloc_deps:
            r.bad("codegen::RotoConstant", "layout", relfile(nb.file), nb.line,
                  "the slot is allocated with a layout built from %s but freed with one built from the fields %s, which `new` initialises from %s: expected the same (size, align) on both sides"
                  % (sorted(alloc_deps), sorted(dealloc_fields), sorted(back)))
        for f in sorted(fl):
            r.inst("stores " + f)
    # order in drop: indirect call through drop_fn before dealloc
    order = []
    for bi, t in mir.calls(db):
        f = t["f"]
        if "ind" in f:
            order.append(("drop_fn", bi))
        elif mir.callee_def(t).endswith("alloc::dealloc"):
            order.append(("dealloc", bi))
    dom = mir.dominators(db)
    names = [o[0] for o in order]
    r.inst("drop order", {"calls": names})
    if "drop_fn" not in names or "dealloc" not in names:
        r.bad(db.path, "drop", relfile(db.file), db.line, "Drop for RotoConstant must call the value's drop function and dealloc (found %s)" % names)
    else:
        d = [o[1] for o in order if o[0] == "drop_fn"][0]
        f = [o[1] for o in order if o[0] == "dealloc"][0]
        if d not in dom[f]:
            r.bad(db.path, "drop order", relfile(db.file), db.line, "the slot is deallocated on a path that has not dropped the value first")
    return r


def rule_h7(F):
    """The code pointer never travels without its keep-alive: every closure or struct that stores a handle's `func` pointer
    (closures capture only the fields they use) also stores the handle's module reference - or the whole handle."""
    r = RuleResult("C11.H7", "wherever a TypedFunc's code pointer is captured or stored, the module handle is captured with it", floor=16)
    for b in F.all_bodies():
        if not b.mir or "::tests::" in b.path or not b.file.startswith("src/"):
            continue
        ls = b.mir["locals"]
        tf = [i for i in range(1, b.mir["argc"] + 1) if "codegen::TypedFunc<" in ls[i]["ty"]]
        if not tf:
            continue
        defs = None
        n = 0
        for bi, blk in enumerate(b.blocks):
            for st in blk["stmts"]:
                if st["k"] != "assign" or st["rv"]["k"] != "agg" or st["rv"].get("ak") not in ("closure", "adt"):
                    continue
                if st["rv"].get("adt", "").endswith("codegen::TypedFunc"):
                    continue
                defs = defs or mir.Defs(b)
                keys = [mir.origin_key(b, defs, o[1]) for o in st["rv"]["ops"] if mir.is_place_op(o)]
                roots_ = {"arg%d" % i for i in tf}
                mine = [k for k in keys if k.split(".")[0] in roots_]
                if not mine:
                    continue
                n += 1
                whole = any(k in roots_ for k in mine)
                has_func = any(k.endswith(".func") for k in mine)
                has_mod = any(k.endswith("._module") for k in mine)
                r.inst("%s capture #%d" % (b.path, n), {"fn": b.path, "captures": mine})
                if has_func and not (whole or has_mod):
                    r.bad(b.path, "code pointer captured without the module", relfile(b.file), st["line"],
                          "the closure/struct keeps the handle's code pointer (%s) but not its module reference: once the package and the other handles are gone the JIT memory, constants and registered closures are freed while this value can still call into them" % ", ".join(mine))
    return r


def rule_h8(F):
    """Every closure pointer that is baked into machine code is kept alive by the module: in codegen's loop over the runtime
    functions, no iteration records a (pointer, trampoline) pair in `runtime_functions` without having pushed the owning Arc into
    `registered_fns` on the way (a de-duplication by trampoline, say, drops the captured state of all but one closure of a type)."""
    r = RuleResult("C11.H8", "codegen keeps every registered closure alive whose pointer it bakes into the code (push on every path to the insert)", floor=1)
    # the recording may be written in codegen() itself or in a method of the builder that codegen() calls per function
    found = 0
    for cb in F.bodies_in(["src/codegen/mod.rs"]):
        if not cb.mir or "::tests::" in cb.path:
            continue
        defs = mir.Defs(cb)

        def on_field(t, field):
            return bool(t["args"]) and mir.is_place_op(t["args"][0]) and field in mir.origin_key(cb, defs, t["args"][0][1])
        inserts = [bi for bi, t in mir.calls(cb) if hir.last(mir.callee_def(t)) == "insert" and on_field(t, "runtime_functions")]
        if not inserts:
            continue
        pushes = [bi for bi, t in mir.calls(cb) if hir.last(mir.callee_def(t)) == "push" and on_field(t, "registered_fns")]
        loops = mir.natural_loops(cb)
        for ins in inserts:
            found += 1
            encl = [(h, nodes) for h, nodes in loops if ins in nodes]
            if encl:
                h, nodes = min(encl, key=lambda x: len(x[1]))
            else:
                h, nodes = 0, set(range(len(cb.blocks)))      # a helper that records one function: from its entry
            seen, work, skip = set(), [h], False
            while work:
                x = work.pop()
                if x in seen or x in pushes:
                    continue
                seen.add(x)
                if x == ins:
                    skip = True
                    break
                for sx in mir.succs(cb.blocks[x]):
                    if sx in nodes and sx not in seen:
                        work.append(sx)
            r.inst("runtime_functions.insert #%d" % found, {"fn": cb.path, "line": cb.blocks[ins]["term"]["line"], "reachable_without_keeping_the_closure_alive": skip})
            if skip:
                r.bad(cb.path, "closure pointer recorded without keep-alive", relfile(cb.file), cb.blocks[ins]["term"]["line"],
                      "an iteration of the loop over the runtime functions can record the closure's raw pointer for the generated code without pushing its Arc into registered_fns: "
                      "that closure (and what it captures) is freed with the Runtime while handles can still call into it")
    if not found:
        r.missing("registered_fns.push / runtime_functions.insert in codegen")
    return r


RELINQUISH_REVIEWED = {
    # (function suffix, primitive) -> where the ownership goes
    ("as codegen::check::RotoFunc>::invoke", "forget"): "the transformed arguments are owned by the script from the call on (C03.F6)",
    ("codegen::ModuleData::new", "ManuallyDrop::new"): "the JIT module is freed explicitly in <JITModuleWrapper as Drop>::drop (H3)",
    ("value::TypeRegistry::store", "leak"): "entries of the process-wide type registry live for the whole process by design",
    ("value::list::RawList::extend", "forget"): "the elements were cloned into the destination list, which owns them now",
    ("value::list::boundary::List::<T>::push", "ManuallyDrop::new"): "the element's bytes are copied into the list, which owns them now",
}


def _owns_nothing(F, ty, depth=0):
    """A crate type whose fields are all borrows, raw pointers, function pointers or plain numbers (or structs of such): forgetting a
    value of it keeps nothing alive (it only defuses the type's Drop - the usual shape of a panic guard)."""
    name = re.sub(r"<.*$", "", ty or "").strip()
    adt = F.adt(name) if name else None
    if adt is None or adt.get("kind") != "struct" or depth > 2:
        return False
    fields = [f.get("ty") or "" for v in adt["variants"] for f in v["fields"]]
    plain = re.compile(r"^(&|\*const |\*mut |usize$|isize$|u\d+$|i\d+$|bool$|std::ptr::NonNull<|std::marker::PhantomData<|(std::option::Option<)?(unsafe )?(extern \"C\" )?fn\()")
    return bool(fields) and all(plain.match(f) or _owns_nothing(F, f, depth + 1) for f in fields)


def rule_h9(F):
    """'Released exactly once, after the last handle or package referring to them is gone': everything the runtime owns is released by
    ordinary drops, so every place that gives ownership up WITHOUT a drop - mem::forget, into_raw, leak, ManuallyDrop::new,
    increment_strong_count - is a reviewed site whose counterpart is known.  (A `ptr()` accessor written as
    `Arc::into_raw(Arc::clone(..))` returns the same address and adds a strong count that nobody gives back: a registered constant
    that a script reads is never released.)"""
    r = RuleResult("C11.H9", "ownership is only relinquished without a drop (forget / into_raw / leak / ManuallyDrop::new) at reviewed sites", floor=5)
    for b in F.all_bodies():
        if not b.mir or "::tests::" in b.path or b.file.endswith("tests.rs") or not b.file.startswith(("src/", "/repo/src", "macros/")) and "/src/" not in b.file:
            continue
        for bi, t in mir.calls(b):
            d = mir.callee_def(t) or ""
            prim = None
            if d == "std::mem::forget":
                prim = "forget"
            elif d.endswith("::into_raw") or d.endswith("::into_raw_with_allocator"):
                prim = "into_raw"
            elif d.endswith("::leak"):
                prim = "leak"
            elif "ManuallyDrop::<T>::new" in d:
                prim = "ManuallyDrop::new"
            elif "increment_strong_count" in d:
                prim = "increment_strong_count"
            if prim is None:
                continue
            owner = b.path.split("::{closure")[0]
            reason = next((v for (fn, p_), v in RELINQUISH_REVIEWED.items() if owner.endswith(fn) and p_ == prim), None)
            if reason is None and prim == "ManuallyDrop::new" and t.get("dest"):
                # decided: the ManuallyDrop becomes a field of a type whose own Drop releases it explicitly
                for adt in sorted(_forward(b, [t["dest"][0]])[2]):
                    db_ = F.body("<%s as std::ops::Drop>::drop" % adt)
                    if db_ is not None and db_.mir and any(
                            re.search(r"ManuallyDrop::<T>::(drop|take|into_inner)$", mir.callee_def(tt) or "") for _, tt in mir.calls(db_)):
                        reason = "decided: becomes a field of %s, whose Drop releases it explicitly" % adt
            if reason is None and prim == "forget" and _owns_nothing(F, (t["f"].get("gargs") or [""])[0]):
                reason = "decided: the forgotten value is a guard that owns nothing (fields are borrows / raw pointers / numbers)"
            r.inst("%s %s" % (owner, prim), {"fn": owner, "line": t.get("line"), "primitive": prim, "reviewed": reason})
            if reason is None:
                r.bad(owner, "%s outside the reviewed sites" % prim, relfile(b.file), t.get("line"),
                      "%s gives up ownership without a drop (%s) and is not one of the reviewed sites: what it keeps alive - a registered constant, closure state, machine code - is never "
                      "released, or is released by someone else a second time" % (hir.last(owner), prim))
    return r


def rule_h10(F):
    """The address of a constant that is baked into machine code stays valid as long as the module: it is the address of a heap
    allocation the entry owns (a pointer-typed field, `Arc::as_ptr`), never the address of the entry itself or of a field inside it -
    the entries live in hash maps that move them when they grow (and `ModuleData` moves the maps).  Every accessor of RotoConstant /
    ConstantValue that returns a raw pointer is examined: the returned value is not (a cast of) `&self.<field..>`."""
    r = RuleResult("C11.H10", "constant addresses handed to generated code point to storage the entry owns on the heap, not into the (movable) entry itself", floor=1)
    n = 0
    for b in F.all_bodies():
        if not b.mir or "{closure" in b.path or "::tests::" in b.path:
            continue
        ls = b.mir["locals"]
        if b.mir.get("argc", 0) < 1 or not any(x in str(ls[1].get("ty") or "") for x in ("codegen::RotoConstant", "runtime::ConstantValue")):
            continue
        if not str(ls[0].get("ty") or "").startswith(("*mut", "*const")):
            continue
        n += 1
        defs = mir.Defs(b)
        interior = None
        seen, work = set(), [0]
        while work:
            l = work.pop()
            if l in seen:
                continue
            seen.add(l)
            for d in defs.whole_defs(l):
                if d[2] != "assign":
                    continue          # a call result (Arc::as_ptr, NonNull::as_ptr ..) is not followed: it is what the callee returns
                rv = d[3]["rv"]
                if rv["k"] in ("ref", "rawptr", "addr"):
                    pl = rv.get("p") or []
                    if pl and pl[0] == 1 and pl[1:2] == ["*"] and "*" not in pl[2:] and any(isinstance(e, list) and e[0] == "f" for e in pl[2:]):
                        interior = (d[3].get("line"), mir.proj_str(pl[1:]))
                    elif pl:
                        # a reborrow (`&raw mut *x`) of something that is itself followed
                        work.append(pl[0])
                else:
                    work += mir.rv_locals(rv)
        r.inst("%s" % b.path, {"fn": b.path, "returns": ls[0].get("ty"), "address_of_own_field": bool(interior)})
        if interior:
            r.bad(b.path, "address of the entry's own field", relfile(b.file), interior[0] or b.line,
                  "%s returns the address of a field of the entry itself (%s): the entry lives in a hash map that relocates its entries when it grows, so an address baked into machine "
                  "code that was generated earlier dangles while handles can still run that code" % (hir.last(b.path), ".".join(interior[1])))
    if n == 0:
        r.missing("pointer accessors of RotoConstant / ConstantValue")
    return r


def rule_h11(F):
    """Script constants are released exactly once, after the last handle: a read of (a field of) a constant works on a copy that is
    owned by exactly one frame of the lowerer - a copy that is dropped by hand while still registered in a frame is dropped twice,
    which takes an owner away from the constant's payload at every evaluation (the payload is freed while handles can still call the
    function).  Shared with C03.F7 (who may emit a drop)."""
    from . import c03
    r = c03.rule_f7(F)
    r.rule = "C11.H11"
    r.desc = "copies of constants are dropped once: emit_drop only on variables taken out of their frame (no extra release of a constant's payload per evaluation)"
    for v in r.violations:
        v.rule = "C11.H11"
    return r


def rule_h12(F):
    """Machine code is released after the last handle referring to it - EVERY kind of handle: a raw address of finalized code
    (`get_finalized_function`) is only ever stored in a value that also owns the shared module data.  (A second handle type - the
    test cases handed out by `get_tests` - that keeps the bare pointer 'because tests always have the same signature' can be
    collected, outlive the package and jump into freed memory.)  Forward data-flow from every call of get_finalized_function to
    the aggregates its result is put into."""
    r = RuleResult("C11.H12", "every value that stores the address of finalized code also owns the shared module data", floor=1)
    n = 0
    for b in F.all_bodies():
        if not b.mir or "::tests::" in b.path or not b.path.startswith("codegen"):
            continue
        srcs = [t["dest"][0] for bi, t in mir.calls(b) if hir.last(mir.callee_def(t) or "") == "get_finalized_function" and t.get("dest")]
        # .. or an accessor of the module data that returns it
        for bi, t in mir.calls(b):
            c = mir.callee(t) or ""
            if c.startswith("codegen::") and F.has(c) and t.get("dest") and "*const u8" in str(F.body(c).mir["locals"][0].get("ty") if F.body(c).mir else ""):
                if any(hir.last(mir.callee_def(t2) or "") == "get_finalized_function" for _, t2 in mir.calls(F.body(c))):
                    srcs.append(t["dest"][0])
        if not srcs:
            continue
        tainted = set(srcs)
        changed = True
        sinks = []
        while changed:
            changed = False
            for bi, blk in enumerate(b.blocks):
                for st in blk["stmts"]:
                    if st["k"] != "assign":
                        continue
                    hit = [l for l in mir.rv_locals(st["rv"]) if l in tainted]
                    if not hit:
                        continue
                    if st["rv"]["k"] == "agg" and st["rv"].get("ak") == "adt":
                        sinks.append((st["rv"].get("adt"), st.get("line")))
                    if st["p"][0] not in tainted:
                        tainted.add(st["p"][0])
                        changed = True
                t = blk["term"]
                if t["k"] == "call" and t.get("dest") and t["dest"][0] not in tainted and any(mir.is_place_op(a) and a[1][0] in tainted for a in t["args"]):
                    d_ = mir.callee_def(t) or ""
                    if d_.startswith("std::mem::transmute") or hir.last(d_) in ("cast", "transmute", "from", "into", "new", "as_ptr", "unwrap", "expect", "ok_or_else", "branch", "map"):
                        tainted.add(t["dest"][0])
                        changed = True
        for adt, ln in sorted(set(sinks), key=lambda x: str(x)):
            if adt in ("std::result::Result", "std::option::Option", "std::ops::ControlFlow"):
                continue
            n += 1
            fs = fields(F, adt) or []
            owns = any(f["ty"] == SMD or "Arc<codegen::ModuleData>" in f["ty"] for f in fs)
            r.inst("%s stores a code address in %s" % (hir.last(b.path), adt), {"fn": b.path, "adt": adt, "owns_module_data": owns})
            if not owns:
                r.bad(b.path, "code address stored in %s without the module data" % hir.last(adt or "?"), relfile(b.file), ln or b.line,
                      "%s puts the address of finalized code into a %s, which has no field that owns the shared module data: such a value can outlive the package and every function "
                      "handle, and calling through it jumps into freed memory (script constants and captured closure state are gone as well)" % (hir.last(b.path), adt))
    if n == 0:
        r.missing("a value built from the result of get_finalized_function in codegen")
    return r


def rule_h13(F):
    """What compiled code refers to by absolute address lives as long as the code: the keep-alive list of the registered host
    functions (closures with captured state, `Arc<Box<dyn Any>>`) is owned by the SHARED module data, which every handle holds -
    not by the package-side `Module`.  Moved there, a handle that is still called after the package and the runtime are gone reads
    freed closure state."""
    r = RuleResult("C11.H13", "the keep-alive of registered host closures is a field of the shared ModuleData (directly or inside one of its fields)", floor=1)
    fs = fields(F, MD)
    if fs is None:
        r.missing(MD)
        return r

    def holds_any(ty, depth=0):
        if "dyn std::any::Any" in ty or "dyn core::any::Any" in ty:
            return True
        if depth >= 2:
            return False
        for a in re.findall(r"[A-Za-z_][A-Za-z0-9_:]*", ty):
            sub = fields(F, a) if a.startswith(("codegen::", "runtime::")) else None
            if sub and any(holds_any(f["ty"], depth + 1) for f in sub):
                return True
        return False
    holders = [f["name"] for f in fs if holds_any(f["ty"])]
    r.inst("ModuleData keeps registered closures alive", {"fields": holders})
    if not holders:
        r.bad(MD, "registered closures not owned by the shared module data", "src/codegen/mod.rs", 0,
              "ModuleData has no field that owns the registered host functions (Arc<Box<dyn Any>>): the code calls them by absolute address, and a handle outliving the package and the "
              "runtime would call a freed closure")
    return r


def rules(ctx):
    F = ctx["F"]
    return [rule_h1(F), rule_h2(F), rule_h3(F), rule_h4(F), rule_h5(F), rule_h7(F), rule_h8(F), rule_h9(F), rule_h10(F), rule_h11(F), rule_h12(F), rule_h13(F)]


def thorough_rules(ctx):
    from .. import witness
    return [witness.rule("C11", "C11.H6", "Package/TypedFunc have no public constructor; a handle is an owned value not borrowing the package (witnesses)")]
