"""C15 - lists behave like one shared growable array.
Decided clauses: lock hygiene (no double acquisition, two lists held together
proven distinct) - the clause 'comparing two lists always terminates'."""
from .. import mir, locks, hir
from ..facts import relfile
from ..report import RuleResult

EXPLANATION = (
    "Static clauses of C15 decided on the MIR of every body that acquires a Mutex: "
    "M1 no path acquires a mutex whose storage (origin-traced to a parameter/field path) is already held by a live guard, "
    "directly or through a crate-local callee that locks a parameter path (one-level lock summaries); "
    "M2 where guards of two distinct parameters are held together an Arc::ptr_eq on the same two roots dominates both "
    "acquisitions and its true edge leaves. Decides termination/lock hygiene of list (and StringBuf) comparison and "
    "concatenation, not the results of operation histories."
)
EXPLANATION += (
    ' M4 swap returns early for i == j and addresses both elements through offset_of. M5 every value ErasedList::concat returns is the list created by ErasedList::new in that call (never a clone of an operand handle, which would share storage with it).'
)
EXPLANATION += (  # round-3 supplement
    ' M6 the element loop of script-side equality is dominated by a comparison of both lengths read under the held guards. M7 two mutexes held together are acquired in address order. M8 functions that own an element they are given drop it on every return path. M4 is decided by boolean path simulation over the index/len comparisons.'
)
EXPLANATION += (
    ' M2 accepts a helper that only takes the two locks when every caller has proven the arguments distinct (Arc::ptr_eq) before the call; M6 follows guards handed out by a tuple-returning helper. M9 List.join is the std slice join applied to a snapshot (to_vec) and the separator parameter (or a hand-written loop whose separator decision depends only on the position). M10 no path of list equality returns true without passing the element comparison (no reflexivity shortcut for aliased handles: NaN). M11 RawList::reserve has no early exit before `len + added` is computed, except for zero-sized elements.'
)
ASSUMPTIONS = [
    "std::sync::Mutex is not re-entrant; a second lock() on a held mutex in one thread deadlocks or panics",
    "origin tracing is flow-insensitive over single-definition MIR temporaries; user variables that are re-assigned are treated as distinct roots",
    "values of operation histories (push/get/swap results) are not decided statically",
]


def _ptr_eq_guard(b, defs, dom, keys, targets):
    """Is there an Arc::ptr_eq on exactly the two mutex origins `keys` that dominates every block in `targets` and whose true edge
    cannot reach any of them?"""
    for ci, ct in mir.calls(b):
        if not (mir.callee_def(ct) or "").endswith("::ptr_eq"):
            continue
        ks = set()
        for a in ct["args"]:
            if mir.is_place_op(a):
                ks.add(mir.origin_key(b, defs, a[1]))
        if ks != set(keys):
            continue
        if any(ci not in dom[x] for x in targets):
            continue
        nxt = ct.get("t")
        if nxt is None:
            continue
        sw = b.blocks[nxt]["term"]
        if sw["k"] != "switch":
            continue
        true_targets = [sw["otherwise"]] + [x[1] for x in sw["targets"] if x[0] != 0]
        reach = set()
        for tt in true_targets:
            reach |= mir.reachable_from(b, tt)
        if any(x in reach for x in targets):
            continue
        return True
    return False


def _analyse(bodies, res_m1, res_m2, summaries, res_m7=None):
    for b in bodies:
        if not b.mir or not locks.has_locks(b):
            # a body without its own lock may still call a locking callee while
            # holding nothing: irrelevant
            continue
        la = locks.LockAnalysis(b)
        defs = la.defs
        dom = None
        for bi, blk in enumerate(b.blocks):
            t = blk["term"]
            if t["k"] != "call":
                continue
            if locks.is_lock_call(t):
                key = la.tokens[bi]
                res_m1.inst("%s|%s" % (b.path, key),
                            {"fn": b.path, "file": relfile(b.file), "line": t["line"], "mutex_origin": key,
                             "guards_live": sorted(la.tokens[x] for x in la.live_tokens_at_call(bi))})
                live = la.live_tokens_at_call(bi)
                for tok in live:
                    if tok == bi:
                        # lock in a loop with the guard of the previous iteration still live
                        res_m1.bad(b.path, key, relfile(b.file), t["line"],
                                   "mutex %s is locked again while the guard taken at the same site in a previous iteration may still be live" % key)
                        continue
                    okey = la.tokens[tok]
                    if okey == key:
                        res_m1.bad(b.path, key, relfile(b.file), t["line"],
                                   "mutex %s is locked while a guard on the same mutex (taken at line %s) is still live: self-deadlock"
                                   % (key, b.blocks[tok]["term"]["line"]))
                    elif okey.startswith("arg") and key.startswith("arg") and okey.split(".")[0] != key.split(".")[0]:
                        # two different parameters held together: need ptr_eq
                        res_m2.inst("%s|%s+%s" % (b.path, okey, key),
                                    {"fn": b.path, "held": okey, "acquired": key, "line": t["line"]})
                        if dom is None:
                            dom = mir.dominators(b)
                        ok = _ptr_eq_guard(b, defs, dom, {okey, key}, [bi, tok])
                        if not ok:
                            # a helper that only takes the locks ("lock two distinct lists"): every caller must have proven the
                            # two arguments distinct before the call
                            sites = [(cb, ci, ct) for cb in bodies if cb.mir for ci, ct in mir.calls(cb) if mir.callee(ct) == b.path]
                            if sites:
                                good = 0
                                for cb, ci, ct in sites:
                                    cdefs = mir.Defs(cb)
                                    cdom = mir.dominators(cb)
                                    mapped = set()
                                    for k_ in (okey, key):
                                        head, _, rest = k_.partition(".")
                                        ai = int(head[3:]) - 1 if head[3:].isdigit() else -1
                                        if 0 <= ai < len(ct["args"]) and mir.is_place_op(ct["args"][ai]):
                                            mapped.add(mir.origin_key(cb, cdefs, ct["args"][ai][1]) + ("." + rest if rest else ""))
                                    if len(mapped) == 2 and _ptr_eq_guard(cb, cdefs, cdom, mapped, [ci]):
                                        good += 1
                                ok = good == len(sites)
                        if not ok:
                            res_m2.bad(b.path, okey + "+" + key, relfile(b.file), t["line"],
                                       "guards on two parameters (%s, %s) are held together without a dominating Arc::ptr_eq whose true edge leaves: aliasing arguments deadlock"
                                       % (okey, key))
                        if res_m7 is not None:
                            # lock order: both acquisitions are control-dependent on a comparison of the two mutexes' addresses
                            ordered = False
                            for ci, cblk in enumerate(b.blocks):
                                for st in cblk["stmts"]:
                                    if st["k"] != "assign" or st["rv"]["k"] != "bin" or st["rv"]["op"] not in ("Lt", "Le", "Gt", "Ge"):
                                        continue
                                    roots_ = []
                                    for o in (st["rv"]["a"], st["rv"]["b"]):
                                        if not mir.is_place_op(o):
                                            continue
                                        for d_ in defs.whole_defs(o[1][0]):
                                            if d_[2] == "call" and hir.last(mir.callee_def(d_[3])) in ("as_ptr", "as_ref", "addr") and d_[3]["args"] and mir.is_place_op(d_[3]["args"][0]):
                                                roots_.append(mir.origin_key(b, defs, d_[3]["args"][0][1]))
                                            elif d_[2] == "assign" and d_[3]["rv"]["k"] in ("cast", "use", "rawptr", "ref"):
                                                src = d_[3]["rv"].get("o") or ["cp", d_[3]["rv"].get("p")]
                                                if mir.is_place_op(src):
                                                    for d2 in defs.whole_defs(src[1][0]):
                                                        if d2[2] == "call" and hir.last(mir.callee_def(d2[3])) in ("as_ptr",) and d2[3]["args"] and mir.is_place_op(d2[3]["args"][0]):
                                                            roots_.append(mir.origin_key(b, defs, d2[3]["args"][0][1]))
                                    if {x.split(".")[0] for x in roots_} == {okey.split(".")[0], key.split(".")[0]} and ci in dom[bi] and ci in dom[tok]:
                                        ordered = True
                            res_m7.inst("%s|%s then %s" % (b.path, okey, key), {"fn": b.path, "first": okey, "second": key, "line": t["line"], "ordered_by_address": ordered})
                            if not ordered:
                                res_m7.bad(b.path, "%s then %s" % (okey, key), relfile(b.file), t["line"],
                                           "the mutexes of two different parameters are acquired in parameter order (%s, then %s while it is held): a thread evaluating the operation with the arguments swapped takes them in the opposite order and the two deadlock (`a == b` on one thread, `b == a` on another)"
                                           % (okey, key))
            else:
                # call to a crate-local function that locks one of its parameters
                name = mir.callee(t)
                s = summaries.get(name)
                if not s:
                    continue
                live = la.live_tokens_at_call(bi)
                if not live:
                    continue
                for (ai, path) in s:
                    if ai - 1 >= len(t["args"]):
                        continue
                    a = t["args"][ai - 1]
                    if not mir.is_place_op(a):
                        continue
                    akey = mir.origin_key(b, defs, a[1])
                    full = akey + ("." + path if path else "")
                    res_m1.inst("%s|call %s|%s" % (b.path, name, full))
                    for tok in live:
                        if la.tokens[tok] == full:
                            res_m1.bad(b.path, "call %s|%s" % (name, full), relfile(b.file), t["line"],
                                       "calls %s, which locks %s, while a guard on that mutex (line %s) is live: self-deadlock"
                                       % (name, full, b.blocks[tok]["term"]["line"]))


def rule_m4(F):
    """Index parameters of RawList accessors are range-checked against len before any address is computed. Decided by evaluating
    the boolean part of the function's MIR for every outcome of its index/len comparisons (so `a || b`, stored flags, `max(i, j)`
    and early returns in any arrangement are all understood): no address computation involving an index may be reachable when that
    index is out of range."""
    from ..report import RuleResult as RR
    import itertools
    r = RR("C15.M4", "out-of-range get/swap: every element address is computed only after `idx < len` held on that path (and swap excludes i == j)", floor=3)
    for fn in ("value::list::RawList::get", "value::list::RawList::swap"):
        b = F.body(fn)
        if b is None or not b.mir:
            r.missing(fn)
            continue
        defs = mir.Defs(b)
        locs = b.mir["locals"]
        argc = b.mir["argc"]
        idx_params = [i for i in range(2, argc + 1) if locs[i]["ty"] == "usize"]

        def side(o):
            """('idx', {P..}, 'max'|'min'|None) / ('len',) / None"""
            if not mir.is_place_op(o):
                return None
            k = mir.origin_key(b, defs, o[1])
            if k.startswith("arg") and k[3:].isdigit() and int(k[3:]) in idx_params:
                return ("idx", {int(k[3:])}, None)
            if "len" in k.split(".")[-1] or k.endswith(".len") or "::len" in k:
                return ("len",)
            if k.startswith("call:") and k.split("::")[-1].split(".")[0] in ("max", "min"):
                for d in defs.whole_defs(o[1][0]):
                    if d[2] == "call":
                        ps = set()
                        for x in d[3]["args"]:
                            if mir.is_place_op(x):
                                kk = mir.origin_key(b, defs, x[1])
                                if kk.startswith("arg") and kk[3:].isdigit() and int(kk[3:]) in idx_params:
                                    ps.add(int(kk[3:]))
                        if ps:
                            return ("idx", ps, k.split("::")[-1].split(".")[0])
            return None
        atoms = []   # (bb, si, op, idx side first?, params, agg)
        for bi, blk in enumerate(b.blocks):
            for si, st in enumerate(blk["stmts"]):
                if st["k"] == "assign" and st["rv"]["k"] == "bin" and st["rv"]["op"] in ("Ge", "Lt", "Gt", "Le"):
                    sa, sc = side(st["rv"]["a"]), side(st["rv"]["b"])
                    if sa and sc and {sa[0], sc[0]} == {"idx", "len"}:
                        op = st["rv"]["op"]
                        if sa[0] == "len":
                            op = {"Ge": "Le", "Le": "Ge", "Gt": "Lt", "Lt": "Gt"}[op]
                            sa = sc
                        atoms.append((bi, si, op, sa[1], sa[2]))
        # address computations per index
        uses = {P: [] for P in idx_params}
        for bi, t in mir.calls(b):
            nm = mir.callee_def(t).rsplit("::", 1)[-1]
            if nm not in ("offset_of", "byte_add", "add", "byte_offset", "offset"):
                continue
            for a in t["args"][1:]:
                if not mir.is_place_op(a):
                    continue
                seen, work = set(), [a[1][0]]
                while work:
                    l = work.pop()
                    if l in seen:
                        continue
                    seen.add(l)
                    if l in uses:
                        uses[l].append(bi)
                    for d in defs.defs.get(l, []):
                        if d[2] == "call":
                            work += [x[1][0] for x in d[3]["args"] if mir.is_place_op(x)]
                        elif d[2] == "assign":
                            rv = d[3]["rv"]
                            for k in ("o", "a", "b"):
                                if k in rv and mir.is_place_op(rv[k]):
                                    work.append(rv[k][1][0])
        for P in idx_params:
            pname = locs[P].get("name") or "arg%d" % P
            key = "%s(%s)" % (fn.rsplit("::", 1)[-1], pname)
            us = sorted(set(uses[P]))
            r.inst(key, {"fn": fn, "index": pname, "comparisons_with_len": len(atoms), "address_computations": us})
            if not us:
                continue
            # every combination of "which indices are out of range" with P out of range
            bad_case = None
            weak = [a for a in atoms if a[2] in ("Gt", "Le")]
            for combo in itertools.product([False, True], repeat=len(idx_params)):
                oor = dict(zip(idx_params, combo))
                if not oor[P]:
                    continue
                av = {}
                for (bi, si, op, ps, agg) in atoms:
                    vals = [oor[q] for q in ps]
                    out_of_range = (any(vals) if agg in (None, "max") else all(vals)) if agg != "min" else all(vals)
                    # op is written as `idx OP len`: Ge means out of range; Lt means in range; Gt/Le are off by one (idx == len slips through)
                    if op == "Ge":
                        av[(bi, si)] = out_of_range
                    elif op == "Lt":
                        av[(bi, si)] = not out_of_range
                    elif op == "Gt":
                        av[(bi, si)] = False if out_of_range else False   # idx == len is out of range but `idx > len` is false
                    elif op == "Le":
                        av[(bi, si)] = True
                reach = mir.bool_sim(b, av)
                if any(u in reach for u in us):
                    bad_case = {locs[q].get("name") or "arg%d" % q: ("out of range" if v else "in range") for q, v in oor.items()}
                    break
            if bad_case:
                r.bad(fn, key, relfile(b.file), b.line,
                      "an element address is computed from `%s` on a path where `%s < len` has not been established (case %s)%s: an out-of-range index reads or swaps memory outside the list instead of returning None / doing nothing"
                      % (pname, pname, bad_case, " (a comparison uses > / <=, which lets index == len through)" if weak else ""))
    sb = F.body("value::list::RawList::swap")
    if sb is not None and sb.mir:
        defs = mir.Defs(sb)
        dom = mir.dominators(sb)
        eqs = []
        for bi, blk in enumerate(sb.blocks):
            for st in blk["stmts"]:
                if st["k"] == "assign" and st["rv"]["k"] == "bin" and st["rv"]["op"] in ("Eq", "Ne"):
                    a, c = st["rv"]["a"], st["rv"]["b"]
                    if mir.is_place_op(a) and mir.is_place_op(c) and {mir.origin_key(sb, defs, a[1]), mir.origin_key(sb, defs, c[1])} == {"arg2", "arg3"}:
                        t = blk["term"]
                        if t["k"] == "switch":
                            distinct = [x[1] for x in t["targets"] if x[0] == 0] if st["rv"]["op"] == "Eq" else [t["otherwise"]]
                            eqs += distinct
        sw = [bi for bi, t in mir.calls(sb) if "swap_nonoverlapping" in mir.callee_def(t)]
        r.inst("swap i != j", {"distinct_edges": eqs, "swap_sites": sw})
        if sw and not (eqs and all(any(e in dom[x] for e in eqs) for x in sw)):
            r.bad(sb.path, "swap i == j", relfile(sb.file), sb.line, "swap_nonoverlapping is reachable with i == j (overlapping regions are undefined behaviour)")
    return r


def rule_m5(F):
    from ..report import RuleResult as RR
    r = RR("C15.M5", "concatenation returns a freshly allocated list on every path (never a handle aliasing an operand)", floor=1)
    for fn in ("value::list::ErasedList::concat",):
        b = F.body(fn)
        if b is None or not b.mir:
            r.missing(fn)
            continue
        defs = mir.Defs(b)
        n = 0
        for d in defs.whole_defs(0):
            n += 1
            if d[2] == "assign":
                rv = d[3]["rv"]
                src = rv["o"][1] if rv["k"] == "use" and mir.is_place_op(rv["o"]) else None
                root, path = mir.origin(b, defs, src) if src else ("?", [])
                line = d[3]["line"]
            else:
                root, path = "call:" + mir.callee(d[3]), []
                a0 = d[3]["args"][0] if d[3]["args"] else None
                if mir.callee_def(d[3]).endswith("Clone::clone") and mir.is_place_op(a0):
                    r0, p0 = mir.origin(b, defs, a0[1])
                    root = "clone of " + r0
                line = d[3]["line"]
            r.inst("%s return #%d" % (fn.rsplit("::", 1)[-1], n), {"fn": fn, "returns": root})
            if not root.startswith("call:value::list::ErasedList::new"):
                r.bad(fn, "return #%d aliases" % n, relfile(b.file), line,
                      "concat returns %s instead of a new list: the result shares storage with an operand, so a later push through the result changes the operand (and no elements were cloned)" % root)
        if n == 0:
            r.missing("return value definition in " + fn)
    # the Rust API and the script operator go through ErasedList::concat
    for p in F.paths():
        if p.endswith("List::<T>::concat") and "boundary" in p:
            b = F.body(p)
            ok = any(mir.callee(t) == "value::list::ErasedList::concat" for _, t in mir.calls(b))
            r.inst("List<T>::concat delegates", {"ok": ok})
            if not ok:
                r.bad(p, "delegation", relfile(b.file), b.line, "List<T>::concat no longer goes through ErasedList::concat")
    return r


def rule_m6(F):
    """Lists of different length are different: the element-wise comparison loop of the script-side list equality only runs
    behind a comparison that relates the lengths of BOTH lists (walking the left list and looking each index up in the right one
    accepts every proper prefix)."""
    from .c08 import deps, FIELD_SUMMARY
    from ..report import RuleResult as RR
    FIELD_SUMMARY["F"] = F  # guards handed out by a tuple-returning helper (`let (a, b) = lock_both(x, y)`) keep their own list
    r = RR("C15.M6", "list equality compares the lengths of both lists before comparing elements", floor=1)
    fn = "<value::list::ErasedList as std::cmp::PartialEq>::eq"
    b0 = F.body(fn)
    if b0 is None or not b0.mir:
        r.missing(fn)
        return r

    def analyse(b, fn, la, lb, helper, outer_gated=False):
        """the element loops of body b over the lists named la / lb (parameters of b); returns how many were found.  outer_gated:
        every call of this helper with two different lists lies behind the caller's comparison of their lengths"""
        defs = mir.Defs(b)
        dom = mir.dominators(b)

        def D(op):
            if not mir.is_place_op(op):
                return set()
            l = op[1][0]
            if 1 <= l <= b.mir["argc"]:
                return {"arg%d" % l}
            return {x.split(".")[0] for x in deps(b, defs, l)}
        gates = []
        stale = []
        for bi, blk in enumerate(b.blocks):
            t = blk["term"]
            if t["k"] != "switch" or not mir.is_place_op(t["o"]):
                continue
            for d in defs.whole_defs(t["o"][1][0]):
                if d[2] == "assign" and d[3]["rv"]["k"] == "bin" and d[3]["rv"]["op"] in ("Eq", "Ne", "Lt", "Le", "Gt", "Ge"):
                    da, db = D(d[3]["rv"]["a"]), D(d[3]["rv"]["b"])
                    if (da == {la} and db == {lb}) or (da == {lb} and db == {la}):
                        # both lengths must be read through the guards this function holds (not through a call that locks and
                        # unlocks on its own: the lists can change before the element loop takes its locks)
                        under = []
                        for o in (d[3]["rv"]["a"], d[3]["rv"]["b"]):
                            chain = mir.value_chain(b, defs, o[1][0]) if mir.is_place_op(o) else []
                            guard_at = None
                            for ci, c in enumerate(chain):
                                tc = b.blocks[c[0]]["term"]
                                if c[2].endswith("Deref::deref") and tc["args"] and mir.is_place_op(tc["args"][0]) \
                                        and "MutexGuard" in b.mir["locals"][tc["args"][0][1][0]]["ty"]:
                                    guard_at = ci
                                    break
                            # what produced the guard (a lock call, a helper handing out guards) does not matter; a crate call applied
                            # to the value AFTER it left the guard would
                            under.append((guard_at is not None and not any(c[2].startswith("value::list::") for c in chain[:guard_at])) if not helper
                                         else not any("ErasedList" in c[2] or hir.last(c[2]) in ("lock", "try_lock") for c in chain))
                        if all(under):
                            gates.append(bi)
                        else:
                            stale.append(bi)
        loops = mir.natural_loops(b)
        n = 0
        for h, nodes in loops:
            # the element loop: it contains a call through the vtable's eq function or an element lookup
            if not any(b.blocks[x]["term"]["k"] == "call" and ("ind" in b.blocks[x]["term"]["f"] or hir.last(mir.callee_def(b.blocks[x]["term"])) == "get") for x in nodes):
                continue
            # a loop that compares the elements of ONE list with themselves (two handles of the same list) has no second length
            roots_ = set()
            for x in nodes:
                tx = b.blocks[x]["term"]
                if tx["k"] == "call" and "ind" in tx["f"]:
                    for a_ in tx["args"]:
                        roots_ |= D(a_)
            if roots_ and len(roots_ & {la, lb}) < 2:
                r.inst("element loop over one list (self comparison)", {"loop_header_bb": h, "roots": sorted(roots_)})
                continue
            n += 1
            ok = any(g in dom[h] for g in gates) or outer_gated
            r.inst("element loop #%d" % n, {"loop_header_bb": h, "length_gates": gates, "gated": ok, "gate_in_caller": outer_gated})
            if not ok:
                r.bad(fn, "element loop not behind a length comparison", relfile(b.file), b.blocks[h]["term"].get("line", b.line),
                      "the elements are compared without a preceding comparison of the two lengths %s: a list that is a proper prefix of the other compares equal (and `==` is no longer symmetric)"
                      % ("read under the locks that the loop holds (the comparison found uses lengths obtained before the locks were taken: a concurrent push makes them stale and the loop indexes past the shorter list)" if stale else ""))
        # the element loop may be an iterator adaptor with a closure (`(0..len).all(|i| eq_fn(this.get(i), other.get(i)))`): the adaptor
        # call then plays the part of the loop header, and the lists the closure captures are the lists it walks
        for cb_, t in mir.calls(b):
            for a_ in t["args"]:
                if not mir.is_place_op(a_):
                    continue
                cds = [d for d in defs.whole_defs(a_[1][0]) if d[2] == "assign" and d[3]["rv"]["k"] == "agg" and d[3]["rv"].get("ak") == "closure"]
                if not cds:
                    continue
                cbody = F.body(cds[0][3]["rv"].get("def") or "")
                if cbody is None or not cbody.mir:
                    continue
                if not any(tc["k"] == "call" and ("ind" in tc["f"] or (hir.last(mir.callee_def(tc) or "") == "get" and "value::list" in (mir.callee(tc) or ""))) for tc in (blk["term"] for blk in cbody.blocks)):
                    continue
                roots_ = set()
                for o in cds[0][3]["rv"].get("ops") or []:
                    roots_ |= D(o)
                if len(roots_ & {la, lb}) < 2:
                    r.inst("element closure over one list (self comparison)", {"adaptor_bb": cb_, "roots": sorted(roots_)})
                    continue
                n += 1
                ok = any(g in dom[cb_] for g in gates) or outer_gated
                r.inst("element loop #%d (closure given to %s)" % (n, hir.last(mir.callee_def(t) or "")), {"adaptor_bb": cb_, "length_gates": gates, "gated": ok, "gate_in_caller": outer_gated})
                if not ok:
                    r.bad(fn, "element loop not behind a length comparison", relfile(b.file), t.get("line", b.line),
                          "the elements are compared without a preceding comparison of the two lengths %s: a list that is a proper prefix of the other compares equal (and `==` is no longer symmetric)"
                          % ("read under the locks that the loop holds" if stale else ""))
        LAST["gates"], LAST["dom"], LAST["D"] = gates, dom, D
        return n

    LAST = {}
    n = analyse(b0, fn, "arg1", "arg2", False)
    gates0, dom0, D0 = LAST.get("gates") or [], LAST.get("dom") or {}, LAST.get("D")
    if n == 0:
        # the comparison proper lives in a helper on the locked lists: `this.elements_eq(&other)` - the helper is handed both lists
        # through the guards this function holds, and the helper's own loop is behind its own comparison of both lengths
        defs0 = mir.Defs(b0)
        done = set()
        for bi, t in mir.calls(b0):
            w = F.body(mir.callee(t) or "")
            if w is None or not w.mir or not w.path.startswith("value::list::") or w.path in done:
                continue
            lists = [i + 1 for i, l_ in enumerate(w.mir["locals"][1:1 + w.mir.get("argc", 0)]) if "RawList" in str(l_.get("ty") or "") and "Mutex" not in str(l_.get("ty") or "")]
            if len(lists) != 2 or len(t["args"]) < max(lists):
                continue
            guarded = []
            for i in lists:
                o = t["args"][i - 1]
                chain = mir.value_chain(b0, defs0, o[1][0]) if mir.is_place_op(o) else []
                guarded.append(any(c[2].endswith("Deref::deref") and b0.blocks[c[0]]["term"]["args"] and mir.is_place_op(b0.blocks[c[0]]["term"]["args"][0])
                                   and "MutexGuard" in b0.mir["locals"][b0.blocks[c[0]]["term"]["args"][0][1][0]]["ty"] for c in chain))
            if not all(guarded):
                continue
            done.add(w.path)
            # the calls of this helper with two different lists: behind the caller's own comparison of both lengths?
            two = []
            for bj, tj in mir.calls(b0):
                if (mir.callee(tj) or "") != w.path or len(tj["args"]) < max(lists):
                    continue
                ra, rb = D0(tj["args"][lists[0] - 1]), D0(tj["args"][lists[1] - 1])
                if ra != rb:
                    two.append(any(g in dom0[bj] for g in gates0))
            n += analyse(w, w.path, "arg%d" % lists[0], "arg%d" % lists[1], True, outer_gated=bool(two) and all(two))
    if n == 0:
        r.missing("element comparison loop in " + fn)
    return r


def rule_m8(F):
    """Clone/drop balance of the by-value list operations: a function that is handed an element by pointer AND runs the element
    type's drop function on it (it owns the element: contains_owned, index_owned, ...) does so on every path to its return - the
    only way around the call is the `None` side of `if let Some(drop_fn)` (element types without drop glue)."""
    from ..report import RuleResult as RR
    r = RR("C15.M8", "functions that own an element they are given drop it on every return path", floor=1)
    for b in F.bodies_in(["src/value/list.rs"]):
        if not b.mir or "::tests::" in b.path:
            continue
        defs = None
        sites = []
        for bi, t in mir.calls(b):
            if "ind" not in t["f"] or not t["args"]:
                continue
            defs = defs or mir.Defs(b)
            fk = mir.origin_key(b, defs, t["f"]["ind"][1]) if mir.is_place_op(t["f"]["ind"]) else ""
            if "drop_fn" not in fk:
                continue
            ak = [mir.origin_key(b, defs, a[1]) for a in t["args"] if mir.is_place_op(a)]
            ak += [c[2] for a in t["args"] if mir.is_place_op(a) for c in mir.value_chain(b, defs, a[1][0])]
            pa = [k for k in ak if isinstance(k, str) and k.startswith("arg") and k[3:].split(".")[0].isdigit() and int(k[3:].split(".")[0]) >= 2]
            roots_ = set()
            for a in t["args"]:
                if mir.is_place_op(a):
                    from .c08 import deps
                    roots_ |= {x.split(".")[0] for x in deps(b, defs, a[1][0])}
            owned = sorted(x for x in roots_ if x.startswith("arg") and x != "arg1" and "NonNull" in b.mir["locals"][int(x[3:])]["ty"])
            if owned:
                sites.append((bi, owned))
        if not sites:
            continue
        gates_ = [g for g in mir.gates(b, defs) if any("drop_fn" in str(x) for x in g["place"])]
        avoid = {bi for bi, _ in sites}
        for g in gates_:
            avoid |= set(g["bad"])
        rets = [i for i, blk in enumerate(b.blocks) if blk["term"]["k"] == "return"]
        seen, work, leak = set(), [0], False
        while work:
            x = work.pop()
            if x in seen or x in avoid:
                continue
            seen.add(x)
            if x in rets:
                leak = True
                break
            for sx in mir.succs(b.blocks[x]):
                if not b.blocks[sx].get("cleanup"):
                    work.append(sx)
        r.inst(b.path, {"fn": b.path, "owned_pointer_parameters": sites[0][1], "drop_sites": len(sites), "return_reachable_without_drop": leak})
        if leak:
            r.bad(b.path, "return without dropping the owned element", relfile(b.file), b.line,
                  "%s owns the element it is given (it runs the element's drop function on it) but can return without doing so: the element leaks on that path (e.g. an early return for an empty list)" % hir.last(b.path))
    return r


def _scope(F):
    return [b for b in F.all_bodies() if b.mir]


def rule_m9(F):
    """`join` gives what joining the shared vector gives: the script built-in is the standard slice join applied to a snapshot of the
    list (List::to_vec) and the separator it was given - delegation, not a re-implementation of where separators go."""
    from ..registry import registrations
    from .c08 import deps
    r = RuleResult("C15.M9", "List.join is the std slice join of a snapshot of the list with the given separator", floor=1)
    regs = [g for g in registrations(F) if g["name"] == "join" and "ErasedList" in (g["self_ty"] or "")]
    if not regs:
        r.missing("registration of `join` on the list type")
        return r
    for g in regs:
        b = F.body(g["body"]) if g["body"] else None
        if b is None or not b.mir:
            r.missing("body of the `join` built-in")
            continue
        defs = mir.Defs(b)
        joins = [(bi, t) for bi, t in mir.calls(b) if (mir.callee_def(t) or "") in ("std::slice::<impl [T]>::join", "alloc::slice::<impl [T]>::join", "std::slice::Join::join")
                 or ((mir.callee_def(t) or "").endswith("::join") and ("slice" in (mir.callee_def(t) or "") or "Join" in (mir.callee_def(t) or "")))]
        snap = [bi for bi, t in mir.calls(b) if hir.last(mir.callee(t) or "").startswith("to_vec") and "list" in (mir.callee(t) or "")]
        ok = False
        for bi, t in joins:
            a0 = t["args"][0] if t["args"] else None
            a1 = t["args"][1] if len(t["args"]) > 1 else None
            recv_from_snapshot = mir.is_place_op(a0) and any(x in mir.back_calls(b, defs, a0[1][0]) for x in snap)
            sep_is_param = mir.is_place_op(a1) and any(x.split(".")[0] == "arg2" for x in deps(b, defs, a1[1][0]))
            ok = ok or (recv_from_snapshot and sep_is_param)
        hand = None
        if not ok and not joins:
            # a hand-written loop: the separator goes between consecutive elements, so whether it is written may depend on the
            # position in the list (a counter, a `first` flag, a peeked next element) but never on the text accumulated so far
            dom = mir.dominators(b)
            seps = []
            for bi, t in mir.calls(b):
                if hir.last(mir.callee_def(t) or "") in ("push_str", "push", "extend", "write_str") and len(t["args"]) == 2 and mir.is_place_op(t["args"][1]) \
                        and any(x.split(".")[0] == "arg2" for x in deps(b, defs, t["args"][1][1][0])) and mir.is_place_op(t["args"][0]):
                    seps.append((bi, t))
            if seps:
                hand = True
                for bi, t in seps:
                    acc = {x for x in [t["args"][0][1][0]]}
                    # the local the `&mut accumulator` was taken from
                    for d in defs.whole_defs(t["args"][0][1][0]):
                        if d[2] == "assign" and d[3]["rv"]["k"] == "ref":
                            acc.add(d[3]["rv"]["p"][0])
                    for si, blk in enumerate(b.blocks):
                        tt = blk["term"]
                        if tt["k"] != "switch" or si not in dom[bi]:
                            continue
                        if all(s_ == bi or bi in mir.reachable_from(b, s_, stop={si}) for s_ in mir.succs(blk)):
                            continue  # does not decide whether the separator is written
                        l = mir.op_local(tt["o"])
                        if l is None:
                            continue
                        feeding, work = set(), [l]
                        while work:
                            x = work.pop()
                            if x in feeding:
                                continue
                            feeding.add(x)
                            for d in defs.defs.get(x, []):
                                if d[2] == "call":
                                    work += [a_[1][0] for a_ in d[3]["args"] if mir.is_place_op(a_)]
                                elif d[2] == "assign":
                                    work += mir.rv_locals(d[3]["rv"])
                        if feeding & acc:
                            hand = False
        r.inst("join built-in", {"body": b.path, "slice_join_calls": len(joins), "on_snapshot_with_separator_parameter": ok, "hand_written_loop_with_positional_separator": hand})
        ok = ok or bool(hand)
        if not ok:
            r.bad(b.path, "join is not the slice join of the snapshot", relfile(b.file), b.line,
                  "the `join` built-in does not apply the standard slice join to List::to_vec and its separator parameter: a hand-written loop decides where separators go "
                  "(e.g. skips them while the accumulated text is empty: `[\"\", \"a\"].join(\",\")` gives \"a\" instead of \",a\")")
    return r


def rule_m10(F):
    """`==` on lists is the element-wise comparison of the shared vector, and element equality need not be reflexive (NaN): also two
    handles of the SAME list are equal only if every element equals itself.  No path returns `true` without going through the
    element comparison (the loop over the elements, or the slice comparison)."""
    r = RuleResult("C15.M10", "list equality never answers true without comparing the elements (no reflexivity shortcut for aliased handles)", floor=2)
    def closure_bodies(b, defs, t):
        for a in t["args"]:
            if not mir.is_place_op(a):
                continue
            for d_ in defs.whole_defs(a[1][0]):
                if d_[2] == "assign" and d_[3]["rv"]["k"] == "agg" and d_[3]["rv"].get("ak") == "closure":
                    cb_ = F.body(d_[3]["rv"].get("def") or "")
                    if cb_ is not None and cb_.mir:
                        yield cb_

    def compares(b, depth=0):
        """does the body compare elements: through the vtable's function pointer, in a closure it hands to an adaptor, or in a helper of
        the list module (`this.elements_eq(&other)`, `this.elem_eq(i, e)`)"""
        if b is None or not b.mir or depth > 3:
            return False
        defs = mir.Defs(b)
        for bi, t in mir.calls(b):
            if "ind" in t["f"]:
                return True
            if any(compares(cb_, depth + 1) for cb_ in closure_bodies(b, defs, t)):
                return True
            w = mir.callee(t) or ""
            if w.startswith("value::list::") and w != b.path and hir.last(w) not in ("get", "len", "lock") and F.has(w) and compares(F.body(w), depth + 1):
                return True
        return False

    todo = [("<value::list::ErasedList as std::cmp::PartialEq>::eq", None), ("<value::list::boundary::List<T> as std::cmp::PartialEq>::eq", None)]
    done = set()
    while todo:
        fn, via = todo.pop(0)
        if fn in done:
            continue
        done.add(fn)
        b = F.body(fn)
        if b is None or not b.mir:
            r.missing(fn)
            continue
        loops = mir.natural_loops(b)
        cmp_blocks = set()
        defs = mir.Defs(b)
        raw = {bi for bi, t in mir.calls(b) if hir.last(mir.callee_def(t) or "") in ("from_raw_parts", "to_vec", "as_slice")}
        for bi, t in mir.calls(b):
            d = mir.callee_def(t) or ""
            if "ind" in t["f"]:
                cmp_blocks.add(bi)
            elif hir.last(d) in ("eq", "ne") and any(mir.is_place_op(a) and (mir.back_calls(b, defs, a[1][0]) & raw) for a in t["args"]):
                cmp_blocks.add(bi)
            # the comparison may be made by a closure handed to an iterator adaptor (`(0..len).all(|i| eq_fn(..))`)
            elif any(compares(cb_) for cb_ in closure_bodies(b, defs, t)):
                cmp_blocks.add(bi)
            else:
                # .. or by a helper of the list module that answers for the whole comparison: it is then held to the same rule
                w = mir.callee(t) or ""
                if w.startswith("value::list::") and w != fn and F.has(w) and hir.last(w) not in ("get", "len", "lock") and compares(F.body(w)):
                    cmp_blocks.add(bi)
                    if str(F.body(w).mir["locals"][0].get("ty")) == "bool":
                        todo.append((w, fn))
        gate = set(cmp_blocks)
        for h, nodes in loops:
            if nodes & cmp_blocks:
                gate.add(h)
        trues = []
        for bi, blk in enumerate(b.blocks):
            for st in blk["stmts"]:
                if st["k"] == "assign" and st["p"] == [0] and st["rv"]["k"] == "use":
                    c = mir.op_const(st["rv"]["o"])
                    if c is not None and c.get("v") in (1, True):
                        trues.append((bi, st.get("line")))
        if not gate:
            r.missing("the element comparison in " + fn)
            continue
        # blocks reachable from the entry without passing a gate
        seen, work = set(), [0]
        while work:
            x = work.pop()
            if x in seen or x in gate:
                continue
            seen.add(x)
            work.extend(mir.succs(b.blocks[x]))
        short = [(bi, ln) for bi, ln in trues if bi in seen]
        r.inst(fn, {"element_comparison_sites": len(cmp_blocks), "constant_true_exits": len(trues), "reachable_without_comparing": len(short), "answers_for": via})
        for bi, ln in short:
            r.bad(fn, "true without comparing elements", relfile(b.file), ln or b.line,
                  "list equality returns true on a path that never compares the elements (two handles of the same list): the shared-vector model compares element by element, and "
                  "`[NaN] == itself` is false there")
    return r


def rule_m11(F):
    """Growing: `reserve(added)` returns with room for `len + added` elements - `extend` (concat, `+`) relies on it for a whole
    operand, `push` for one.  Every way out of RawList::reserve that does not go through the computation of `len + added` is the
    zero-sized-element case; a shortcut that looks only at `len < capacity` is right for push and lets concat write past the
    allocation."""
    from .c08 import deps
    r = RuleResult("C15.M11", "RawList::reserve: no early exit before the required capacity (len + added) was computed, except for zero-sized elements", floor=1)
    ps = [p for p in F.paths() if p.endswith("RawList::reserve") or p.endswith("RawList::<T>::reserve")]
    if not ps:
        r.missing("RawList::reserve")
        return r
    b = F.body(ps[0])
    defs = mir.Defs(b)
    argc = b.mir["argc"]
    added = "arg%d" % argc
    uses_added = {bi for bi, t in mir.calls(b) if any(mir.is_place_op(a) and any(x.split(".")[0] == added for x in deps(b, defs, a[1][0])) for a in t["args"])}
    for bi, blk in enumerate(b.blocks):
        for st in blk["stmts"]:
            if st["k"] == "assign" and st["rv"]["k"] in ("bin", "checked") and any(mir.is_place_op(o) and any(x.split(".")[0] == added for x in deps(b, defs, o[1][0])) for o in (st["rv"].get("a"), st["rv"].get("b")) if o is not None):
                uses_added.add(bi)
    if not uses_added:
        r.missing("the use of the `added` parameter in RawList::reserve")
        return r
    region = mir.reachable_from(b, 0, stop=uses_added) - uses_added
    rets = [x for x in region if b.blocks[x]["term"]["k"] == "return"]
    sizes = {bi for bi, t in mir.calls(b) if hir.last(mir.callee(t) or mir.callee_def(t) or "") in ("size", "size_of", "is_zst")}
    early = []
    for si in sorted(region):
        tt = b.blocks[si]["term"]
        if tt["k"] != "switch":
            continue
        leads = [x for x in mir.succs(b.blocks[si]) if x in region and any(y in rets for y in (mir.reachable_from(b, x, stop=uses_added) | {x}))]
        if not leads:
            continue
        l = mir.op_local(tt["o"])

        def derives_from_size(x, depth=0):
            """through whole-local definitions only (field stores into `self` do not count)"""
            if depth > 6:
                return False
            for d in defs.whole_defs(x):
                if d[2] == "call":
                    if d[0] in sizes:
                        return True
                elif d[2] == "assign":
                    rv = d[3]["rv"]
                    for o in (rv.get("o"), rv.get("a"), rv.get("b")):
                        if mir.is_place_op(o) and len(o[1]) == 1 and derives_from_size(o[1][0], depth + 1):
                            return True
            return False
        from_size = l is not None and derives_from_size(l)
        early.append((tt.get("line") or b.line, from_size))
    r.inst("early exits of reserve", {"exits_before_added_is_used": len(rets), "deciding_tests": [{"line": ln, "tests_the_element_size": fs} for ln, fs in early]})
    for ln, fs in early:
        if not fs:
            r.bad(b.path, "early exit that ignores `added`", relfile(b.file), ln,
                  "RawList::reserve can return before the required capacity `len + added` is computed, on a test that does not look at the element size: for `added > 1` (extend / concat) the "
                  "elements of the second operand are written past the end of the allocation")
    return r


def rule_m12(F):
    """Conversion to a Vec gives the elements the shared vector held at ONE moment: `List::to_vec` takes the list's lock once and
    copies every element while holding it.  It neither goes through the per-element API (`get`, the by-index iterator: one lock per
    element, so a `swap` through an alias between two elements yields a vector the list never was) nor locks twice."""
    from .. import locks
    r = RuleResult("C15.M12", "List::to_vec copies all elements under a single acquisition of the list's lock (a snapshot, not a walk through the per-element API)", floor=1)
    ps = [p for p in F.paths() if p.startswith("value::list::boundary::List::<") and hir.last(p) == "to_vec"]
    if not ps:
        r.missing("value::list::boundary::List::<T>::to_vec")
        return r
    memo = {}

    def acquisitions(path, depth=0):
        """(lock acquisitions on one run of the function, per-element uses) - helpers of the list module are followed: a helper that
        locks once and runs a closure under the lock counts once; a locking call inside a loop, or inside a closure handed to an
        iterator adaptor, is a per-element use"""
        if path in memo:
            return memo[path]
        memo[path] = (0, [])
        x = F.body(path) if path and F.has(path) else None
        if x is None or not x.mir or depth > 3:
            return memo[path]
        loops = mir.natural_loops(x)
        in_loop = set().union(*[nodes for _, nodes in loops]) if loops else set()
        xdefs = mir.Defs(x)
        n, per = 0, []
        for bi, t in mir.calls(x):
            c = mir.callee(t) or ""
            g = " ".join(t["f"].get("gargs") or [])
            if locks.is_lock_call(t):
                if bi in in_loop:
                    per.append("lock inside a loop of %s" % hir.last(path))
                else:
                    n += 1
                continue
            if "value::list::boundary::IntoIter" in g or ("value::list::boundary::List<" in g and hir.last(mir.callee_def(t) or "") in ("extend", "from_iter", "collect", "into_iter", "for_each", "fold", "map")):
                per.append("%s over the list's by-index iterator" % hir.last(mir.callee_def(t) or ""))
                continue
            is_crate = c.startswith("value::list::") and c != path and "{closure" not in c
            if is_crate:
                cn, cper = acquisitions(c, depth + 1)
                per += cper
                if cn:
                    if bi in in_loop:
                        per.append("%s (takes the lock itself) inside a loop" % hir.last(c))
                    else:
                        n += cn
            # closures handed over: run once by a helper of the module, once per element by an iterator adaptor
            for a in t["args"]:
                if not mir.is_place_op(a):
                    continue
                for d in xdefs.whole_defs(a[1][0]):
                    if d[2] == "assign" and d[3]["rv"]["k"] == "agg" and d[3]["rv"].get("ak") == "closure":
                        cn, cper = acquisitions(d[3]["rv"].get("def"), depth + 1)
                        per += cper
                        if cn:
                            if is_crate and bi not in in_loop:
                                n += cn
                            else:
                                per.append("a closure that takes the lock, run per element by %s" % hir.last(mir.callee_def(t) or c))
        memo[path] = (n, per)
        return memo[path]
    for p in ps:
        b = F.body(p)
        if b is None or not b.mir:
            continue
        direct, per_elem = acquisitions(p)
        r.inst(p, {"fn": p, "lock_acquisitions_per_call": direct, "per_element_uses": per_elem})
        if direct != 1 or per_elem:
            r.bad(p, "to_vec is not a single-lock snapshot", relfile(b.file), b.line,
                  "to_vec acquires the list's lock %d time(s) per call and uses %s: the elements are copied under separate acquisitions, so an operation through an alias in between "
                  "(swap) gives a vector that was never the contents of the list" % (direct, per_elem or "no per-element API"))
    return r


def rule_m13(F):
    """The script built-ins that look at a whole list at once (`join`) work on ONE snapshot of it (`to_vec`: a single lock, M12) -
    not on the by-index iterator or `get`, which lock per element: a `swap` through an alias between two elements yields a result
    the list never had (an element twice, another missing).  Shared with C16.M6."""
    from .. import registry
    r = RuleResult("C15.M13", "whole-list built-ins (join) read the list through one snapshot (to_vec), not element by element", floor=1)
    regs = [g for g in registry.registrations(F) if g["name"] in ("join",) and g["body"]]
    if not regs:
        r.missing("the registration of the list built-in `join`")
        return r
    # .. and the Rust functions behind built-ins that consume a whole list (`String.from_chars(list)`)
    for p_ in F.paths():
        if p_.startswith("value::string::RotoString::") and hir.last(p_) in ("from_chars",) and "{closure" not in p_:
            regs.append({"name": hir.last(p_), "body": p_})
    for g in regs:
        b = F.body(g["body"])
        if b is None or not b.mir:
            r.missing("body of built-in %s" % g["name"])
            continue
        fam = [b] + [F.body(q) for q in F.paths() if q.startswith(b.path + "::{closure")]
        snap, per = 0, []
        for x in fam:
            if x is None or not x.mir:
                continue
            for _, t in mir.calls(x):
                c = mir.callee(t) or ""
                gargs = " ".join(t["f"].get("gargs") or [])
                if c.startswith("value::list::boundary::List::<") and hir.last(c) == "to_vec":
                    snap += 1
                elif "value::list::boundary::IntoIter" in gargs or "value::list::boundary::IntoIter" in c or \
                        (c.startswith("value::list::boundary::List::<") and hir.last(c) in ("get", "len", "into_iter", "iter")) or \
                        ("value::list::boundary::List<" in gargs and hir.last(mir.callee_def(t) or "") in ("into_iter", "next", "extend", "collect", "fold", "for_each", "map")):
                    per.append(hir.last(mir.callee_def(t) or c))
        r.inst("built-in %s" % g["name"], {"body": b.path, "snapshots": snap, "per_element_reads": per})
        if snap != 1 or per:
            r.bad(b.path, "%s reads the list element by element" % g["name"], relfile(b.file), b.line,
                  "the built-in `%s` takes %d snapshot(s) of the list and reads it through %s: every element is read under its own lock acquisition, so a concurrent swap gives a result "
                  "the list never had" % (g["name"], snap, per or "nothing else"))
    return r


def rule_m14(F):
    """Every element is cloned and dropped in balance: a list whose element type has a `Clone` impl clones its elements with it -
    whether or not the type has drop glue.  (`needs_drop::<T>().then_some(extern_clone::<T>)` treats "no Drop" as "Copy": the
    type-erased paths - concat, script get / for - then memcpy values whose Clone has effects, the typed paths still call it.)  The
    clone function handed to the vtable of a Rust-side list does not depend on `needs_drop`."""
    r = RuleResult("C15.M14", "the clone function of a Rust-side list's vtable is unconditional (not derived from needs_drop)", floor=1)
    vb = F.body("value::vtable::VTable::new")
    if vb is None or not vb.hir:
        r.missing("value::vtable::VTable::new")
        return r
    pn = [p_.get("name") for p_ in vb.hir.get("params") or []]
    cpos = [i for i, n_ in enumerate(pn) if n_ and "clone" in n_]
    if not cpos:
        r.missing("the clone function parameter of VTable::new")
        return r
    n = 0
    for b in F.bodies_in(["src/value/list.rs"]):
        if not b.mir or "::tests::" in b.path:
            continue
        defs = None
        for bi, t in mir.calls(b):
            if (mir.callee(t) or "") != "value::vtable::VTable::new" or len(t["args"]) <= cpos[0]:
                continue
            defs = defs or mir.Defs(b)
            a = t["args"][cpos[0]]
            n += 1
            via = []
            if mir.is_place_op(a):
                via = [hir.last(mir.callee_def(b.blocks[x]["term"]) or "") for x in mir.back_calls(b, defs, a[1][0])]
            cond = [x for x in via if x in ("needs_drop", "then_some", "then", "filter")]
            r.inst("%s builds a vtable" % b.path, {"fn": b.path, "line": t.get("line"), "clone_fn_computed_through": via})
            if cond:
                r.bad(b.path, "clone function depends on needs_drop", relfile(b.file), t.get("line") or b.line,
                      "the clone function given to the list's vtable is computed through %s: element types with a Clone impl but without drop glue are copied bytewise by concat / "
                      "script get / for, while to_vec and get on the Rust side still call Clone - clones are no longer in balance and the results differ from a shared Vec" % cond)
    if n == 0:
        r.missing("a call of VTable::new in src/value/list.rs")
    return r


def rule_m15(F):
    """Growing: after `reserve(added)` the storage has room for `len + added` elements - every value that becomes the new capacity
    (is stored in `self.capacity`, is handed to the (re)allocation) is computed FROM the required total, i.e. depends on both the
    current length and `added`.  Sizing the new buffer from `added` alone (doubling the old capacity otherwise) is enough for `push`
    and lets the second `extend` of `concat` write past the allocation when the right operand is longer than the left."""
    from .c08 import deps
    r = RuleResult("C15.M15", "RawList::reserve: the new capacity is computed from the required total (length and added elements), not from one of them", floor=1)
    ps = [p for p in F.paths() if p.endswith("RawList::reserve") or p.endswith("RawList::<T>::reserve")]
    if not ps:
        r.missing("RawList::reserve")
        return r
    b = F.body(ps[0])
    defs = mir.Defs(b)
    argc = b.mir["argc"]
    added = "arg%d" % argc

    def xdeps(bb, dd, l, depth=0):
        """deps, with calls of the list's own helpers expanded by what their result depends on (`self.needed_capacity(added)`)"""
        out = set()
        helper_calls = [d for d in dd.whole_defs(l) if d[2] == "call" and (mir.callee(d[3]) or "").startswith("value::list::") and F.has(mir.callee(d[3])) and depth < 3]
        if helper_calls:
            for d in helper_calls:
                hb = F.body(mir.callee(d[3]))
                if hb is None or not hb.mir:
                    continue
                hd = mir.Defs(hb)
                for root in xdeps(hb, hd, 0, depth + 1):
                    head, _, rest = root.partition(".")
                    if head.startswith("arg") and head[3:].isdigit() and int(head[3:]) <= len(d[3]["args"]):
                        o = d[3]["args"][int(head[3:]) - 1]
                        if mir.is_place_op(o):
                            if 1 <= o[1][0] <= bb.mir["argc"]:
                                out.add("arg%d" % o[1][0] + ("." + rest if rest else ""))
                            else:
                                out |= {x + ("." + rest if rest else "") for x in xdeps(bb, dd, o[1][0], depth + 1)}
            return out
        ds = deps(bb, dd, l)
        # follow plain copies of helper results
        for d in dd.whole_defs(l):
            if d[2] == "assign":
                for x in mir.rv_locals(d[3]["rv"]):
                    if any(y[2] == "call" and (mir.callee(y[3]) or "").startswith("value::list::") for y in dd.whole_defs(x)) and depth < 3:
                        ds |= xdeps(bb, dd, x, depth + 1)
        return ds

    # where the new capacity is stored: in reserve itself, or in a helper of the list that stores the value it is handed (`grow_to(n)`)
    sinks = []       # (body, defs, line, locals whose value is stored)
    for bi, blk in enumerate(b.blocks):
        for st in blk["stmts"]:
            if st["k"] == "assign" and len(st["p"]) >= 2 and st["p"][0] == 1 and any(isinstance(x, list) and x and x[0] == "f" and len(x) > 2 and x[2] == "capacity" for x in st["p"][1:]):
                sinks.append((st.get("line"), mir.rv_locals(st["rv"])))
    for bi, t in mir.calls(b):
        hb = F.body(mir.callee(t) or "") if (mir.callee(t) or "").startswith("value::list::") and F.has(mir.callee(t) or "") else None
        if hb is None or not hb.mir or hb.path == b.path:
            continue
        hd = mir.Defs(hb)
        for blk2 in hb.blocks:
            for st in blk2["stmts"]:
                if st["k"] == "assign" and len(st["p"]) >= 2 and st["p"][0] == 1 and any(isinstance(x, list) and x and x[0] == "f" and len(x) > 2 and x[2] == "capacity" for x in st["p"][1:]):
                    for l in mir.rv_locals(st["rv"]):
                        root, _p = mir.origin(hb, hd, [l])
                        if root.startswith("arg") and root[3:].isdigit() and 2 <= int(root[3:]) <= len(t["args"]) and mir.is_place_op(t["args"][int(root[3:]) - 1]):
                            sinks.append((t.get("line"), [t["args"][int(root[3:]) - 1][1][0]]))
    n = 0
    for line, locals_ in sinks:
        n += 1
        ds = set()
        for l in locals_:
            ds |= xdeps(b, defs, l)
        has_len = any(x.startswith("arg1") and x.split(".")[-1] == "len" for x in ds)
        has_added = any(x.split(".")[0] == added for x in ds)
        r.inst("self.capacity = .. #%d" % n, {"line": line, "depends_on_length": has_len, "depends_on_added": has_added})
        if not (has_len and has_added):
            r.bad(b.path, "new capacity not computed from len + added", relfile(b.file), line or b.line,
                  "the value stored as the new capacity depends on %s only: after reserve(added) there need not be room for len + added elements - `[a, b, c] + [six elements]` "
                  "writes the right operand past the allocation" % ("`added`" if has_added else "the old length / capacity" if has_len else "neither the length nor `added`"))
    if n == 0:
        r.missing("the assignment to self.capacity in RawList::reserve")
    return r


def rules(ctx):
    F = ctx["F"]
    bodies = _scope(F)
    m1 = RuleResult("C15.M1", "no mutex is acquired while a guard on the same mutex is live (direct or via callee summary)", floor=25)
    m2 = RuleResult("C15.M2", "two parameters' mutexes held together are proven distinct by a dominating Arc::ptr_eq", floor=2)
    summ = locks.lock_summaries(bodies)
    m7 = RuleResult("C15.M7", "two list / buffer mutexes held together are acquired in an order decided by their addresses (no lock-order inversion between threads)", floor=2)
    _analyse(bodies, m1, m2, summ, m7)
    # anchors: the list comparison and concat bodies must exist
    for anchor in ("<value::list::ErasedList as std::cmp::PartialEq>::eq",
                   "<value::list::boundary::List<T> as std::cmp::PartialEq>::eq",
                   "value::list::ErasedList::concat"):
        if not F.has(anchor):
            m1.missing(anchor)
    return [m1, m2, rule_m4(F), rule_m5(F), rule_m6(F), m7, rule_m8(F), rule_m9(F), rule_m10(F), rule_m11(F), rule_m12(F), rule_m13(F), rule_m14(F), rule_m15(F)]


def canary(C):
    bodies = [b for b in C.all_bodies() if b.mir]
    m1 = RuleResult("C15.M1", "")
    m2 = RuleResult("C15.M2", "")
    _analyse(bodies, m1, m2, locks.lock_summaries(bodies))
    return [
        {"rule": "C15.M1", "fired": [v.key for v in m1.violations], "expect_min": 2},
        {"rule": "C15.M2", "fired": [v.key for v in m2.violations], "expect_min": 1},
    ]
