"""C07 - ill-typed scripts never compile."""
import re
from .. import mir, hir
from ..callgraph import CallGraph
from ..facts import relfile
from ..report import RuleResult
from .c09 import names

EXPLANATION = (
    "Soundness of type inference for all programs is not decided. Decided necessary conditions, each of which a single wrong arm "
    "breaks: E1 every expression-kind arm of TypeChecker::expr and every operator group of TypeChecker::binop constrains the expected "
    "type (reads ctx.expected_type or hands ctx on), the fixed-type constructs unify with the documented type (while/for/assignment: "
    "unit, !: bool, f-string: String, return: Never, conditions: bool) and both operands of a binary operator are checked against the "
    "same context; E2 error discipline - no TypeResult / Result<_, TypeError> / unify result in typechecker::* is dropped or turned "
    "into a non-error (no `let _ =`, .ok(), .is_ok(), .unwrap_or*); E3 assignment and compound assignment inspect the value kind "
    "and reject everything that is not a local; E4 every TypeChecker::error_* diagnostic still has a call site reachable from "
    "check_module_tree; E5 rule-specific guards (argument count before zip, match exhaustiveness and unreachable arms, record field "
    "sets, negation of unsigned, signedness of literals, redeclaration)."
)
EXPLANATION += (  # round-3 supplement
    " E5's unify_intvars part is decided by evaluating the function's decision code for all four flag combinations (vf/symex.py). E6 success of unify_fields is gated by a relation between both field counts. E7 the covered-variants collection of match_expr is kept duplicate-free. E8 the Never row of unification is directional (known finding)."
)
EXPLANATION += (
    ' E9 record literals: a field name enters the set of names seen so far only behind a negative membership test on that same set (so a repeated field is reported whatever the expected fields are). E10 (= C14.D2) a cycle of the reference graph is rejected as soon as one member is a constant. E11 (= C19.X6) every item checker resolves the deferred obligations of its body.'
)
ASSUMPTIONS = [
    "unify / unify_inner themselves (the unification algorithm) are trusted beyond the occurs check decided under C06",
]

UNIT_ARMS = {"Expr::Assign": "unit", "Expr::CompoundAssign": "unit", "Expr::While": "unit", "Expr::For": "unit",
             "Expr::Not": "bool", "Expr::FString": "string", "Expr::Return": "Never"}


def find_tc(F, name):
    ps = [p for p in F.paths() if p.endswith("::" + name) and "typechecker::" in p and "{closure" not in p]
    pref = [p for p in ps if "TypeChecker" in p]
    ps = pref or ps
    return F.body(sorted(ps, key=len)[0]) if ps else None


def reads_expected(node, ctxname="ctx"):
    """Does the code read <ctx>.expected_type or pass bare ctx to a call?"""
    for n in hir.walk(node):
        if n.get("k") == "field" and n.get("n") == "expected_type":
            return True
        if n.get("k") in ("mcall", "call"):
            for a in n["args"]:
                a = hir.peel_refs(a)
                if a.get("k") == "path" and hir.res_local(a) is not None and "Context" in (a.get("ty") or ""):
                    return True
    return False


def unify_partners(node):
    """Descriptors X of every `self.unify(&ctx.expected_type, &X, ..)` in node."""
    out = []
    for c in hir.nodes(node, "mcall"):
        if c["m"] != "unify" or len(c["args"]) < 2:
            continue
        a0 = hir.peel_refs(c["args"][0])
        a1 = hir.peel_refs(c["args"][1])
        for x, y in ((a0, a1), (a1, a0)):
            if x.get("k") == "field" and x.get("n") == "expected_type":
                d = hir.result_desc(y)
                out.append(hir.last(d.replace("(..)", "")) if isinstance(d, str) else str(d))
    return out


def _ctx_type_root(ld, e, depth=0):
    """the locals that can hold the TYPE a context expression expects: `&new_ctx` with `let new_ctx = ctx.with_type(ty.clone())` ->
    {local of `ty`}, followed through copies, tuples and the arms of a `match` / `if` that produces it; None when the type is not
    a local at all (built in place, a call)"""
    e = hir.peel_refs(hir.strip(e or {}))
    if depth > 6:
        return None
    if e.get("k") == "mcall" and e["m"] in ("clone", "to_owned", "borrow", "as_ref") and not e["args"]:
        return _ctx_type_root(ld, e["recv"], depth + 1)
    if e.get("k") == "mcall" and e["m"] == "with_type" and len(e["args"]) == 1:
        return _ty_roots(ld, e["args"][0], (), depth + 1) or None
    if e.get("k") == "path" and hir.res_local(e) is not None:
        d = ld.get(hir.res_local(e))
        if d and d[1] is not None and not (d[2] and d[2][0] in ("arm", "param")):
            return _ctx_type_root(ld, d[1], depth + 1)
    return None


def _ty_roots(ld, e, path, depth=0):
    """root locals of component `path` (tuple positions) of the value of e"""
    e = hir.peel_refs(hir.strip(e or {}))
    if depth > 12 or not isinstance(e, dict):
        return frozenset()
    k = e.get("k")
    if k == "mcall" and e["m"] in ("clone", "to_owned", "borrow", "as_ref") and not e["args"]:
        return _ty_roots(ld, e["recv"], path, depth + 1)
    if k == "block":
        return _ty_roots(ld, e.get("expr"), path, depth + 1) if e.get("expr") is not None else frozenset()
    if k == "match":
        out = frozenset()
        for arm in e["arms"]:
            out |= _ty_roots(ld, arm["body"], path, depth + 1)
        return out
    if k == "if":
        return _ty_roots(ld, e.get("then"), path, depth + 1) | _ty_roots(ld, e.get("else"), path, depth + 1)
    if k == "tup" and path and isinstance(path[0], int) and path[0] < len(e.get("elems") or []):
        return _ty_roots(ld, e["elems"][path[0]], path[1:], depth + 1)
    if k == "path" and hir.res_local(e) is not None:
        l = hir.res_local(e)
        d = ld.get(l)
        if d and d[1] is not None and not (d[2] and d[2][0] in ("arm", "param")) and all(isinstance(x, int) for x in d[2]):
            inner = _ty_roots(ld, d[1], tuple(d[2]) + tuple(path), depth + 1)
            if inner:
                return inner
        return frozenset([l]) if not path else frozenset([(l,) + tuple(path)])
    return frozenset()


def rule_e1(F):
    r = RuleResult("C07.E1", "every expression kind / operator group constrains the expected type; fixed-type constructs unify with the documented type", floor=20 + 7 + 6)
    b = find_tc(F, "expr")
    if b is None:
        r.missing("TypeChecker::expr")
        return r
    ms = hir.find_match_on(b.hir["value"], "Expr::", min_arms=15)
    if not ms:
        r.missing("match over ast::Expr in TypeChecker::expr")
        return r
    adt = F.adt("ast::Expr")
    seen = set()
    for arm in ms[0]["arms"]:
        alts = hir.pat_alternatives(arm["pat"])
        kind = alts[0].split("(")[0].split("{")[0]
        seen.add(kind)
        r.inst("arm " + kind, {"arm": kind, "reads_expected_type": reads_expected(arm["body"]), "unifies_expected_with": unify_partners(arm["body"])})
        if not reads_expected(arm["body"]):
            r.bad(b.path, "arm " + kind, relfile(b.file), arm["line"], "the %s arm never looks at the expected type: a mismatch in this position cannot be rejected" % kind)
        if kind in UNIT_ARMS:
            want = UNIT_ARMS[kind]
            got = [p.lower() for p in unify_partners(arm["body"])]
            r.inst("arm %s type" % kind)
            if want.lower() not in got:
                r.bad(b.path, "arm %s type" % kind, relfile(b.file), arm["line"], "%s must have type %s; the arm unifies the expected type with %s" % (kind, want, got))
    for v in (adt["variants"] if adt else []):
        if "Expr::" + v["name"] not in seen:
            r.bad(b.path, "arm Expr::" + v["name"], relfile(b.file), b.line, "no arm for Expr::%s" % v["name"])
    # conditions are bool
    for arm in ms[0]["arms"]:
        kind = hir.pat_alternatives(arm["pat"])[0].split("(")[0]
        if kind in ("Expr::IfElse", "Expr::While"):
            binds = hir.pat_bindings(arm["pat"])
            cond_name = binds[0][0] if binds else None
            ok = False
            for c in hir.nodes(arm["body"], "mcall"):
                if c["m"] == "expr" and len(c["args"]) == 3 and names(c["args"][2]) == {cond_name}:
                    ok = any((hir.call_def(n) or "").endswith("Type::bool") for n in hir.nodes(c["args"][1], "call"))
            r.inst("%s condition bool" % kind)
            if not ok:
                r.bad(b.path, "%s condition" % kind, relfile(b.file), arm["line"], "the condition of %s is not checked against bool" % kind)
    # binop groups
    bb = find_tc(F, "binop")
    if bb is None:
        r.missing("TypeChecker::binop")
        return r
    pn = [p.get("name") for p in bb.hir["params"]]
    bms = hir.find_match_on(bb.hir["value"], "BinOp::", min_arms=4)
    if not bms:
        r.missing("operator match in TypeChecker::binop")
        return r
    want_bool = {"BinOp::And", "BinOp::Or", "BinOp::Lt", "BinOp::Le", "BinOp::Gt", "BinOp::Ge", "BinOp::Eq", "BinOp::Ne"}
    covered = set()
    for arm in bms[-1]["arms"]:
        alts = hir.pat_alternatives(arm["pat"])
        covered |= set(alts)
        key = "binop " + "|".join(a.split("::")[1] for a in alts)
        partners = [p.lower() for p in unify_partners(arm["body"])]
        # operands: self.expr(scope, &CTX, left/right): same context local for both
        ctxs = {}
        ctx_types = {}
        bld = hir.LocalDefs(bb.hir)
        epos = [i for i, p_ in enumerate(bb.hir["params"]) if "Meta<ast::Expr>" in (p_.get("ty") or "")]
        role = {epos[0]: "left", epos[1]: "right"} if len(epos) >= 2 else {}
        for c in hir.nodes(arm["body"], "mcall"):
            if c["m"] == "expr" and len(c["args"]) == 3:
                who = sorted(role.get(q, "param%d" % q) for q in hir.param_roots(bb.hir, bld, c["args"][2]) - {0})
                # the context an operand is checked against: identity of the local (or 'fresh:<line>' for a context built in place)
                cl = hir.res_local(hir.peel_refs(hir.strip(c["args"][1])))
                ctxs[tuple(who)] = ("local%s" % cl,) if cl is not None else tuple(sorted(str(hir.result_desc(c["args"][1]))[:60].split()))
                ctx_types[tuple(who)] = _ctx_type_root(bld, c["args"][1])
        r.inst(key, {"ops": alts, "unifies_expected_with": partners, "operand_contexts": {str(k): v for k, v in ctxs.items()}})
        if not reads_expected(arm["body"]):
            r.bad(bb.path, key, relfile(bb.file), arm["line"], "operator group %s never constrains the expected type" % alts)
        if set(alts) & want_bool and "bool" not in partners:
            r.bad(bb.path, key + " result", relfile(bb.file), arm["line"], "%s must produce bool; expected type is unified with %s" % (alts, partners))
        if ("left",) not in ctxs or ("right",) not in ctxs:
            r.bad(bb.path, key + " operands", relfile(bb.file), arm["line"], "operator group %s does not type-check both operands" % alts)
        elif ctxs[("left",)] != ctxs[("right",)] and not (ctx_types.get(("left",)) and ctx_types.get(("right",)) and (ctx_types[("left",)] & ctx_types[("right",)])):
            # (two contexts built separately from one and the same type value are the same expectation)
            r.bad(bb.path, key + " operands", relfile(bb.file), arm["line"], "left and right operand of %s are checked against different contexts %s / %s" % (alts, ctxs[("left",)], ctxs[("right",)]))
        # arithmetic / ordering require a numeric left operand
        if set(alts) & {"BinOp::Lt", "BinOp::Add", "BinOp::Mod"}:
            tests = {c["m"] for c in hir.nodes(arm["body"], "mcall") if c["m"] in ("is_numeric_type", "is_int_type")}
            need = "is_int_type" if "BinOp::Mod" in alts else "is_numeric_type"
            if need not in tests:
                r.bad(bb.path, key + " numeric", relfile(bb.file), arm["line"], "%s no longer requires %s of its operands" % (alts, need))
    badt = F.adt("ast::BinOp")
    for v in (badt["variants"] if badt else []):
        if "BinOp::" + v["name"] not in covered:
            r.bad(bb.path, "binop " + v["name"], relfile(bb.file), bb.line, "no operator group for BinOp::%s" % v["name"])
    return r


TR_TYPES = ("typechecker::error::TypeError", "TypeResult<")


def is_type_result(ty):
    return ty.startswith("std::result::Result<") and "typechecker::error::TypeError" in ty


BAD_CONSUMERS = ("std::result::Result::<T, E>::ok", "std::result::Result::<T, E>::is_ok", "std::result::Result::<T, E>::is_err",
                 "std::result::Result::<T, E>::unwrap_or", "std::result::Result::<T, E>::unwrap_or_default",
                 "std::result::Result::<T, E>::unwrap_or_else", "std::result::Result::<T, E>::err",
                 "std::option::Option::<T>::is_some", "std::option::Option::<T>::is_none", "std::option::Option::<T>::unwrap_or",
                 "std::option::Option::<T>::unwrap_or_default")
# reviewed: (function suffix, consumer) -> reason
E2_OK = {}


def local_reads(b, local):
    """How a local is consumed: list of descriptors."""
    out = []
    for bi, blk in enumerate(b.blocks):
        for s in blk["stmts"]:
            if s["k"] != "assign":
                continue
            rv = s["rv"]
            ops = []
            for k in ("o", "a", "b"):
                if k in rv:
                    ops.append(rv[k])
            ops += rv.get("ops", [])
            for o in ops:
                if mir.is_place_op(o) and o[1][0] == local:
                    out.append(("use", bi))
            if rv["k"] in ("ref", "discr", "rawptr") and rv["p"][0] == local:
                out.append((rv["k"], bi))
        t = blk["term"]
        if t["k"] == "call":
            for a in t["args"]:
                if mir.is_place_op(a) and a[1][0] == local:
                    out.append(("call:" + mir.callee_def(t), bi))
        elif t["k"] == "switch" and mir.is_place_op(t["o"]) and t["o"][1][0] == local:
            out.append(("switch", bi))
    return out


def rule_e2(F):
    r = RuleResult("C07.E2", "no type-checking result is dropped or converted into a non-error in typechecker::*", floor=150)
    for b in F.all_bodies():
        if not b.mir or not b.file.startswith("src/typechecker/") or "tests" in b.file:
            continue
        locs = b.mir["locals"]
        for bi, t in mir.calls(b):
            d = t["dest"]
            if len(d) != 1:
                continue
            ty = locs[d[0]]["ty"]
            name = mir.callee(t)
            is_tr = is_type_result(ty)
            is_unify_inner = name.endswith("::unify_inner") or name.endswith("::unify_fields")
            if not (is_tr or is_unify_inner):
                continue
            if d[0] == 0:
                r.inst("%s|%s|returned" % (b.path, hir.last(name)))
                continue
            reads = local_reads(b, d[0])
            key = "%s|%s" % (b.path, hir.last(name))
            r.inst(key + "|%d" % len(r.instances), {"fn": b.path, "call": hir.last(name), "line": t["line"], "consumed_by": sorted({x[0].split("::")[-1] for x in reads})})
            if not reads:
                r.bad(b.path, "%s result dropped" % hir.last(name), relfile(b.file), t["line"],
                      "the result of %s is discarded: a type error found here is ignored and compilation goes on" % hir.last(name))
                continue
            for kind, _ in reads:
                if kind.startswith("call:") and kind[5:] in BAD_CONSUMERS:
                    if any(b.path.endswith(k[0]) and k[1] == kind[5:] for k in E2_OK):
                        continue
                    r.bad(b.path, "%s result %s" % (hir.last(name), hir.last(kind)), relfile(b.file), t["line"],
                          "the result of %s is turned into a non-error with %s" % (hir.last(name), hir.last(kind)))
    return r


def rule_e3(F):
    r = RuleResult("C07.E3", "assignment targets must be local variables: both assignment arms inspect the value kind", floor=2)
    b = find_tc(F, "expr")
    if b is None:
        r.missing("TypeChecker::expr")
        return r
    ms = hir.find_match_on(b.hir["value"], "Expr::", min_arms=15)
    for arm in (ms[0]["arms"] if ms else []):
        kind = hir.pat_alternatives(arm["pat"])[0].split("(")[0]
        if kind not in ("Expr::Assign", "Expr::CompoundAssign"):
            continue
        ok = False
        # the test may be made by a helper of the type checker that hands back the target (`let target = self.assignment_target(..)?`)
        scopes = [arm["body"]]
        for c_ in list(hir.nodes(arm["body"], "mcall")) + list(hir.nodes(arm["body"], "call")):
            d_ = hir.call_def(c_) or ""
            hb_ = F.body(d_) if d_.startswith("typechecker::") and F.has(d_) else None
            if hb_ is not None and hb_.hir and hir.last(d_) not in ("expr", "resolve_expression_path", "block") and any(
                    (hir.res_def(n) or "").endswith("ValueKind::Local") for n in hir.walk(hb_.hir["value"]) if n.get("k") in ("path", "ppath")):
                scopes.append(hb_.hir["value"])
        for sc_ in scopes:
            for m in hir.nodes(sc_, "match"):
                # `Value(t) if t.kind == ValueKind::Local => Ok(t), _ => Err(..)`
                for a in m["arms"]:
                    g = a.get("guard")
                    if g is not None and any((hir.res_def(n) or "").endswith("ValueKind::Local") for n in hir.walk(g) if n.get("k") in ("path", "ppath")):
                        rest = [x for x in m["arms"] if x is not a]
                        if rest and all(hir.diverges(x["body"]) or "Err" in str(hir.result_desc(x["body"])) for x in rest):
                            ok = True
        # a comparison / pattern on `.kind` against ValueKind::Local whose failing side returns Err
        for iff in [i_ for sc_ in scopes for i_ in hir.nodes(sc_, "if")]:
            c = iff["cond"]
            kinds = [n for n in hir.nodes(c, "field") if n.get("n") == "kind"]
            mentions_local = any((hir.res_def(n) or "").endswith("ValueKind::Local") for n in hir.walk(c) if n.get("k") in ("path", "ppath"))
            if kinds and mentions_local:
                op = c.get("op")
                branch = iff["then"] if op == "!=" else iff.get("else")
                if op not in ("!=", "==") and c.get("k") != "bin":
                    branch = iff.get("else") or iff["then"]
                if branch is not None and hir.diverges(branch) and any("Err" in str(hir.result_desc(x.get("e"))) for x in hir.nodes(branch, "ret")):
                    ok = True
        for m in [x_ for sc_ in scopes for x_ in list(hir.nodes(sc_, "match")) + list(hir.nodes(sc_, "letstmt"))]:
            pats = [a["pat"] for a in m["arms"]] if m.get("k") == "match" else [m["pat"]]
            if any("ValueKind::Local" in hir.pat_desc(p) for p in pats):
                if m.get("k") == "letstmt" and m.get("els") and hir.diverges(m["els"]):
                    ok = True
                if m.get("k") == "match" and any(hir.diverges(a["body"]) for a in m["arms"]):
                    ok = True
        r.inst(kind, {"arm": kind, "rejects_non_local": ok})
        if not ok:
            r.bad(b.path, kind, relfile(b.file), arm["line"],
                  "%s accepts any value path as its target: `const A: i32 = 5; ... A = 6;` (or a context field) type-checks" % kind)
    return r


def rule_e4(F):
    r = RuleResult("C07.E4", "every TypeChecker::error_* diagnostic is still produced somewhere reachable from check_module_tree", floor=25)
    cg = CallGraph(F)
    roots = [p for p in F.paths() if p.endswith("::check_module_tree") or p.endswith("TypeChecker::check")]
    if not roots:
        r.missing("check_module_tree")
        return r
    seen, _ = cg.reachable(roots)
    errs = [p for p in F.paths() if "typechecker::error::" in p and hir.last(p).startswith("error_") and "{closure" not in p]
    for p in sorted(errs):
        r.inst(hir.last(p))
        if p not in seen:
            r.bad("typechecker::error", hir.last(p), "src/typechecker/error.rs", F.body(p).line if F.body(p) else 0,
                  "%s is never produced on the type-checking path any more: the rule it reports has been dropped" % hir.last(p))
    return r


def rule_e5(F):
    r = RuleResult("C07.E5", "rule-specific guards: argument count, match exhaustiveness / unreachable arm, record fields, negation, literal signedness", floor=6)
    # check_arguments: length comparison returning an error dominates the loop
    b = find_tc(F, "check_arguments")
    if b is None:
        r.missing("check_arguments")
    else:
        st = (b.hir["value"].get("stmts") or [])
        ok = False
        for i, s in enumerate(st):
            if s.get("k") == "if" or (s.get("k") == "semi" and s["e"].get("k") == "if"):
                iff = s if s.get("k") == "if" else s["e"]
                c = iff["cond"]
                lens = [n for n in hir.nodes(c, "mcall") if n["m"] == "len"]
                if c.get("k") == "bin" and c.get("op") == "!=" and len(lens) == 2 and hir.diverges(iff["then"]):
                    later = any(n.get("k") == "loop" for s2 in st[i + 1:] for n in hir.walk(s2))
                    ok = later
        r.inst("check_arguments length guard", {"ok": ok})
        if not ok:
            r.bad(b.path, "length guard", relfile(b.file), b.line, "argument and parameter counts are not compared before zipping them: extra or missing arguments are silently accepted")
    # match_expr: non-exhaustive and unreachable-arm errors are still reachable
    b = find_tc(F, "match_expr")
    if b is None:
        r.missing("match_expr")
    else:
        callees = mir.callee_names_deep(F, b)
        for need in ("error_nonexhaustive_match", "error_unreachable_expression", "error_variant_does_not_exist", "error_number_of_arguments_dont_match"):
            r.inst("match_expr " + need)
            if need not in callees:
                r.bad(b.path, need, relfile(b.file), b.line, "match_expr no longer reports %s" % need)
    # record_fields: mismatch error before the field loop
    b = find_tc(F, "record_fields")
    if b is None:
        r.missing("record_fields")
    else:
        callees = {hir.last(mir.callee(t)) for _, t in mir.calls(b)}
        r.inst("record_fields field mismatch")
        if "error_field_mismatch" not in callees:
            r.bad(b.path, "error_field_mismatch", relfile(b.file), b.line, "record_fields no longer rejects missing / duplicate / unknown fields")
        else:
            # all three sets are tested: the branches that decide whether error_field_mismatch is reached look at the emptiness of three
            # distinct collections, and those three are what the error is given (decided on MIR: however the condition is spelled)
            defs_ = mir.Defs(b)
            dom_ = mir.dominators(b)

            def base_(op):
                if not mir.is_place_op(op):
                    return None
                l = op[1][0]
                for _ in range(8):
                    ds = defs_.whole_defs(l)
                    if len(ds) == 1 and ds[0][2] == "assign" and ds[0][3]["rv"]["k"] in ("ref", "use"):
                        rv = ds[0][3]["rv"]
                        src = rv.get("p") or (rv["o"][1] if mir.is_place_op(rv.get("o")) else None)
                        if not src:
                            break
                        l = src[0]
                    elif len(ds) == 1 and ds[0][2] == "call" and hir.last(mir.callee_def(ds[0][3]) or "") in ("deref", "as_slice", "borrow") and ds[0][3]["args"] and mir.is_place_op(ds[0][3]["args"][0]):
                        l = ds[0][3]["args"][0][1][0]
                    else:
                        break
                return l
            ok_sets = False
            for cbi, ct in mir.calls(b):
                if hir.last(mir.callee(ct) or "") != "error_field_mismatch":
                    continue
                passed = {base_(a) for a in ct["args"][1:]} - {None}
                tested = set()
                for si, sblk in enumerate(b.blocks):
                    tt = sblk["term"]
                    if tt["k"] != "switch":
                        continue
                    # the switch matters for the error if one of its edges leads to the error on every path and another one does not
                    def must_(x):
                        if x == cbi:
                            return True
                        rs = mir.reachable_from(b, x, stop={cbi}) - {cbi}
                        return cbi in mir.reachable_from(b, x) and not any(b.blocks[y]["term"]["k"] == "return" for y in rs)
                    must = [must_(x) for x in mir.succs(sblk)]
                    if all(must) or not any(must):
                        continue
                    l = mir.op_local(tt["o"])
                    if l is None:
                        continue
                    for eb in mir.back_calls(b, defs_, l):
                        et = b.blocks[eb]["term"]
                        if hir.last(mir.callee_def(et) or "") in ("is_empty", "len") and et["args"]:
                            tested.add(base_(et["args"][0]))
                if len(tested & passed) >= 3:
                    ok_sets = True
                if not ok_sets:
                    # the condition may be folded into a flag (`let all_match = a.is_empty() && ..; if !all_match`): evaluate all
                    # eight combinations of the three emptiness tests path-sensitively - the error is reached iff one is non-empty
                    import itertools
                    atoms = [eb for eb, et in mir.calls(b) if hir.last(mir.callee_def(et) or "") == "is_empty" and et["args"] and base_(et["args"][0]) in passed]
                    by_coll = {}
                    for eb in atoms:
                        by_coll.setdefault(base_(b.blocks[eb]["term"]["args"][0]), []).append(eb)
                    if len(by_coll) >= 3:
                        colls = sorted(by_coll)[:3] if len(by_coll) == 3 else sorted(by_coll)
                        good = True
                        for combo in itertools.product([True, False], repeat=len(colls)):
                            av = {}
                            for cl, v in zip(colls, combo):
                                for eb in by_coll[cl]:
                                    av[("call", eb)] = v
                            reached = mir.bool_sim(b, av)
                            if (cbi in reached) != (not all(combo)):
                                good = False
                        ok_sets = good
            if not ok_sets:
                r.bad(b.path, "field sets", relfile(b.file), b.line, "record_fields does not test all of invalid / duplicate / missing fields")
    # Negate: rejects unsigned, marks MustBeSigned::Yes
    eb = find_tc(F, "expr")
    ms = hir.find_match_on(eb.hir["value"], "Expr::", min_arms=15) if eb else []
    for arm in (ms[0]["arms"] if ms else []):
        if hir.pat_alternatives(arm["pat"])[0].startswith("Expr::Negate"):
            txt = [hir.res_def(n) or "" for n in hir.walk(arm["body"]) if n.get("k") in ("path", "ppath", "pts")]
            uns = any(x.endswith("IntKind::Unsigned") for x in txt)
            # the rejection must depend on nothing but the unsigned test
            guard_ok = False
            for iff in hir.nodes(arm["body"], "if"):
                if hir.diverges(iff["then"]) and any("Err" in str(hir.result_desc(x.get("e"))) for x in hir.nodes(iff["then"], "ret")):
                    c = hir.strip(iff["cond"])
                    if c.get("k") == "path" and hir.res_local(c) is not None:
                        guard_ok = True
                    if c.get("k") == "match" or (c.get("mac") and "matches" in c.get("mac")):
                        guard_ok = True
            uns = uns and guard_ok
            yes = any(x.endswith("MustBeSigned::Yes") for x in txt)
            r.inst("negate", {"rejects_unsigned": uns, "marks_must_be_signed": yes})
            if not uns:
                r.bad(eb.path, "negate unsigned", relfile(eb.file), arm["line"], "negation no longer rejects unsigned integer types")
            if not yes:
                r.bad(eb.path, "negate literal", relfile(eb.file), arm["line"], "negating an integer literal no longer records that its type must be signed")
    # unify_inner (IntVar, Name): is_signed_int when MustBeSigned::Yes
    ub = find_tc(F, "unify_inner")
    if ub is None:
        r.missing("unify_inner")
    else:
        ok = False
        for m in hir.nodes(ub.hir["value"], "match"):
            for arm in m["arms"]:
                d = hir.pat_desc(arm["pat"])
                if "Type::IntVar" in d and "Type::Name" in d:
                    ms2 = {c["m"] for c in hir.nodes_deep(F, arm["body"], "mcall")}
                    txt = [hir.res_def(n) or "" for n in hir.walk_deep(F, arm["body"]) if n.get("k") == "path"] + \
                          [hir.res_def({"res": n.get("res") or {}}) or "" for n in hir.walk_deep(F, arm["body"]) if n.get("k") in ("ppath", "pts")]
                    ok = "is_signed_int" in ms2 and "is_int" in ms2 and any(x.endswith("MustBeSigned::Yes") for x in txt)
        r.inst("unify IntVar with Name", {"ok": ok})
        if not ok:
            r.bad(ub.path, "IntVar/Name", relfile(ub.file), ub.line, "unifying an integer literal with a named type no longer distinguishes is_signed_int / is_int by MustBeSigned")
    # unify_intvars: the surviving root keeps the stronger signedness requirement - decided by evaluating the function's decision
    # code for all four combinations of the two flags (the shape of the code does not matter)
    ib = find_tc(F, "unify_intvars")
    if ib is None:
        r.missing("unify_intvars")
    else:
        from .. import symex
        pty = [p.get("ty") or "" for p in ib.hir["params"]]
        vpos = [i for i, t in enumerate(pty) if t == "usize"]
        fpos = [i for i, t in enumerate(pty) if "MustBeSigned" in t]
        if len(vpos) != 2 or len(fpos) != 2:
            r.missing("two variable and two MustBeSigned parameters of unify_intvars")
        else:
            for fa in ("Yes", "No"):
                for fb in ("Yes", "No"):
                    key = "unify_intvars(%s, %s)" % (fa, fb)
                    try:
                        res, events = symex.run_function(ib.hir, {vpos[0]: symex.Sym("A"), fpos[0]: fa, vpos[1]: symex.Sym("B"), fpos[1]: fb})
                    except symex.Unknown as ex:
                        r.inst(key, {"evaluated": False, "why": str(ex)})
                        r.bad(ib.path, key + " not evaluable", relfile(ib.file), ib.line, "the decision code of unify_intvars uses a construct the table evaluator does not understand (%s): the root/flag table cannot be established" % ex)
                        continue
                    links = [e for e in events if e[0] == "mcall" and e[1] == "set" and len(e[3]) == 2]
                    want_flag = "Yes" if "Yes" in (fa, fb) else "No"
                    desc = {"links": [(str(e[3][0]), str(e[3][1])) for e in links], "result": str(res), "required_root_flag": want_flag}
                    r.inst(key, desc)
                    ok = len(links) == 1
                    if ok:
                        child, target = links[0][3]
                        own = {"A": fa, "B": fb}
                        # lookups follow the link and read the flag stored AT THE ROOT, so the root must be a variable whose own flag is the required one
                        ok = (isinstance(target, tuple) and target[:2] == ("ctor", "IntVar") and len(target) == 4
                              and {child, target[2]} == {"A", "B"} and child != target[2] and target[3] == want_flag
                              and own.get(target[2]) == want_flag and res == target)
                    if not ok:
                        r.bad(ib.path, key, relfile(ib.file), ib.line,
                              "for flags (%s, %s) unify_intvars links %s and returns %s; expected exactly one link child -> IntVar(root, %s) with the other variable as root and the same value returned: "
                              "the `must be signed` requirement of a negated literal is lost (or not recorded at the root) when two integer literals are merged" % (fa, fb, desc["links"], res, want_flag))
    return r


def rule_e6(F):
    """Two record types unify only if they have the same field set. unify_fields looks every field of `a` up in `b`;
    that alone accepts a ⊂ b, so a successful return must additionally be gated by something that relates the SIZE of
    both sides: a comparison with one operand computed from a's fields and the other from b's, or an emptiness test on
    a copy of b's fields from which the matched ones were removed."""
    from .c08 import deps
    r = RuleResult("C07.E6", "record unification: success is gated by a test relating the field counts of both records (a missing field is a type error)", floor=1)
    ps = [p for p in F.paths() if p.endswith("TypeChecker::unify_fields")]
    if not ps:
        r.missing("TypeChecker::unify_fields")
        return r
    b = F.body(ps[0])
    ls = b.mir["locals"]
    fld = [i for i in range(1, b.mir["argc"] + 1) if "Identifier" in ls[i]["ty"] and ls[i]["ty"].startswith("&[")]
    if len(fld) != 2:
        r.missing("two field-list parameters of unify_fields (found %d)" % len(fld))
        return r
    A, B = "arg%d" % fld[0], "arg%d" % fld[1]
    defs = mir.Defs(b)
    dom = mir.dominators(b)

    def D(op):
        if not mir.is_place_op(op):
            return set()
        l = op[1][0]
        if 1 <= l <= b.mir["argc"]:
            return {"arg%d" % l}
        return {x.split(".")[0] for x in deps(b, defs, l)}
    gates = []
    for bi, blk in enumerate(b.blocks):
        t = blk["term"]
        if t["k"] != "switch" or not mir.is_place_op(t["o"]):
            continue
        l = t["o"][1][0]
        for d in defs.whole_defs(l):
            if d[2] == "assign" and d[3]["rv"]["k"] == "bin" and d[3]["rv"]["op"] in ("Eq", "Ne", "Lt", "Le", "Gt", "Ge"):
                da, db = D(d[3]["rv"]["a"]), D(d[3]["rv"]["b"])
                if (A in da and B in db and not (B in da and A in db)) or (B in da and A in db and not (A in da and B in db)):
                    gates.append((bi, "comparison of a quantity of the first record with one of the second (line %d)" % t.get("line", 0)))
            if d[2] == "call" and hir.last(mir.callee_def(d[3])) in ("is_empty",) and d[3]["args"] and mir.is_place_op(d[3]["args"][0]):
                base = d[3]["args"][0]
                bd = D(base)
                # a shrinking copy of the other side: some remove/retain/swap_remove/pop/drain is applied to a value with the same dependence
                shr = [u for _, u in mir.calls(b) if hir.last(mir.callee_def(u)) in ("remove", "swap_remove", "retain", "pop", "drain") and u["args"]
                       and mir.is_place_op(u["args"][0]) and D(u["args"][0]) == bd]
                if shr and (A in bd) != (B in bd):
                    gates.append((bi, "emptiness test on the not-yet-matched fields (line %d)" % t.get("line", 0)))
    n = 0
    for bi, st in mir.agg_sites(b, "std::option::Option"):
        if st["rv"].get("variant") != "Some" or b.blocks[bi].get("cleanup") or st["p"] != [0]:
            continue
        n += 1
        ok = [w for g, w in gates if g in dom[bi]]
        r.inst("unify_fields Some #%d" % n, {"line": st["line"], "gated_by": ok})
        if not ok:
            r.bad(b.path, "Some #%d not gated by a size relation" % n, relfile(b.file), st["line"],
                  "unify_fields can succeed without any test that relates the number of fields of the two records: a record literal that lacks a field of the expected type type-checks (and the missing field is read uninitialised)")
    if n == 0:
        r.missing("Some(..) return in unify_fields")
    return r


def rule_e7(F):
    """Exhaustiveness of `match` is decided by comparing the NUMBER of covered variants with the number of variants, so the
    collection of covered variants must never hold a variant twice: every push into it is guarded by a negative `contains` test on
    the same collection (a repeated arm would otherwise stand in for a variant that has no arm)."""
    r = RuleResult("C07.E7", "match exhaustiveness: the covered-variants collection whose length is compared with the number of variants is kept duplicate-free", floor=1)
    ps = [p for p in F.paths() if p.endswith("TypeChecker>::match_expr") and "typechecker::expr" in p]
    if not ps:
        r.missing("TypeChecker::match_expr")
        return r
    b = F.body(ps[0])
    defs = mir.Defs(b)
    dom = mir.dominators(b)

    def base(op):
        """the user local behind a (reference to a) collection"""
        if not mir.is_place_op(op):
            return None
        l = op[1][0]
        for _ in range(8):
            ds = defs.whole_defs(l)
            if len(ds) == 1 and ds[0][2] == "assign" and ds[0][3]["rv"]["k"] in ("ref", "use"):
                rv = ds[0][3]["rv"]
                src = rv.get("p") or (rv["o"][1] if mir.is_place_op(rv.get("o")) else None)
                if not src:
                    break
                l = src[0]
            elif len(ds) == 1 and ds[0][2] == "call" and hir.last(mir.callee_def(ds[0][3])) in ("deref", "deref_mut", "as_slice", "borrow") and ds[0][3]["args"]:
                a0 = ds[0][3]["args"][0]
                if not mir.is_place_op(a0):
                    break
                l = a0[1][0]
            else:
                break
        return l
    # the collection: its len() is an operand of a comparison whose other operand is a len() too
    counted = set()
    for bi, blk in enumerate(b.blocks):
        for st in blk["stmts"]:
            if st["k"] == "assign" and st["rv"]["k"] == "bin" and st["rv"]["op"] in ("Lt", "Le", "Gt", "Ge", "Eq", "Ne"):
                sides = []
                for o in (st["rv"]["a"], st["rv"]["b"]):
                    if mir.is_place_op(o):
                        for d in defs.whole_defs(o[1][0]):
                            if d[2] == "call" and hir.last(mir.callee_def(d[3])) == "len" and d[3]["args"]:
                                sides.append(base(d[3]["args"][0]))
                if len(sides) == 2:
                    counted |= {x for x in sides if x is not None and "Vec<" in b.mir["locals"][x]["ty"]}
    pushes = [(bi, t) for bi, t in mir.calls(b) if hir.last(mir.callee_def(t)) == "push" and t["args"] and base(t["args"][0]) in counted]
    contains = []
    for bi, t in mir.calls(b):
        if hir.last(mir.callee_def(t)) == "contains" and t["args"] and base(t["args"][0]) in counted:
            contains.append((bi, t, base(t["args"][0])))
    if not pushes:
        r.missing("push into a collection whose length decides exhaustiveness (counted collections: %d)" % len(counted))
        return r
    for n, (pbi, pt) in enumerate(pushes):
        coll = base(pt["args"][0])
        guarded = False
        for cbi, ct, cl in contains:
            if cl != coll:
                continue
            # the result (possibly negated / stored) must be tested, and the push lie on the 'not contained' side only
            res = ct["dest"][0]
            for sbi, sblk in enumerate(b.blocks):
                tt = sblk["term"]
                if tt["k"] != "switch" or not mir.is_place_op(tt["o"]):
                    continue
                src = tt["o"][1][0]
                neg = False
                ok_src = src == res
                for d in defs.whole_defs(src):
                    if d[2] == "assign" and d[3]["rv"]["k"] == "un" and mir.is_place_op(d[3]["rv"].get("o") or d[3]["rv"].get("a")) :
                        o = d[3]["rv"].get("o") or d[3]["rv"].get("a")
                        if o[1][0] == res or any(dd[2] == "assign" and dd[3]["rv"]["k"] == "use" and mir.is_place_op(dd[3]["rv"]["o"]) and dd[3]["rv"]["o"][1][0] == res for dd in defs.whole_defs(o[1][0])):
                            ok_src, neg = True, True
                    if d[2] == "assign" and d[3]["rv"]["k"] == "use" and mir.is_place_op(d[3]["rv"]["o"]) and d[3]["rv"]["o"][1][0] == res:
                        ok_src = True
                if not ok_src:
                    continue
                zero = [x[1] for x in tt["targets"] if x[0] == 0]
                other = tt["otherwise"]
                not_contained = zero if not neg else [other]
                contained_side = [other] if not neg else zero
                if any(x == pbi or x in dom[pbi] for x in not_contained) and not any(x == pbi or x in dom[pbi] for x in contained_side):
                    guarded = True
        r.inst("push #%d into the counted collection" % n, {"line": pt["line"], "guarded_by_not_contains": guarded})
        if not guarded:
            r.bad(b.path, "unguarded push into the covered-variants collection", relfile(b.file), pt["line"],
                  "a variant is recorded as covered without checking that it is not recorded already, while exhaustiveness compares the LENGTH of that collection with the number of variants: "
                  "`match x { Some(v) => .., Some(w) => .. }` counts Some twice and is accepted although None has no arm")
    return r


def rule_e9(F):
    """A record literal that names a field twice is an error.  record_fields keeps a set of the names seen so far; a name is added
    to it only after the membership test on that same set said 'not seen yet' - whatever else the loop does with the name (the
    lookup in the expected fields succeeds for BOTH occurrences when the expected fields were derived from the literal itself)."""
    r = RuleResult("C07.E9", "record literals: a field name enters the set of seen names only behind a negative membership test on that set (duplicates are reported)", floor=1)
    ps = [p for p in F.paths() if p.endswith("TypeChecker>::record_fields") and "typechecker::expr" in p]
    if not ps:
        r.missing("TypeChecker::record_fields")
        return r
    b = F.body(ps[0])
    defs = mir.Defs(b)
    dom = mir.dominators(b)

    def base(op):
        if not mir.is_place_op(op):
            return None
        l = op[1][0]
        for _ in range(8):
            ds = defs.whole_defs(l)
            if len(ds) == 1 and ds[0][2] == "assign" and ds[0][3]["rv"]["k"] in ("ref", "use"):
                rv = ds[0][3]["rv"]
                src = rv.get("p") or (rv["o"][1] if mir.is_place_op(rv.get("o")) else None)
                if not src:
                    break
                l = src[0]
            else:
                break
        return l
    ins = [(bi, t, base(t["args"][0])) for bi, t in mir.calls(b) if "HashSet" in (mir.callee_def(t) or "") and hir.last(mir.callee_def(t)) == "insert" and t["args"]]
    con = [(bi, t, base(t["args"][0])) for bi, t in mir.calls(b) if "HashSet" in (mir.callee_def(t) or "") and hir.last(mir.callee_def(t)) == "contains" and t["args"]]
    if not ins:
        r.missing("the set of field names seen so far (HashSet::insert) in record_fields")
        return r
    for ibi, it, iset in ins:
        ok = any(cset == iset and cbi in dom[ibi] and mir.decided_by(b, defs, dom, cbi, ibi) for cbi, ct, cset in con)
        r.inst("insert into the seen-names set line %s" % it.get("line"), {"line": it.get("line"), "behind_membership_test": ok})
        if not ok:
            r.bad(b.path, "name recorded as seen without the duplicate test", relfile(b.file), it.get("line"),
                  "a field name is added to the set of seen names on a path that did not first test that set for the name: a second occurrence of the field is not reported as a duplicate "
                  "(`{ a: 1, a: 2 }` type-checks when the expected fields come from the literal itself, and later passes panic on the duplicated field)")
    return r


def rule_e8(F):
    """`!` is the type of expressions that do not produce a value. Such an expression may stand where any type is expected, but a
    value may not stand where `!` is expected: the unification row for Never must accept (expected x, actual Never) only. unify is
    called as unify(expected, actual) (rule E1's call table)."""
    r = RuleResult("C07.E8", "the Never row of unification is directional: a value is not accepted where `!` is expected", floor=1)
    ps = [p for p in F.paths() if p.endswith("TypeChecker::unify_inner")]
    if not ps:
        r.missing("TypeChecker::unify_inner")
        return r
    b = F.body(ps[0])
    n = 0
    for m in hir.nodes(b.hir["value"], "match"):
        for arm in m["arms"]:
            alts = hir.pat_alternatives(arm["pat"])
            if not any("Type::Never" in a for a in alts):
                continue
            res = hir.result_desc(arm["body"])
            for a in alts:
                mm = re.match(r"^\((.*),(.*)\)$", a)
                if not mm:
                    continue
                n += 1
                expected_never = "Type::Never" in mm.group(1) and "Type::Never" not in mm.group(2)
                accepts = not hir.diverges(arm["body"]) and "None" not in str(res)
                r.inst("unify row %s" % a, {"row": a, "result": str(res), "accepts": accepts})
                if expected_never and accepts:
                    r.bad(b.path, "row %s" % a, relfile(b.file), arm["line"],
                          "unification accepts any actual type where `!` is expected: `fn f() -> ! { 5 }` type-checks (and the lowering then panics with an internal compiler error instead of a report)")
    if n == 0:
        r.missing("Never row in unify_inner")
    return r


def rule_e10(F):
    """A constant defined in terms of itself is a type error - also when the cycle runs through functions: every member of a
    multi-item component of the reference graph is examined and ONE constant among them is enough to reject (shared with C14.D2)."""
    from . import c14
    r = c14.rule_d2(F)
    r.rule = "C07.E10"
    r.desc = "recursive constants are rejected: a cycle of the reference graph is an error as soon as any member is a constant"
    for v in r.violations:
        v.rule = "C07.E10"
    return r


def rule_e11(F):
    """An f-string interpolation of a type without `to_string` is a type error wherever it is written - also in a test block.  The
    deferred obligations of every item kind are resolved before the item is accepted (shared with C19.X6)."""
    from . import c19
    r = c19.rule_x6(F)
    r.rule = "C07.E11"
    for v in r.violations:
        v.rule = "C07.E11"
    return r


def rule_e12(F):
    """Pairing up the components of two types with `zip` silently stops at the shorter list, so it only proves 'the components that
    both have unify'.  For two records that is not unification (a missing or extra field is a type error): a zip over field lists
    must stand behind a comparison of the two lengths (as unify_fields does).  The two zips over plain type lists - arguments of one
    and the same named type, parameters of function types - are reviewed sites: their lengths are fixed by the declaration."""
    r = RuleResult("C07.E12", "unification pairs the components of two types only when their number is known to agree (zip behind a length comparison, or a reviewed fixed-arity site)", floor=2)
    ub = [b for b in F.all_bodies() if b.mir and b.path.startswith("typechecker::") and "{closure" not in b.path and hir.last(b.path) in ("unify_inner", "unify_fields", "unify")]
    if not any(hir.last(b.path) == "unify_inner" for b in ub):
        r.missing("typechecker::TypeChecker::unify_inner")
        return r
    # private helpers of the type checker that unify_inner calls belong to it
    seen = {b.path for b in ub}
    for b in list(ub):
        for _, t in mir.calls(b):
            c = mir.callee(t) or ""
            if c.startswith("typechecker::") and c not in seen and F.body(c) is not None and F.body(c).mir and "unify" in hir.last(c):
                seen.add(c)
                ub.append(F.body(c))
    for b in ub:
        dom = None
        defs = None
        for bi, t in mir.calls(b):
            if hir.last(mir.callee_def(t) or "") != "zip" or "Iterator" not in (mir.callee_def(t) or ""):
                continue
            ga = " ".join(t["f"].get("gargs") or [])
            plain = all(x.replace("&", "").replace("'_, ", "").strip() in ("std::slice::Iter<typechecker::types::Type>", "std::vec::Vec<typechecker::types::Type>", "[typechecker::types::Type]")
                        for x in (t["f"].get("gargs") or []))
            dom = dom or mir.dominators(b)
            defs = defs or mir.Defs(b)
            # a dominating branch on a comparison of two `len()` results
            guarded = False
            for x in dom[bi]:
                tt = b.blocks[x]["term"]
                if tt["k"] != "switch" or not mir.is_place_op(tt["o"]):
                    continue
                lens = [y for y in mir.back_calls(b, defs, tt["o"][1][0]) if hir.last(mir.callee_def(b.blocks[y]["term"]) or "") == "len"]
                if len(lens) >= 2:
                    guarded = True
            r.inst("%s zip #%d" % (hir.last(b.path), len(r.instances)), {"fn": b.path, "line": t.get("line"), "items": ga[:120], "behind_length_comparison": guarded, "plain_type_lists": plain})
            if not guarded and not plain:
                r.bad(b.path, "zip over component lists without a length comparison", relfile(b.file), t.get("line") or b.line,
                      "%s pairs the components of two types with zip (%s) without comparing how many there are: zip stops at the shorter list, so a record type whose fields are a "
                      "prefix of another's unifies with it - `fn f(x: {a: i32, b: i32})` accepts a `{a: i32}` and reads a field that is not there" % (hir.last(b.path), ga[:80]))
    return r


def rule_e13(F):
    """Typing rules that single out a built-in type (`?` needs a function returning Option, the verdict of a filtermap, the element
    type of a list ..) identify it by its RESOLVED name - scope and identifier.  A script may declare `enum Option[T]` or `record
    Option` of its own; a test on the bare identifier then treats that type as the built-in (a `?` in a function returning it
    compiles).  Crate-wide search (everything but the signature gate, which C04.G12 covers): no comparison looks at `.ident` of a
    resolved name alone."""
    from . import c04
    r = RuleResult("C07.E13", "typing rules identify built-in types by resolved name (scope + identifier), never by the bare identifier", floor=1)
    files = sorted({b.file for b in F.all_bodies() if b.file and "/src/" in "/" + b.file and not b.file.endswith("codegen/check.rs") and "tests" not in b.file})
    return c04._g12(F, r, files, consequence="is taken for the built-in by a typing rule: an ill-typed script (`?` in a function that does not return an optional value) compiles")


def rule_e14(F):
    """`return`, `accept` / `reject` and `?` are typed against the return type of the ENCLOSING ITEM - and a constant has none: its
    initializer is checked with `function_return_type: None`, which is what makes those expressions type errors there.  Sibling
    table of the four item checkers (function, filtermap, test: Some; constant: None), read off the `Context` each of them builds -
    also when the context comes from a shared helper (then the value the constant checker hands over must be None)."""
    r = RuleResult("C07.E14", "item contexts: a constant initializer is checked without a function return type (return / accept / reject / ? are errors there); functions, filtermaps and tests have one", floor=4)
    want = {"constant": "None", "function": "Some", "filter_map": "Some", "test": "Some"}
    for name, expect in want.items():
        ps = [p for p in F.paths() if p.startswith("typechecker::function::") and hir.last(p) == name and "{closure" not in p]
        if not ps:
            r.missing("typechecker::function TypeChecker::" + name)
            continue
        b = F.body(ps[0])
        found = []

        def classify(e):
            e = hir.strip(e)
            d = hir.result_desc(e)
            if e.get("k") == "path" and isinstance(d, str) and d.endswith("None"):
                return "None"
            if e.get("k") == "call" and hir.last(hir.call_def(e) or "") == "Some":
                return "Some"
            return None
        for st in hir.nodes(b.hir["value"], "struct"):
            if hir.last(hir.res_def({"res": st["path"]}) or "") != "Context":
                continue
            fd = dict((f[0], f[1]) for f in st["fields"])
            if "function_return_type" in fd:
                found.append(classify(fd["function_return_type"]) or "?")
        # a shared helper builds the context: which value does THIS checker make it use?
        for c in list(hir.nodes(b.hir["value"], "mcall")) + list(hir.nodes(b.hir["value"], "call")):
            d = hir.call_def(c) or ""
            hb = F.body(d) if d.startswith("typechecker::") and F.has(d) and hir.last(d) not in ("expr", "block", "unify") else None
            if hb is None or not hb.hir:
                continue
            pidx = hir.param_index(hb.hir)
            args = ([c["recv"]] if c.get("k") == "mcall" else []) + list(c["args"])
            for st in hir.nodes(hb.hir["value"], "struct"):
                if hir.last(hir.res_def({"res": st["path"]}) or "") != "Context":
                    continue
                fd = dict((f[0], f[1]) for f in st["fields"])
                if "function_return_type" not in fd:
                    continue
                v = classify(fd["function_return_type"])
                if v is None:
                    l = hir.res_local(hir.peel_refs(hir.strip(fd["function_return_type"])))
                    if l in pidx and pidx[l] < len(args):
                        v = classify(args[pidx[l]]) or "?"
                found.append(v or "?")
        if not found or any(x != expect for x in found):
            # the context may be assembled by a shared helper from closures / a private enum: evaluate the checker (vf/sx) and look at
            # the Context values that reach the body checkers
            try:
                from .. import sx
                opq = {p_ for p_ in F.paths() if p_.startswith("typechecker::") and not p_.startswith("typechecker::function::")}
                seen_ = []
                for res, evs in sx.Exec(F, opaque=opq, max_paths=2000).paths(b.hir, {}):
                    for e in evs:
                        for a in (e[3] if e[0] == "mcall" else e[2]):
                            for c in sx.find_ctors(a, "Context"):
                                v = sx.field_of(c, "function_return_type")
                                seen_.append("Some" if sx.is_ctor(v) and v[1] == "Some" else "None" if v == "None" else "?")
                if seen_ and "?" not in seen_:
                    found = sorted(set(seen_))
            except Exception:
                pass
        r.inst("item checker %s" % name, {"item": name, "function_return_type": found, "expected": expect})
        if not found or any(x != expect for x in found):
            r.bad(b.path, "context of %s" % name, relfile(b.file), b.line,
                  "the %s checker builds its Context with function_return_type %s (expected %s): %s" % (
                      name, found or "not found", expect,
                      "a constant initializer then accepts `return`, `accept` / `reject` and `?` as if it were a function body" if name == "constant" else
                      "return / accept / reject / ? in this item are no longer checked against its return type"))
    return r


def rule_e15(F):
    """`a && b` / `a || b` may skip `b`: whether the expression diverges is decided by the LEFT operand alone.  The checker reports
    divergence upwards, and a block that diverges is excused from producing its expected type - so if a `return` in the right
    operand counted, `fn f(c: bool) -> u32 { c && (return 1); }` would type-check although it falls off its end whenever `c` is
    false.  In the operator group of the short-circuit operators the result of checking the right operand is used for its error
    only (`?`), its value goes nowhere."""
    r = RuleResult("C07.E15", "short-circuit operators: the divergence of the right operand (which may be skipped) does not make the expression diverge", floor=1)
    bb = find_tc(F, "binop")
    if bb is None or not bb.hir:
        r.missing("TypeChecker::binop")
        return r
    bms = hir.find_match_on(bb.hir["value"], "BinOp::", min_arms=4)
    if not bms:
        r.missing("operator match in TypeChecker::binop")
        return r
    bld = hir.LocalDefs(bb.hir)
    epos = [i for i, p_ in enumerate(bb.hir["params"]) if "Meta<ast::Expr>" in (p_.get("ty") or "")]
    if len(epos) < 2:
        r.missing("the two operand parameters of TypeChecker::binop")
        return r
    right = epos[1]
    found = 0
    for arm in bms[-1]["arms"]:
        alts = set(hir.pat_alternatives(arm["pat"]))
        if not (alts & {"BinOp::And", "BinOp::Or"}):
            continue
        for n, anc in hir.walk_ctx(arm["body"]):
            if n.get("k") != "mcall" or n.get("m") != "expr" or len(n.get("args") or []) != 3:
                continue
            if right not in hir.param_roots(bb.hir, bld, n["args"][2]):
                continue
            found += 1
            # where does the value go?  upwards through the `?` desugaring only, into a statement whose value is dropped
            used = None
            child = n
            for a in reversed(anc):
                k = a.get("k")
                if k == "semi":
                    break
                if k == "match" and "TryDesugar" in str(a.get("src") or "") or (k == "match" and any(x is child for x in hir.walk(a["e"])) and len(a["arms"]) == 2
                                                                                   and any("residual" in hir.pat_desc(x["pat"]) or "Break" in hir.pat_desc(x["pat"]) for x in a["arms"])):
                    child = a
                    continue
                if k == "call" and any(x is child for x in hir.walk(a.get("args") or [])) and (hir.call_def(a) or "").endswith("::branch"):
                    child = a
                    continue
                if k in ("arm", None) or (k == "match" and not any(x is child for x in hir.walk(a["e"]))):
                    child = a
                    continue
                used = k
                break
            r.inst("right operand of %s" % "|".join(sorted(x.split("::")[1] for x in alts)), {"line": n.get("line"), "value_goes_to": used or "nowhere (statement)"})
            if used is not None:
                r.bad(bb.path, "divergence of the right operand of a short-circuit operator is used", relfile(bb.file), n.get("line") or bb.line,
                      "the result of checking the right operand of `&&` / `||` flows into a %s: a `return` / `accept` / `reject` there marks the whole expression as diverging although "
                      "the operand may be skipped - `fn f(c: bool) -> u32 { c && (return 1); }` is accepted and falls off its end" % used)
    if found == 0:
        r.missing("the check of the right operand in the And/Or group of TypeChecker::binop")
    return r


def rules(ctx):
    F = ctx["F"]
    return [rule_e1(F), rule_e2(F), rule_e3(F), rule_e4(F), rule_e5(F), rule_e6(F), rule_e7(F), rule_e8(F), rule_e9(F), rule_e10(F), rule_e11(F), rule_e12(F), rule_e13(F), rule_e14(F), rule_e15(F)]
