"""C03 - every host value a script owns is released exactly once on every path."""
from .. import mir, hir
from ..facts import relfile
from ..report import RuleResult
from .c08 import param_keys, events, deps

EXPLANATION = (
    "Balance of clones and drops in generated code over all scripts and paths is not decided. Decided is the lowerer's own frame "
    "discipline - path-structured Rust code that is what makes the generated drops balance: F1 on every CFG path of every Lowerer "
    "method pushes and pops of frames on `stack_slots` are balanced (frame-depth dataflow on MIR; the constant lowering is the one "
    "reviewed exception); F2 every popped frame is drained into emit_drop (or is the reviewed diverging-block / guard case); F3 code "
    "that is emitted once but executes once per iteration (everything between the loop header block and the back-edge jump) evaluates "
    "sub-expressions only inside a frame of its own, so per-iteration temporaries are dropped per iteration; F4 early exits drop every "
    "live frame: emit_return is called only from return_value / function_like / constant and return_value walks all frames in reverse; "
    "F5 assignment evaluates the new value before dropping the old one; F6 arguments moved from Rust into a call are forgotten on the "
    "Rust side in every RotoFunc::invoke."
)
EXPLANATION += (
    ' F1 uses bottom-up summaries of the net frame effect of callees (SCC order), so helpers that only pop or push count at their call sites. F7 who may drop: emit_drop is applied only to variables taken out of a frame (drains, return_value) or at the reviewed sites.'
)
EXPLANATION += (  # round-3 supplement
    ' F8 no new generated block is started while a frame of the same method already holds evaluated temporaries (emptying the frame with mem::take clears that). F9 the divergence accumulator of `match` is updated on every iteration path of the arm loop. F10 divergence is inherited only from sub-expressions that are always evaluated (not loop bodies, not the right operand of && / ||).'
)
EXPLANATION += (
    ' F11 at every descent into a user sub-expression (which may return early and then drops exactly the registered variables) no owned value is in limbo - stored in an unregistered temporary or already taken out of its frame for a call that is not emitted yet - and no registered aggregate is partly initialised (may-dataflow of limbo tokens per method, cleared at new_block; per-element closures analysed as loops; helpers summarised). F12 a lazily lowered operand (mir::Value) is stored before the next sub-expression is lowered (the call arguments it names are owned by nobody until then). F13 the loops with which the generated clone / drop / eq bodies walk the fields and variants of a type are only left when the iterator is exhausted. F14 (= C05.A7) values of registered types are not elided from the IR by their size alone (known finding: zero-sized registered types are, and are then leaked or dropped twice).'
)
ASSUMPTIONS = [
    "lir lowering turns every mir Drop into exactly one call of the type's drop function",
    "the balance of a particular script is not decided",
]

FRAME_TY = "std::vec::Vec<(mir::Var, mir::ty::TyRef)>"


def is_frame_op(t, which):
    d = mir.callee_def(t)
    g = t["f"].get("gargs") or []
    return d == "std::vec::Vec::<T, A>::" + which and g and g[0] == FRAME_TY


def lowerer_bodies(F):
    return [b for b in F.bodies_in(["src/mir/lower.rs", "src/mir/lower/match_expr.rs"]) if b.mir and "Lowerer" in b.path]


_SUMM = {}


def _by_ref(b):
    """Does the method work on the caller's lowerer (self by reference)? A method that consumes the lowerer
    (fn constant(mut self)) cannot change the frame stack of its caller."""
    ls = b.mir.get("locals") or []
    return len(ls) < 2 or ls[1].get("ty", "&").startswith("&")


def frame_summaries(F):
    """Net frame effect of every Lowerer method (set of depths at return relative to entry), callee effects applied;
    fixpoint from the optimistic assumption 'balanced'. A helper that only pops (or only pushes) a frame thus counts
    at its call sites."""
    key = id(F)
    if key in _SUMM:
        return _SUMM[key]
    bodies = lowerer_bodies(F)
    by = {b.path: b for b in bodies}
    summ = {b.path: {0} for b in bodies}
    edges = {b.path: sorted({mir.callee(t) for _, t in mir.calls(b) if mir.callee(t) in by and mir.callee(t) != b.path}) for b in bodies}
    # Tarjan SCCs; they come out callees-first
    index, low, onst, st, sccs = {}, {}, set(), [], []

    def strong(v):
        work = [(v, 0)]
        while work:
            v, i = work.pop()
            if i == 0:
                index[v] = low[v] = len(index)
                st.append(v)
                onst.add(v)
            rec = False
            for j in range(i, len(edges[v])):
                w = edges[v][j]
                if w not in index:
                    work.append((v, j + 1))
                    work.append((w, 0))
                    rec = True
                    break
                if w in onst:
                    low[v] = min(low[v], index[w])
            if rec:
                continue
            if low[v] == index[v]:
                comp = []
                while True:
                    w = st.pop()
                    onst.discard(w)
                    comp.append(w)
                    if w == v:
                        break
                sccs.append(comp)
            if work:
                u = work[-1][0]
                low[u] = min(low[u], low[v])

    for p in sorted(by):
        if p not in index:
            strong(p)

    def ret(p):
        _, rets = depth_analysis(by[p], summ)
        ds = set()
        for _bi, d in rets:
            ds |= d
        return ds or {0}

    for comp in sccs:
        if len(comp) == 1:
            summ[comp[0]] = ret(comp[0]) if _by_ref(by[comp[0]]) else {0}      # exact: all callees are final
            continue
        # mutually recursive methods: hypothesis 'balanced', verified by F1; only a consistent effect is adopted
        for _ in range(4):
            ch = False
            for p in sorted(comp):
                ds = ret(p)
                if len(ds) == 1 and ds != summ[p]:
                    summ[p] = ds
                    ch = True
            if not ch:
                break
    _SUMM.clear()
    _SUMM[key] = summ
    return summ


def depth_analysis(b, summ=None):
    """Forward dataflow of frame depth; returns (depth_in: dict bb->set of depths, returns: list of (bb, depths))."""
    din = {0: {0}}
    work = [0]
    steps = 0
    while work and steps < 5000:
        steps += 1
        bi = work.pop()
        blk = b.blocks[bi]
        t = blk["term"]
        cur = set(din[bi])
        if t["k"] == "call":
            if is_frame_op(t, "push"):
                cur = {d + 1 for d in cur}
            elif is_frame_op(t, "pop"):
                cur = {d - 1 for d in cur}
            elif summ is not None:
                e = summ.get(mir.callee(t))
                if e and e != {0} and mir.callee(t) != b.path:
                    cur = {d + x for d in cur for x in e}
        cur = {d for d in cur if -4 <= d <= 6}
        for s in mir.succs(blk):
            old = din.get(s, set())
            new = old | cur
            if new != old:
                din[s] = new
                work.append(s)
    rets = []
    for bi, blk in enumerate(b.blocks):
        if blk["term"]["k"] == "return" and bi in din:
            rets.append((bi, din[bi]))
    return din, rets


F1_EXCEPT = {"mir::lower::Lowerer::<'r>::constant": 1}


def rule_f1(F):
    r = RuleResult("C03.F1", "frame pushes and pops on stack_slots are balanced on every path of every lowering method", floor=4)
    summ = frame_summaries(F)
    bodies = lowerer_bodies(F)
    info = {}
    for b in bodies:
        npush = sum(1 for _, t in mir.calls(b) if is_frame_op(t, "push"))
        npop = sum(1 for _, t in mir.calls(b) if is_frame_op(t, "pop"))
        eff = [mir.callee(t) for _, t in mir.calls(b) if summ.get(mir.callee(t), {0}) != {0} and mir.callee(t) != b.path]
        if npush == 0 and npop == 0 and not eff:
            continue
        din, rets = depth_analysis(b, summ)
        info[b.path] = (b, npush, npop, eff, din, rets)
    # a pure frame helper: only pops or only pushes (directly), consistent net effect; acceptable iff every caller balances with it
    helpers = {}
    for p, (b, npush, npop, eff, din, rets) in info.items():
        ds = {d for _, x in rets for d in x}
        if len(ds) == 1 and ds != {0} and p not in F1_EXCEPT and _by_ref(b) and (npush == 0 or npop == 0) and not eff:
            helpers[p] = next(iter(ds))
    bad = set()
    for p, (b, npush, npop, eff, din, rets) in info.items():
        if p in helpers:
            continue
        want = F1_EXCEPT.get(p, 0)
        if any(ds != {want} for _bi, ds in rets):
            bad.add(p)
    for p, (b, npush, npop, eff, din, rets) in info.items():
        want = helpers.get(p, F1_EXCEPT.get(p, 0))
        r.inst(p, {"fn": p, "frame_pushes": npush, "frame_pops": npop, "callees_with_frame_effect": sorted(set(eff)),
                   "depth_at_return": sorted({d for _, ds in rets for d in ds}), "expected": want, "frame_helper": p in helpers})
        if p in helpers:
            callers = [q for q, inf in info.items() if p in inf[3]]
            if not callers or any(q in bad for q in callers):
                r.bad(p, "frame balance", relfile(b.file), b.line,
                      "the method returns with frame depth %+d and %s: a frame is leaked (its variables are never dropped) or a foreign frame is popped"
                      % (helpers[p], "caller %s does not compensate" % sorted(q for q in callers if q in bad)[0] if callers else "has no caller that compensates"))
            continue
        if p in bad:
            ds = sorted({d for _, x in rets for d in x})
            r.bad(p, "frame balance", relfile(b.file), b.line,
                  "on some path the method returns with frame depth %s (expected %d)%s: a frame is leaked (its variables are never dropped) or a foreign frame is popped"
                  % (ds, want, (" (callees with a frame effect: %s)" % ", ".join(sorted(set(hir.last(e) for e in eff)))) if eff else ""))
        # never pop below entry depth
        if any(d < 0 for ds in din.values() for d in ds):
            r.bad(p, "frame underflow", relfile(b.file), b.line, "a frame is popped that this method did not push")
    return r


_DRAIN = {}


def drainers(F):
    """Lowerer methods that pass the elements of a frame-typed parameter to emit_drop: {path: set of argument positions}."""
    key = id(F)
    if key in _DRAIN:
        return _DRAIN[key]
    out = {}
    for b in lowerer_bodies(F):
        ls = b.mir["locals"]
        cand = [i for i in range(2, b.mir["argc"] + 1) if ls[i]["ty"] == FRAME_TY]
        if not cand:
            continue
        defs = mir.Defs(b)
        drops = [bi for bi, t in mir.calls(b) if hir.last(mir.callee(t)) == "emit_drop"]
        for bi, t in mir.calls(b):
            if hir.last(mir.callee_def(t)) != "into_iter" or not t["args"] or not mir.is_place_op(t["args"][0]):
                continue
            k = mir.origin_key(b, defs, t["args"][0][1])
            reach = mir.reachable_from(b, bi)
            for i in cand:
                if k == "arg%d" % i and any(d in reach for d in drops):
                    out.setdefault(b.path, set()).add(i - 1)
    _DRAIN.clear()
    _DRAIN[key] = out
    return out


def rule_f2(F):
    r = RuleResult("C03.F2", "every popped frame is drained into emit_drop", floor=4)
    dr = drainers(F)
    summ = frame_summaries(F)
    for b in lowerer_bodies(F):
        # a call of a helper that pops a frame (net effect -1) is a pop site of this method too; the helper itself is checked where it is defined
        for bi, t in mir.calls(b):
            if summ.get(mir.callee(t)) == {-1} and mir.callee(t) != b.path:
                r.inst("%s pops through %s #%d" % (b.path, hir.last(mir.callee(t)), bi), {"fn": b.path, "line": t["line"], "helper": mir.callee(t)})
        pops = [(bi, t) for bi, t in mir.calls(b) if is_frame_op(t, "pop")
                or (mir.callee_def(t) == "std::mem::take" and (t["f"].get("gargs") or [None])[0] == FRAME_TY)]
        if not pops:
            continue
        defs = mir.Defs(b)
        drops = [(bi, t) for bi, t in mir.calls(b) if hir.last(mir.callee(t)) == "emit_drop"]
        iters = [(bi, t) for bi, t in mir.calls(b) if hir.last(mir.callee_def(t)) == "into_iter"]
        for (pbi, pt) in pops:
            # the frame (after unwrap) must reach an into_iter whose loop body calls emit_drop
            drained = False
            for (ibi, it) in iters:
                a0 = it["args"][0]
                if not mir.is_place_op(a0):
                    continue
                ch = mir.value_chain(b, defs, a0[1][0])
                d = deps_chain_has(b, defs, a0[1][0], pbi)
                if not (any(c[0] == pbi for c in ch) or d):
                    continue
                reach = mir.reachable_from(b, ibi)
                if any(dbi in reach for dbi, _ in drops):
                    drained = True
            # ... or be handed to a helper that does so
            for cbi, ct in mir.calls(b):
                pos = dr.get(mir.callee(ct))
                if not pos:
                    continue
                for k in pos:
                    a = ct["args"][k] if k < len(ct["args"]) else None
                    if mir.is_place_op(a) and (any(c[0] == pbi for c in mir.value_chain(b, defs, a[1][0])) or deps_chain_has(b, defs, a[1][0], pbi)):
                        drained = True
            key = "%s pop#%d" % (b.path, pops.index((pbi, pt)))
            r.inst(key, {"fn": b.path, "line": pt["line"], "drained": drained})
            if not drained:
                r.bad(b.path, "pop#%d not drained" % pops.index((pbi, pt)), relfile(b.file), pt["line"],
                      "a frame is popped and its variables are never passed to emit_drop: every value owned by that frame leaks")
    return r


def deps_chain_has(b, defs, local, call_bb, depth=0, seen=None):
    """Does `local` derive (through uses/unwrap) from the result of the call in block call_bb?"""
    if seen is None:
        seen = set()
    if local in seen or depth > 10:
        return False
    seen.add(local)
    for d in defs.defs.get(local, []):
        if d[2] == "call":
            if d[0] == call_bb:
                return True
            for a in d[3]["args"][:1]:
                if mir.is_place_op(a) and deps_chain_has(b, defs, a[1][0], call_bb, depth + 1, seen):
                    return True
        elif d[2] == "assign":
            rv = d[3]["rv"]
            for k in ("o",):
                if k in rv and mir.is_place_op(rv[k]) and deps_chain_has(b, defs, rv[k][1][0], call_bb, depth + 1, seen):
                    return True
    return False


VISIT = {"expr", "stmt"}


def rule_f3(F):
    r = RuleResult("C03.F3", "code emitted into a conditionally or repeatedly executed block visits sub-expressions only inside a frame of its own", floor=2)
    regions = 0
    bodies = lowerer_bodies(F)
    by_path = {b.path: b for b in bodies}
    helpers_done = set()

    def check_visit(b, bi, defs, dom_, din, pk, via=None):
        t = b.blocks[bi]["term"]
        d = din.get(bi, {0})
        arg = t["args"][1] if len(t["args"]) > 1 else None
        what = mir.origin_key(b, defs, arg[1]) if mir.is_place_op(arg) else "?"
        pname = pk.get(what.split(".")[0], None)
        fields = [x for x in what.split(".") if x and not x.startswith("call:") and not x.startswith("as:") and not x.isdigit() and not x.startswith("arg") and not x.startswith("local")]
        label = pname or (fields[-1] if fields else "sub-expression")
        key = "%s visit(%s)" % (hir.last(b.path), label)
        r.inst(key + " #%d" % len(r.instances), {"fn": b.path, "line": t["line"], "visit": hir.last(mir.callee(t)), "of": label, "frame_depth_relative_to_entry": sorted(d),
                                                  "called_after_new_block_in": via})
        shared = None
        if min(d) >= 1:
            # the frame must be the visit's OWN: opened for it, nothing else registered in it before the visit (a frame that
            # also holds pattern bindings is 'forgotten', not drained, on the path that enters the arm)
            doms_ = sorted(dom_[bi], key=lambda x: -len(dom_[x]))  # nearest dominators first
            pops_ = 0
            own_push = None
            for x in doms_:
                if x == bi:
                    continue
                tx = b.blocks[x]["term"]
                if tx["k"] != "call":
                    continue
                if is_frame_op(tx, "pop") or (mir.callee_def(tx) == "std::mem::take" and (tx["f"].get("gargs") or [None])[0] == FRAME_TY):
                    pops_ += 1
                elif is_frame_op(tx, "push"):
                    if pops_ == 0:
                        own_push = x
                        break
                    pops_ -= 1
            if own_push is not None:
                # blocks on a path from the push to this visit that does not run through the push (or the visit) again
                fwd = mir.reachable_from(b, own_push, stop={bi}) - {own_push}
                between = {x for x in fwd if bi in mir.reachable_from(b, x, stop={own_push})}
                regs_ = [x for x in between if x != bi and b.blocks[x]["term"]["k"] == "call"
                         and hir.last(mir.callee(b.blocks[x]["term"]) or "") in ("add_live_variable", "tmp", "assign_to_var")]
                if regs_:
                    shared = b.blocks[regs_[0]]["term"].get("line")
        if shared is not None:
            r.bad(b.path, "%s(%s) in a frame shared with other variables" % (hir.last(mir.callee(t)), label), relfile(b.file), t["line"],
                  "`%s` is lowered into the frame that already holds other variables (registered at line %s) instead of a frame of its own: its temporaries are dropped - or forgotten - "
                  "together with them, not when `%s` has been evaluated (a match guard that holds: the arm is entered with the guard's temporaries forgotten)" % (label, shared, label))
        if min(d) < 1:
            r.bad(b.path, "%s(%s) after new_block without own frame" % (hir.last(mir.callee(t)), label), relfile(b.file), t["line"],
                  "`%s` is lowered into a block that runs conditionally or once per iteration, but its temporaries are registered in the enclosing frame: "
                  "they are dropped on paths that never created them, or only once for many iterations (`while mk(i) != mk(n)`, a guarded match arm that is not taken)" % label)

    def is_visit(t):
        return t["k"] == "call" and hir.last(mir.callee(t)) in VISIT and (mir.callee(t) or "").startswith("mir::lower::")

    for b in bodies:
        nbs = [bi for bi, t in mir.calls(b) if hir.last(mir.callee(t)) == "new_block"]
        if not nbs:
            continue
        defs = mir.Defs(b)
        dom_ = mir.dominators(b)
        din, _ = depth_analysis(b, frame_summaries(F))
        after = set()
        for nb in nbs:
            after |= (mir.reachable_from(b, nb) - {nb})
        pk = {v: k for k, v in param_keys(b).items()}
        for bi in sorted(after):
            t = b.blocks[bi]["term"]
            if is_visit(t):
                regions += 1
                check_visit(b, bi, defs, dom_, din, pk)
                continue
            # a helper of the lowerer that is handed the sub-expression and visits it itself (`self.scoped_condition(r, &tmp)`): the
            # helper's visits of what it was handed are visits in this conditionally executed block
            w = by_path.get(mir.callee(t) or "") if t["k"] == "call" else None
            if w is None or hir.last(w.path) in VISIT or w.path == b.path or w.path in helpers_done:
                continue
            if not any("ast::Expr" in str(l_.get("ty") or "") for l_ in w.mir["locals"][1:1 + w.mir.get("argc", 0)]):
                continue
            if any(hir.last(mir.callee(t2)) == "new_block" for _, t2 in mir.calls(w)):
                continue    # it opens blocks of its own: examined as a body in its own right
            wdefs = mir.Defs(w)
            wpk = {v: k for k, v in param_keys(w).items()}
            wvis = []
            for wi, wt in mir.calls(w):
                if not is_visit(wt) or len(wt["args"]) < 2 or not mir.is_place_op(wt["args"][1]):
                    continue
                if wpk.get(mir.origin_key(w, wdefs, wt["args"][1][1]).split(".")[0]) is None:
                    continue
                wvis.append(wi)
            if not wvis:
                continue
            helpers_done.add(w.path)
            wdom = mir.dominators(w)
            wdin, _ = depth_analysis(w, frame_summaries(F))
            for wi in wvis:
                regions += 1
                check_visit(w, wi, wdefs, wdom, wdin, wpk, via=hir.last(b.path))
    r.note("visits located after a new_block: %d" % regions)
    return r


def rule_f4(F):
    r = RuleResult("C03.F4", "early exits drop every live frame: emit_return only via return_value / function_like / constant; return_value walks all frames", floor=4)
    allowed = {"return_value", "function_like", "constant"}
    for b in lowerer_bodies(F):
        for bi, t in mir.calls(b):
            if hir.last(mir.callee(t)) == "emit_return":
                r.inst("emit_return in " + hir.last(b.path))
                if hir.last(b.path) not in allowed:
                    r.bad(b.path, "emit_return", relfile(b.file), t["line"], "emit_return is called directly from %s: the live frames are not dropped before the function returns" % hir.last(b.path))
    rv = F.body("mir::lower::Lowerer::<'r>::return_value")
    if rv is None:
        r.missing("Lowerer::return_value")
        return r
    defs = mir.Defs(rv)
    dom = mir.dominators(rv)
    ret = [bi for bi, t in mir.calls(rv) if hir.last(mir.callee(t)) == "emit_return"]
    drops = [bi for bi, t in mir.calls(rv) if hir.last(mir.callee(t)) == "emit_drop" or drainers(F).get(mir.callee(t))]
    revs = [bi for bi, t in mir.calls(rv) if hir.last(mir.callee_def(t)) == "rev"]
    # .. or in the helper that drains one frame
    for _, t in mir.calls(rv):
        if drainers(F).get(mir.callee(t)):
            hb = F.body(mir.callee(t))
            if hb is not None and hb.mir:
                revs += [bi for bi, t2 in mir.calls(hb) if hir.last(mir.callee_def(t2)) == "rev"]
    # the walk over the variables of one frame may be written in a closure handed to an adaptor (`flat_map(|frame| frame.iter().rev())`)
    for cb in F.all_bodies():
        if cb.path.startswith(rv.path + "::{closure") and cb.mir:
            revs += [bi for bi, t in mir.calls(cb) if hir.last(mir.callee_def(t)) == "rev"]
    # the outer loop iterates over self.stack_slots (cloned)
    over_frames = False
    for bi, t in mir.calls(rv):
        if hir.last(mir.callee_def(t)) in ("iter", "into_iter", "clone"):
            a0 = t["args"][0]
            if mir.is_place_op(a0) and "stack_slots" in mir.origin_key(rv, defs, a0[1]):
                over_frames = True
    r.inst("return_value", {"emit_return_sites": len(ret), "emit_drop_sites": len(drops), "reverse_iterations": len(revs), "iterates_stack_slots": over_frames})
    if not ret or not drops or not over_frames:
        r.bad(rv.path, "drain all frames", relfile(rv.file), rv.line, "return_value no longer drops the variables of every live frame before emit_return")
    elif len(revs) < 2:
        r.bad(rv.path, "drop order", relfile(rv.file), rv.line, "return_value must walk frames and variables in reverse (innermost first)")
    else:
        # emit_return is reached only after the loop: the loop header (first next) dominates emit_return
        nexts = [bi for bi, t in mir.calls(rv) if hir.last(mir.callee_def(t)) == "next"]
        if not any(n in dom[ret[0]] for n in nexts):
            r.bad(rv.path, "order", relfile(rv.file), rv.line, "emit_return is not preceded by the frame-draining loop")
    # question_mark and return reach emit_return only through return_value
    for fn in ("question_mark", "r#return"):
        b = F.body("mir::lower::Lowerer::<'r>::" + fn)
        if b is None:
            r.missing("Lowerer::" + fn)
            continue
        calls = {hir.last(mir.callee(t)) for _, t in mir.calls(b)}
        r.inst(fn + " uses return_value")
        if "return_value" not in calls:
            r.bad(b.path, "return_value", relfile(b.file), b.line, "%s no longer leaves the function through return_value" % fn)
    return r


def rule_f5(F):
    r = RuleResult("C03.F5", "assignment: new value evaluated and stored in a temporary before the old value is dropped, then moved in", floor=1)
    b = F.body("mir::lower::Lowerer::<'r>::assign")
    if b is None:
        r.missing("Lowerer::assign")
        return r
    defs = mir.Defs(b)
    dom = mir.dominators(b)
    pk = param_keys(b)
    from .c08 import select_param
    ex = events(b, defs, "expr", select_param(b, "E0"))
    dr = [bi for bi, t in mir.calls(b) if hir.last(mir.callee(t)) == "emit_drop"]
    da = [bi for bi, t in mir.calls(b) if hir.last(mir.callee(t)) == "do_assign"]
    r.inst("assign chain", {"expr": ex, "emit_drop": dr, "do_assign": da})
    ok = bool(ex and dr and len(da) >= 2)
    if ok:
        ok = ex[0] in dom[dr[0]] and any(x in dom[dr[0]] for x in da) and any(dr[0] in dom[x] for x in da)
    if not ok:
        r.bad(b.path, "order", relfile(b.file), b.line, "assign must evaluate the right-hand side into a temporary, then drop the old value, then move the temporary in")
    return r


def rule_f6(F):
    r = RuleResult("C03.F6", "values handed to a Roto function are forgotten on the Rust side (the callee drops them)", floor=8)
    imps = [p for p in F.paths() if p.endswith("as codegen::check::RotoFunc>::invoke")]
    for p in imps:
        b = F.body(p)
        dom = mir.dominators(b)
        forgets = [bi for bi, t in mir.calls(b) if mir.callee_def(t) == "std::mem::forget"]
        inds = [bi for bi, t in mir.calls(b) if "ind" in t["f"]]
        r.inst(p, {"impl": p, "forget_sites": len(forgets), "indirect_calls": len(inds)})
        if not forgets:
            r.bad(p, "forget", relfile(b.file), b.line, "the transformed arguments are not forgotten: they would be dropped by Rust and by the script (double drop)")
            continue
        for ib in inds:
            if not any(f in dom[ib] for f in forgets):
                r.bad(p, "forget before call", relfile(b.file), b.line, "the script is called on a path on which the arguments have not been forgotten")
    if len(imps) < 8:
        r.missing("8 RotoFunc::invoke bodies (found %d)" % len(imps))
    return r


F7_REVIEWED = {
    "assign": "drops the old value of the assignment target, which stays registered in its frame and is re-initialised right after",
    "drop_var": "removes the variable from its frame (remove_live_variable) before dropping it",
}


def rule_f7(F):
    r = RuleResult("C03.F7", "who may drop: emit_drop is only applied to variables taken out of a frame (drains, return_value) or in the reviewed sites", floor=5)
    dr = drainers(F)
    # a helper that drains its parameter may only be given frames (results of pop / take on stack_slots)
    for b in lowerer_bodies(F):
        defs0 = None
        for cbi, ct in mir.calls(b):
            pos = dr.get(mir.callee(ct))
            if not pos:
                continue
            defs0 = defs0 or mir.Defs(b)
            for k in pos:
                a = ct["args"][k] if k < len(ct["args"]) else None
                ok = False
                if mir.is_place_op(a):
                    for pb_, pt_ in mir.calls(b):
                        if (is_frame_op(pt_, "pop") or (mir.callee_def(pt_) == "std::mem::take" and (pt_["f"].get("gargs") or [None])[0] == FRAME_TY)) \
                                and (any(c[0] == pb_ for c in mir.value_chain(b, defs0, a[1][0])) or deps_chain_has(b, defs0, a[1][0], pb_)):
                            ok = True
                    # the frames of the whole stack, walked in place (return_value: everything live is dropped, nothing is popped)
                    for c in mir.value_chain(b, defs0, a[1][0]):
                        t2 = b.blocks[c[0]]["term"]
                        for a2 in t2["args"][:1]:
                            if mir.is_place_op(a2) and "stack_slots" in mir.origin_key(b, defs0, a2[1]):
                                ok = True
                r.inst("%s hands a frame to %s #%d" % (hir.last(b.path), hir.last(mir.callee(ct)), cbi), {"fn": b.path, "line": ct["line"], "argument_is_a_popped_frame": ok})
                if not ok:
                    r.bad(b.path, "%s given something that is not a frame" % hir.last(mir.callee(ct)), relfile(b.file), ct["line"],
                          "%s drops every variable it is given; here it receives a list that was not taken out of the frame stack: those variables are dropped by hand while still (or never) registered in a frame" % hir.last(mir.callee(ct)))
    for b in lowerer_bodies(F):
        drops = [(bi, t) for bi, t in mir.calls(b) if hir.last(mir.callee(t)) == "emit_drop" and mir.callee(t).startswith("mir::lower::")]
        if not drops:
            continue
        defs = mir.Defs(b)
        for (bi, t) in drops:
            a = t["args"][1] if len(t["args"]) > 1 else None
            from_frame = False
            if mir.is_place_op(a):
                seen = set()
                work = [a[1][0]]
                while work and not from_frame:
                    l = work.pop()
                    if l in seen:
                        continue
                    seen.add(l)
                    for d in defs.defs.get(l, []):
                        if d[2] == "call":
                            nm = hir.last(mir.callee_def(d[3]))
                            if nm == "next":
                                it = d[3]["args"][0]
                                ch = mir.value_chain(b, defs, it[1][0]) if mir.is_place_op(it) else []
                                # the elements of a frame-typed parameter of a draining helper (its callers are checked above)
                                for c in ch:
                                    t2 = b.blocks[c[0]]["term"]
                                    for a2 in t2["args"][:1]:
                                        if mir.is_place_op(a2) and mir.origin_key(b, defs, a2[1]) in {"arg%d" % (k + 1) for k in dr.get(b.path, ())}:
                                            from_frame = True
                                srcs = []
                                for c in ch:
                                    t2 = b.blocks[c[0]]["term"]
                                    for a2 in t2["args"][:1]:
                                        if mir.is_place_op(a2):
                                            srcs.append(mir.origin_key(b, defs, a2[1]))
                                    if is_frame_op(t2, "pop"):
                                        from_frame = True
                                if any("stack_slots" in x for x in srcs):
                                    from_frame = True
                                # iterating a local that holds a popped frame
                                for c in ch:
                                    t2 = b.blocks[c[0]]["term"]
                                    for a2 in t2["args"][:1]:
                                        if mir.is_place_op(a2):
                                            for pb_, pt_ in mir.calls(b):
                                                if is_frame_op(pt_, "pop") and deps_chain_has(b, defs, a2[1][0], pb_):
                                                    from_frame = True
                            for a2 in d[3]["args"]:
                                if mir.is_place_op(a2):
                                    work.append(a2[1][0])
                        elif d[2] == "assign":
                            rv = d[3]["rv"]
                            for k in ("o",):
                                if k in rv and mir.is_place_op(rv[k]):
                                    work.append(rv[k][1][0])
                            for o in rv.get("ops", []):
                                if mir.is_place_op(o):
                                    work.append(o[1][0])
                            if "p" in rv:
                                work.append(rv["p"][0])
            fn = hir.last(b.path)
            key = "%s emit_drop #%d" % (fn, [x[0] for x in drops].index(bi))
            r.inst(key, {"fn": b.path, "line": t["line"], "variable_comes_from_a_frame": from_frame, "reviewed": F7_REVIEWED.get(fn)})
            if from_frame or fn in F7_REVIEWED:
                continue
            r.bad(b.path, "manual drop #%d" % [x[0] for x in drops].index(bi), relfile(b.file), t["line"],
                  "a variable is dropped by hand without ever being registered in a frame: early exits (return / accept / reject / ? inside the region) only release what is in the frames, so its value leaks on those paths")
    return r


F8_NEUTRAL = {"new_block", "current_label", "undropped_tmp", "new_tmp", "add_live_variable", "remove_live_variable"}


def rule_f8(F):
    """A frame is dropped where it was filled: once sub-expressions have been evaluated inside a frame of the method,
    the method does not start another generated block before that frame is popped (otherwise the drops land in a
    block that only some paths execute, and the paths that skip it leak the frame - e.g. one frame around both
    operands of `&&`)."""
    r = RuleResult("C03.F8", "no new generated block is started while a frame of the same method already holds evaluated temporaries", floor=1)
    summ = frame_summaries(F)
    by = {b.path for b in lowerer_bodies(F)}
    # what can leave evaluated temporaries in the open frame: lowering a sub-expression (visitors), or making a registered temporary
    # (`tmp`, directly or through helpers).  A helper that only computes something (a Var, a label, a type) does not touch the frame.
    fills = set(visitors(F))
    edges_ = {bb.path: {mir.callee(t) or "" for _, t in mir.calls(bb)} for bb in lowerer_bodies(F)}
    fills |= {p_ for p_ in by if hir.last(p_) == "tmp"}
    grow = True
    while grow:
        grow = False
        for p_, out_ in edges_.items():
            if p_ not in fills and out_ & fills:
                fills.add(p_)
                grow = True
    for b in lowerer_bodies(F):
        nbs = [bi for bi, t in mir.calls(b) if hir.last(mir.callee(t)) == "new_block"]
        if not nbs or not any(is_frame_op(t, "push") or summ.get(mir.callee(t), {0}) != {0} for _, t in mir.calls(b)):
            continue
        # state: tuple of 'dirty' flags, one per frame opened by this method and still open
        sin = {0: {()}}
        work = [0]
        steps = 0
        flagged = {}
        while work and steps < 20000:
            steps += 1
            bi = work.pop()
            blk = b.blocks[bi]
            t = blk["term"]
            cur = set()
            for st in sin[bi]:
                if t["k"] != "call":
                    cur.add(st)
                    continue
                name = mir.callee(t)
                eff = summ.get(name) if name != b.path else None
                if is_frame_op(t, "push") or eff == {1}:
                    cur.add(st + (False,))
                elif is_frame_op(t, "pop") or eff == {-1}:
                    cur.add(st[:-1])
                elif mir.callee_def(t) == "std::mem::take" and (t["f"].get("gargs") or [None])[0] == FRAME_TY and st:
                    # the innermost frame is emptied (its contents are then dropped by the caller of take, see F2): it holds nothing any more
                    cur.add(st[:-1] + (False,))
                elif hir.last(name) == "new_block":
                    if any(st):
                        flagged[bi] = t["line"]
                    cur.add(st)
                elif name in fills and hir.last(name) not in F8_NEUTRAL and not hir.last(name).startswith("emit_"):
                    cur.add(tuple(True for _ in st))
                else:
                    cur.add(st)
            cur = {x for x in cur if len(x) <= 4}
            for sx in mir.succs(blk):
                old = sin.get(sx, set())
                new = old | cur
                if new != old:
                    sin[sx] = new
                    work.append(sx)
        for bi in nbs:
            states = sin.get(bi, set())
            if not any(len(st) > 0 for st in states):
                continue
            r.inst("%s new_block in an open frame #%d" % (b.path, nbs.index(bi)), {"fn": b.path, "line": b.blocks[bi]["term"]["line"], "frame_already_used": bi in flagged})
            if bi in flagged:
                r.bad(b.path, "new_block while a used frame is open", relfile(b.file), flagged[bi],
                      "a new generated block is started while a frame of this method already holds evaluated temporaries: the drops of that frame are emitted into a block that not every path executes, so the other paths never drop them")
    return r


def rule_f9(F):
    """The drops at the end of a block are skipped when the type checker says the block's last expression diverges. For a `match`
    that is a conjunction over ALL arms: inside the loop over the arms, the accumulator `acc &= arm_diverges` is updated on every
    iteration path (an arm that is left out - e.g. a guarded one - makes a match that can complete normally count as diverging,
    and the enclosing block then leaks its locals)."""
    r = RuleResult("C03.F9", "divergence of a match is accumulated over every arm (no iteration path of the arm loop skips the `&=`)", floor=1)
    n = 0
    for b in F.bodies_in(["src/typechecker/expr.rs", "src/typechecker/mod.rs", "src/typechecker/function.rs"]):
        if not b.mir:
            continue
        upd = {}
        for bi, blk in enumerate(b.blocks):
            for st in blk["stmts"]:
                if st["k"] == "assign" and st["rv"]["k"] == "bin" and st["rv"]["op"] == "BitAnd" and mir.is_place_op(st["rv"]["a"]) \
                        and st["rv"]["a"][1] == st["p"] and b.mir["locals"][st["p"][0]]["ty"] == "bool":
                    upd.setdefault(st["p"][0], []).append((bi, st.get("line", 0)))
        if not upd:
            continue
        loops = mir.natural_loops(b)
        for l, sites in upd.items():
            for h, nodes in loops:
                mine = {x[0] for x in sites if x[0] in nodes}
                if not mine:
                    continue
                seen, work, skip = set(), [x for x in mir.succs(b.blocks[h]) if x in nodes and x not in mine], False
                while work:
                    x = work.pop()
                    if x in seen:
                        continue
                    seen.add(x)
                    for sx in mir.succs(b.blocks[x]):
                        if sx == h:
                            skip = True
                        if sx in nodes and sx not in mine and sx not in seen:
                            work.append(sx)
                n += 1
                r.inst("%s accumulator #%d" % (hir.last(b.path), n), {"fn": b.path, "update_lines": sorted({x[1] for x in sites if x[0] in mine}), "skippable": skip})
                if skip:
                    r.bad(b.path, "accumulator update skipped on some iteration", relfile(b.file), min(x[1] for x in sites if x[0] in mine),
                          "the `&=` accumulation is not executed on every path through the loop body: elements for which it is skipped are ignored by the conjunction "
                          "(a match whose guarded arm completes normally is then treated as diverging and the enclosing block's drops are omitted)")
    return r


# constructs whose child may be skipped at run time: (pattern prefix, position of that child among the pattern's bindings)
CONDITIONAL_CHILD = {"Expr::While": 1, "Expr::For": 2}


def rule_f10(F):
    """'Diverges' (the flag that lets the lowerer omit the drops at the end of a block, and the type checker accept a block without
    a final value) may only be inherited from sub-expressions that are evaluated on every execution: not from the body of a
    `while`/`for` (zero iterations) nor from the right operand of `&&`/`||` (short circuit)."""
    r = RuleResult("C03.F10", "divergence is inherited only from sub-expressions that are always evaluated (not loop bodies, not short-circuited operands)", floor=3)

    def feeds_result(arm_body, child_local):
        """Does the result of checking `child_local` flow into the arm's value?"""
        body = hir.strip(arm_body)
        tail = body.get("expr") if body.get("k") == "block" else body
        res_locals = {hir.res_local(n) for n in hir.walk(tail or {}) if n.get("k") == "path" and hir.res_local(n) is not None}

        def checks_child(e):
            for c in hir.nodes(e, "mcall"):
                if c["m"] in ("block", "expr") and any(hir.res_local(hir.peel_refs(hir.strip(a))) == child_local for a in c["args"]):
                    return True
            return False
        if tail is not None and checks_child(tail):
            return True
        for n in hir.walk(body):
            k = n.get("k")
            if k in ("assignop", "assign") and hir.res_local(hir.peel_refs(hir.strip(n["lhs"]))) in res_locals and checks_child(n["rhs"]):
                return True
            if k == "letstmt" and n["pat"].get("k") == "bind" and n["pat"]["local"] in res_locals and n.get("init") is not None and checks_child(n["init"]):
                return True
        return False
    eb = None
    bb = None
    for p in F.paths():
        if p.endswith("TypeChecker>::expr") and "typechecker::expr" in p:
            eb = F.body(p)
        if p.endswith("TypeChecker>::binop") and "typechecker::expr" in p:
            bb = F.body(p)
    if eb is None or bb is None:
        r.missing("TypeChecker::expr / TypeChecker::binop")
        return r
    ms = hir.find_match_on(eb.hir["value"], "Expr::", min_arms=10)
    for arm in (ms[0]["arms"] if ms else []):
        alt = hir.pat_alternatives(arm["pat"])[0].split("(")[0]
        if alt not in CONDITIONAL_CHILD:
            continue
        binds = hir.pat_bindings(arm["pat"])
        pos = CONDITIONAL_CHILD[alt]
        if pos >= len(binds):
            r.missing("%s pattern with %d bindings" % (alt, pos + 1))
            continue
        bad = feeds_result(arm["body"], binds[pos][1])
        r.inst("%s body" % alt, {"construct": alt, "body_divergence_inherited": bad})
        if bad:
            r.bad(eb.path, "%s inherits the divergence of its body" % alt, relfile(eb.file), arm["line"],
                  "%s is marked diverging when its body diverges, although the body may run zero times: the enclosing block then omits its end-of-block drops (locals leak on the fall-through path) "
                  "and a function body may end without a value" % alt.split("::")[1])
    bm = hir.find_match_on(bb.hir["value"], "BinOp::", min_arms=4)
    epos = [i for i, p_ in enumerate(bb.hir["params"]) if "Meta<ast::Expr>" in (p_.get("ty") or "")]
    right_local = None
    if len(epos) >= 2:
        pp = bb.hir["params"][epos[1]]
        right_local = pp.get("local") if pp.get("k") == "bind" else None
    for arm in (bm[-1]["arms"] if bm else []):
        alts = hir.pat_alternatives(arm["pat"])
        if not ({"BinOp::And", "BinOp::Or"} & set(alts)):
            continue
        bad = right_local is not None and feeds_result(arm["body"], right_local)
        r.inst("And/Or right operand", {"right_operand_divergence_inherited": bad})
        if right_local is None:
            r.missing("right operand parameter of TypeChecker::binop")
        if bad:
            r.bad(bb.path, "&&/|| inherits the divergence of its right operand", relfile(bb.file), arm["line"],
                  "`a && b` / `a || b` is marked diverging when b diverges, although b is skipped when a decides: the enclosing block then omits its end-of-block drops on the short-circuit path")
    return r


# ---------------------------------------------------------------------------------------------------------------------
# F11: no sub-expression is lowered while a value is in limbo, or into a registered but partly initialised aggregate

NON_OWNING_TY = {"mir::ty::TyRef::" + x for x in ("UNIT", "NEVER", "BOOL", "U8", "U16", "U32", "U64", "I8", "I16", "I32", "I64", "F32", "F64")}
BACK_STEPS = {"next", "iter", "iter_mut", "into_iter", "deref", "deref_mut", "index", "index_mut", "unwrap", "clone", "as_ref", "borrow", "rev", "enumerate", "first", "last", "get"}


def _mentions(rv):
    out = []
    for k in ("o", "a", "b"):
        if k in rv and mir.is_place_op(rv[k]):
            out.append(rv[k][1][0])
    for o in rv.get("ops", []) or []:
        if mir.is_place_op(o):
            out.append(o[1][0])
    if "p" in rv and isinstance(rv["p"], list) and rv["p"]:
        out.append(rv["p"][0])
    return out


def _forward(b, roots):
    """Locals that (flow-insensitively) carry a value built from one of `roots`: copies, references, clones, aggregates and
    collections it was put into, results of calls it was passed to."""
    cur = set(roots)
    argc = b.mir["argc"]
    refs = {}
    for blk in b.blocks:
        for st in blk["stmts"]:
            if st["k"] == "assign" and st["rv"]["k"] == "ref" and len(st["p"]) == 1 and len(st["rv"]["p"]) == 1:
                refs[st["p"][0]] = st["rv"]["p"][0]
    src1 = {}
    for blk in b.blocks:
        for st in blk["stmts"]:
            if st["k"] == "assign" and len(st["p"]) == 1 and st["rv"]["k"] in ("use", "cast", "ref", "rawptr"):
                o = st["rv"].get("o")
                base = o[1][0] if mir.is_place_op(o) else (st["rv"]["p"][0] if st["rv"]["k"] in ("ref", "rawptr") else None)
                if base is not None:
                    src1.setdefault(st["p"][0], set()).add(base)
    ptr_src = {}
    for l0 in src1:
        acc, todo = [], [l0]
        while todo:
            x = todo.pop()
            for y in src1.get(x, ()):
                if y not in acc and y != l0:
                    acc.append(y)
                    todo.append(y)
        ptr_src[l0] = acc
    changed = True
    while changed:
        changed = False
        for blk in b.blocks:
            for st in blk["stmts"]:
                if st["k"] == "assign" and (st["p"][0] > argc or st["p"][0] == 0) and any(x in cur for x in _mentions(st["rv"])):
                    tg = [st["p"][0]]
                    if "*" in st["p"][1:]:
                        # a store through a pointer: the storage the pointer was taken from carries the value (vec![a, b])
                        tg += ptr_src.get(st["p"][0], [])
                    for x in tg:
                        if x not in cur and (x > argc or x == 0):
                            cur.add(x)
                            changed = True
            t = blk["term"]
            if t["k"] != "call":
                continue
            hit = any(mir.is_place_op(a) and a[1][0] in cur for a in t["args"])
            if not hit:
                continue
            d = t["dest"][0]
            if d not in cur and (d > argc or d == 0):
                cur.add(d)
                changed = True
            # a value pushed into a local collection makes the collection carry it
            dn = mir.callee_def(t) or ""
            if dn.startswith("std::vec::Vec") or dn.startswith("std::collections") or "Extend" in (mir.callee(t) or ""):
                a0 = t["args"][0] if t["args"] else None
                if mir.is_place_op(a0) and len(a0[1]) == 1 and a0[1][0] in refs:
                    tgt = refs[a0[1][0]]
                    if tgt > argc and tgt not in cur:
                        cur.add(tgt)
                        changed = True
    return cur


def _back_roots(b, defs, local, depth=0):
    """The local(s) a value was taken from through references, clones and iteration (`for x in &args` -> args)."""
    if depth > 12:
        return {local}
    ds = defs.whole_defs(local)
    if len(ds) != 1:
        return {local}
    _, _, kind, s = ds[0]
    if kind == "assign":
        rv = s["rv"]
        if rv["k"] in ("use", "cast") and mir.is_place_op(rv.get("o")):
            return _back_roots(b, defs, rv["o"][1][0], depth + 1)
        if rv["k"] == "ref":
            return _back_roots(b, defs, rv["p"][0], depth + 1)
        return {local}
    if kind == "call" and hir.last(mir.callee_def(s) or "") in BACK_STEPS and s["args"] and mir.is_place_op(s["args"][0]):
        return _back_roots(b, defs, s["args"][0][1][0], depth + 1)
    return {local}


def _agg_def(b, defs, local, depth=0):
    """The aggregate (or call) that built the value of a temporary, through moves."""
    ds = defs.whole_defs(local)
    if len(ds) != 1 or depth > 8:
        return None
    _, _, kind, s = ds[0]
    if kind == "assign":
        rv = s["rv"]
        if rv["k"] in ("use", "cast") and mir.is_place_op(rv.get("o")) and len(rv["o"][1]) == 1:
            return _agg_def(b, defs, rv["o"][1][0], depth + 1)
        if rv["k"] == "agg":
            return ("agg", rv)
        return None
    return ("call", s)


def _const_ty(b, defs, op):
    c = mir.op_const(op)
    if c is not None:
        return c.get("text")
    if mir.is_place_op(op):
        r_, _p = mir.origin(b, defs, op[1])
        if r_.startswith("const:"):
            return r_[6:]
    return None


def _place_projected(b, defs, op):
    """Is the Place operand built with a non-empty projection?  (Place::new and `projection: Vec::new()` are whole places.)"""
    if not mir.is_place_op(op):
        return False
    d = _agg_def(b, defs, op[1][0])
    if d is None:
        return True
    if d[0] == "call":
        return hir.last(mir.callee(d[1]) or "") != "new"
    rv = d[1]
    if rv.get("adt") != "mir::Place":
        return True
    fs = rv.get("fields") or []
    if "projection" not in fs:
        return True
    po = rv["ops"][fs.index("projection")]
    if not mir.is_place_op(po):
        return True
    pd = _agg_def(b, defs, po[1][0])
    return not (pd is not None and pd[0] == "call" and (mir.callee_def(pd[1]) or "").endswith("Vec::<T>::new"))


def _assign_sites(b, defs):
    """(block, to-operand, ty-operand, value-operand) of every emitted assignment: do_assign / emit_assign / emit(Instruction::Assign)."""
    out = []
    for bi, t in mir.calls(b):
        n = hir.last(mir.callee(t) or "")
        if not (mir.callee(t) or "").startswith("mir::lower::"):
            continue
        if n in ("do_assign", "emit_assign") and len(t["args"]) >= 4:
            out.append((bi, t, t["args"][1], t["args"][2], t["args"][3]))
        elif n == "emit" and len(t["args"]) >= 2 and mir.is_place_op(t["args"][1]):
            d = _agg_def(b, defs, t["args"][1][1][0])
            if d and d[0] == "agg" and d[1].get("adt") == "mir::Instruction" and d[1].get("variant") == "Assign":
                fs = d[1]["fields"]
                ops = d[1]["ops"]
                out.append((bi, t, ops[fs.index("to")], ops[fs.index("ty")], ops[fs.index("value")]))
    return out


def visitors(F):
    """Lowerer methods (and closures) through which a user sub-expression is lowered: everything from which Lowerer::expr is
    reachable. Lowering a sub-expression may emit an early return (`?`, `return`, accept/reject) that drops exactly the
    variables registered in the frames at that moment."""
    bodies = lowerer_bodies(F)
    by = {b.path: b for b in bodies}
    edges = {}
    for b in bodies:
        out = set()
        for _, t in mir.calls(b):
            c = mir.callee(t) or ""
            if c in by:
                out.add(c)
        for blk in b.blocks:
            for st in blk["stmts"]:
                if st["k"] == "assign" and st["rv"]["k"] == "agg" and st["rv"].get("ak") == "closure" and st["rv"].get("def") in by:
                    out.add(st["rv"]["def"])
        edges[b.path] = out
    vis = {p for p in by if hir.last(p) == "expr" and "{closure" not in p}
    changed = True
    while changed:
        changed = False
        for p, out in edges.items():
            if p not in vis and out & vis:
                vis.add(p)
                changed = True
    return vis


def _closures_of(b):
    clos = {}
    for blk in b.blocks:
        for st in blk["stmts"]:
            if st["k"] == "assign" and st["rv"]["k"] == "agg" and st["rv"].get("ak") == "closure":
                clos[st["p"][0]] = st["rv"].get("def")
    return clos


def _limbo_flow(b, vis, looping, summ_ret, summ_unreg):
    """Events and may-dataflow of limbo tokens of one Lowerer method. Returns a dict."""
    defs = mir.Defs(b)
    clos = _closures_of(b)
    argc = b.mir["argc"]
    ev = {}
    und = {}
    reg = {}
    for bi, t in mir.calls(b):
        c = mir.callee(t) or ""
        n = hir.last(c)
        if c.startswith("mir::lower::") and n == "undropped_tmp":
            und[t["dest"][0]] = t.get("line")
        if c.startswith("mir::lower::") and n == "tmp":
            reg[t["dest"][0]] = bi
    undf = {u: _forward(b, {u}) for u in und}
    regf = {u: _forward(b, {u}) for u in reg}
    sites = _assign_sites(b, defs)
    site_at = {s_[0]: s_ for s_ in sites}
    tokens = {}
    unreg_params = set()
    for bi, t in mir.calls(b):
        c = mir.callee(t) or ""
        n = hir.last(c)
        e = []
        cv = [clos.get(a[1][0]) for a in t["args"] if mir.is_place_op(a) and clos.get(a[1][0]) in vis]
        if c in vis or cv:
            e.append(("V", c if c in vis else cv[0]))
        if c.startswith("mir::lower::") and n == "new_block":
            e.append(("CLEAR",))
        unreg_args = []
        if c.startswith("mir::lower::") and n == "remove_live_variable":
            unreg_args = [1]
        elif c in summ_unreg:
            unreg_args = [i - 1 for i in summ_unreg[c]]
        for ai in unreg_args:
            if len(t["args"]) > ai and mir.is_place_op(t["args"][ai]):
                roots = _back_roots(b, defs, t["args"][ai][1][0])
                tid = ("R", bi, ai)
                tokens[tid] = ("taken out of its frame by %s at line %s" % (n, t.get("line")), _forward(b, roots), t.get("line"), roots)
                e.append(("GEN", tid))
        if is_frame_op(t, "pop"):
            # a frame taken off the stack: its variables are registered nowhere until they are drained into emit_drop
            tid = ("P", bi)
            tokens[tid] = ("registered in the frame popped at line %s" % t.get("line"), _forward(b, {t["dest"][0]}), t.get("line"))
            e.append(("GEN", tid))
        if c in summ_ret and c not in vis:
            tid = ("H", bi)
            tokens[tid] = ("stored in an unregistered temporary by %s at line %s" % (n, t.get("line")), _forward(b, {t["dest"][0]}), t.get("line"))
            e.append(("GEN", tid))
        if c.startswith("mir::lower::") and n == "emit_drop" and len(t["args"]) > 1 and mir.is_place_op(t["args"][1]):
            e.append(("USE", t["args"][1][1][0]))
        if c.startswith("mir::lower::") and n == "add_live_variable" and len(t["args"]) > 1 and mir.is_place_op(t["args"][1]):
            e.append(("LIVE", t["args"][1][1][0]))
        dn = mir.callee_def(t) or ""
        if dn.endswith("::push") and dn.startswith("std::vec::Vec") and len(t["args"]) > 1 and mir.is_place_op(t["args"][0]) and mir.is_place_op(t["args"][1]):
            if any("stack_slots" in x for x in deps(b, defs, t["args"][0][1][0])):
                e.append(("LIVE", t["args"][1][1][0]))
        if bi in site_at:
            _, _, to, ty, val = site_at[bi]
            if mir.is_place_op(val):
                e.append(("USE", val[1][0]))
            if mir.is_place_op(to):
                for u, fw in undf.items():
                    if to[1][0] in fw and _const_ty(b, defs, ty) not in NON_OWNING_TY:
                        tid = ("U", u)
                        tokens[tid] = ("stored in the unregistered temporary created at line %s" % und[u], fw, t.get("line"))
                        e.append(("GEN", tid))
        if e:
            ev[bi] = e
    nb = len(b.blocks)
    IN = [set() for _ in range(nb)]
    OUT = [set() for _ in range(nb)]
    rets = [bi for bi, blk in enumerate(b.blocks) if blk["term"]["k"] == "return"]
    found = {}
    if ev:
        work = list(range(nb))
        it = 0
        while work and it < 50000:
            it += 1
            bi = work.pop(0)
            st = set(IN[bi])
            for e in ev.get(bi, []):
                if e[0] == "V":
                    for tid in st:
                        found.setdefault((tid, bi), e[1])
                elif e[0] == "CLEAR":
                    st = set()
                elif e[0] == "GEN":
                    st.add(e[1])
                elif e[0] in ("USE", "LIVE"):
                    st = {tid for tid in st if e[1] not in tokens[tid][1]}
            if st != OUT[bi] or it <= nb:
                OUT[bi] = st
                succ = list(mir.succs(b.blocks[bi]))
                if b.path in looping and bi in rets:
                    succ.append(0)
                for sx in succ:
                    if not st <= IN[sx]:
                        IN[sx] |= st
                        if sx not in work:
                            work.append(sx)
    returns_limbo = any(0 in tokens[tid][1] for rb in rets for tid in OUT[rb])
    # a helper unregisters its parameter when the value is still outside the frames when the helper returns
    # (do_assign / assign_to_var re-home it in a registered destination before they return)
    for rb in rets:
        for tid in OUT[rb]:
            if tid[0] == "R":
                unreg_params |= {x for x in tokens[tid][3] if 1 <= x <= argc}
    return {"defs": defs, "ev": ev, "tokens": tokens, "found": found, "sites": sites, "reg": reg, "regf": regf,
            "returns_limbo": returns_limbo, "unreg_params": unreg_params}


def rule_f11(F):
    """An early return inside a sub-expression (`?`, `return`, accept/reject) drops the variables that are registered in the
    frames at that moment - nothing else and nothing less.  So at every point where the lowerer descends into a user
    sub-expression, (a) no owned value may be 'in limbo' - already stored in an unregistered temporary or already taken out of
    its frame for a callee that has not been called yet (it would leak), and (b) no registered aggregate may be partly
    initialised (its missing components would be dropped).  Decided per Lowerer method on its MIR: a may-dataflow of limbo tokens
    within one emitted block (tokens are cleared at new_block: what is live in a different generated block is decided by
    F3/F8), closures handed to iterator adaptors are analysed as loops, helpers that return such a temporary or unregister
    their parameter are summarised and count at their call sites."""
    r = RuleResult("C03.F11", "no sub-expression is lowered while an owned value is outside the frames (limbo) or into a registered, partly initialised aggregate", floor=20)
    vis = visitors(F)
    bodies = lowerer_bodies(F)
    if not vis:
        r.missing("Lowerer::expr")
        return r
    looping = set()
    for b in bodies:
        clos = _closures_of(b)
        for _, t in mir.calls(b):
            dn = mir.callee_def(t) or ""
            for a in t["args"]:
                if mir.is_place_op(a) and a[1][0] in clos and (dn.startswith("std::iter::") or dn.startswith("core::iter::")):
                    looping.add(clos[a[1][0]])
    # summaries of helpers (methods that do not themselves descend into sub-expressions)
    summ_ret, summ_unreg = {}, {}
    for _round in range(3):
        changed = False
        for b in bodies:
            if b.path in vis or "{closure" in b.path:
                continue
            fl = _limbo_flow(b, vis, looping, summ_ret, summ_unreg)
            if fl["returns_limbo"] and b.path not in summ_ret:
                summ_ret[b.path] = True
                changed = True
            if fl["unreg_params"] and summ_unreg.get(b.path) != fl["unreg_params"] and hir.last(b.path) != "remove_live_variable":
                summ_unreg[b.path] = set(fl["unreg_params"])
                changed = True
        if not changed:
            break
    nvisit = 0
    for b in bodies:
        fl = _limbo_flow(b, vis, looping, summ_ret, summ_unreg)
        ev, tokens, found, defs = fl["ev"], fl["tokens"], fl["found"], fl["defs"]
        if not ev:
            continue
        short = hir.last(b.path.split("::{closure")[0]) + ("{closure}" if "{closure" in b.path else "")
        nvisit += sum(1 for es in ev.values() for e in es if e[0] == "V")
        for bi, es in sorted(ev.items()):
            for e in es:
                if e[0] == "V":
                    r.inst("%s descends into %s #%d" % (short, hir.last(e[1].split("::{closure")[0]), len(r.instances)),
                           {"fn": b.path, "line": b.blocks[bi]["term"].get("line"), "in_limbo": sorted({tokens[tid][0] for (tid, vb) in found if vb == bi})})
        seen_keys = set()
        for (tid, vb), callee_ in sorted(found.items(), key=lambda x: (x[0][1], str(x[0][0]))):
            fnname = hir.last(b.path.split("::{closure")[0])
            what = "%s lowered while a value %s is in limbo" % (hir.last(callee_.split("::{closure")[0]), {"R": "taken out of its frame", "P": "of a popped frame"}.get(tid[0], "in an unregistered temporary"))
            if what in seen_keys:
                continue
            seen_keys.add(what)
            r.bad(b.path, what, relfile(b.file), b.blocks[vb]["term"].get("line"),
                  "%s descends into a user sub-expression (line %s) while a value %s: an early return inside that sub-expression (`?`, `return`, accept/reject) "
                  "drops only the registered variables, so this value leaks" % (fnname, b.blocks[vb]["term"].get("line"), tokens[tid][0]))
        # (b) partly initialised registered aggregates
        vblocks = [bi for bi, es in ev.items() if any(e[0] == "V" for e in es)]
        for u, tb in fl["reg"].items():
            fw = fl["regf"][u]
            for (sb, t, to, ty, val) in fl["sites"]:
                if not (mir.is_place_op(to) and to[1][0] in fw and _place_projected(b, defs, to)):
                    continue
                after = mir.reachable_from(b, tb) - {tb}
                between = [x for x in vblocks if x in after and (sb in mir.reachable_from(b, x))]
                r.inst("%s component store #%d" % (hir.last(b.path), len(r.instances)), {"fn": b.path, "registered_line": b.blocks[tb]["term"].get("line"), "store_line": t.get("line"), "sub_expressions_between": len(between)})
                if between:
                    r.bad(b.path, "sub-expression lowered between registering an aggregate and storing its components", relfile(b.file), b.blocks[between[0]]["term"].get("line"),
                          "%s registers the aggregate as live (line %s) and lowers sub-expressions before all components are stored (store at line %s): an early return inside one of them drops the "
                          "aggregate including components that were never initialised" % (hir.last(b.path), b.blocks[tb]["term"].get("line"), t.get("line")))
                    break
    r.note("descents into sub-expressions examined: %d; visitor methods: %d; per-element closures: %d; helpers returning an unregistered temporary: %s; helpers unregistering a parameter: %s"
           % (nvisit, len(vis), len(looping), sorted(hir.last(x) for x in summ_ret), sorted(hir.last(x) for x in summ_unreg)))
    if nvisit < 40:
        r.missing("at least 40 descents into sub-expressions (found %d)" % nvisit)
    return r

def rule_f12(F):
    """A lowered sub-expression is a lazy mir::Value: for a call it already names the argument temporaries that were taken out
    of the frames for the callee.  Until the Value is stored (emitted) those arguments are owned by nobody, so no other
    sub-expression may be lowered in between - it could return early and leak them (shared with C08.O4 / C01.T5, which read
    the same fact as an evaluation-order obligation)."""
    from . import c08
    r = c08.rule_o4(F)
    r.rule = "C03.F12"
    r.desc = "a lazily lowered operand is stored before the next sub-expression is lowered: the call arguments it carries are outside the frames until then"
    for v in r.violations:
        v.rule = "C03.F12"
    return r


def rule_f13(F):
    """The generated clone / drop / eq function of a record or enum must treat EVERY component: the generator walks the fields (and the
    variants) with loops, and the only way out of such a loop is the exhausted iterator - `continue` skips one component that needs
    nothing, `break` / `return` would silently skip all later ones (a droppable field after a plain one is never dropped)."""
    r = RuleResult("C03.F13", "generated clone/drop/eq bodies walk all fields and variants: the component loops are left only when the iterator is exhausted", floor=6)
    bodies = [b for b in F.bodies_in(["src/lir/lower/drops.rs", "src/lir/lower/clones.rs", "src/lir/lower/eq.rs"]) if b.mir and "::generate_" in b.path and "_body" in b.path]
    for b in bodies:
        merged = {}
        for h, nodes in mir.natural_loops(b):
            merged.setdefault(h, set()).update(nodes)   # `continue` gives one header several back edges: one loop
        for h, nodes in sorted(merged.items()):
            # the iterator step that drives the loop
            nxt = [x for x in nodes if b.blocks[x]["term"]["k"] == "call" and hir.last(mir.callee_def(b.blocks[x]["term"]) or "") == "next"]
            if not nxt:
                continue
            exits = []
            for x in sorted(nodes):
                for y in mir.succs(b.blocks[x]):
                    if y not in nodes:
                        exits.append((x, y))
            # the regular exit: the switch on the result of next() (directly after the call)
            regular = set()
            for x in nxt:
                for y in mir.succs(b.blocks[x]):
                    if y in nodes and b.blocks[y]["term"]["k"] == "switch":
                        regular.add(y)
            # edges into code that never returns (ice!, unwrap on None, overflow checks) do not leave the loop in any execution that
            # produces a function
            def returns(y):
                return any(b.blocks[z]["term"]["k"] == "return" for z in mir.reachable_from(b, y))
            exits = [(x, y) for x, y in exits if returns(y)]
            extra = [(x, y) for x, y in exits if x not in regular and x not in nxt]
            # exits of an inner loop are not exits of this loop's body as long as they stay inside it (already filtered by `not in nodes`)
            r.inst("%s loop at line %s" % (hir.last(b.path), b.blocks[h]["term"].get("line") or b.blocks[nxt[0]]["term"].get("line")),
                   {"fn": b.path, "regular_exits": len(exits) - len(extra), "other_exits": len(extra)})
            for x, y in extra:
                ln = b.blocks[x]["term"].get("line") or b.line
                r.bad(b.path, "component loop left early", relfile(b.file), ln,
                      "%s leaves the loop over the components of a type before the iterator is exhausted: the components after that point get no clone / drop / comparison code "
                      "(e.g. `Both(u32, Tracked)`: the Tracked field is never dropped)" % hir.last(b.path))
    return r


def rule_f14(F):
    """Clone and drop instructions exist only for values that exist in the IR.  A registered type has host-defined Clone / Drop
    whatever its size, so it must not be elided from the IR by size alone: lower_type's `None` (no IR value: no variable, no clone,
    no drop) is decided only after the kind of the type is known.  Shared with C05.A7 (the same elision shifts arguments)."""
    from . import c05
    r = c05.rule_a7(F)
    r.rule = "C03.F14"
    r.desc = "values of registered types (host-defined Clone / Drop) are never elided from the IR by size alone, so that their clones and drops are emitted in pairs"
    for v in r.violations:
        v.rule = "C03.F14"
        v.msg = ("lower_type answers `None` (no IR value: no variable, no clone, no drop) for every zero-sized type before looking at its kind, including registered types, whose Clone and "
                 "Drop are host code with effects: such a value is never dropped when the script keeps it, and dropped once per use without being cloned when it is handed to host functions")
    return r


def rule_f15(F):
    """The generated clone / drop / eq functions find each component by re-walking the layout: one `LayoutBuilder::add` per field, in
    order.  The walk must see EVERY field that has a layout - also those that need no clone / drop / comparison - because each add
    moves the offset of all later fields.  So inside a component loop nothing gets from one field to the next without the add, except
    for a field that has no layout at all (`layout_of` gave None: uninhabited).  (`if !needs_drop(ty) { continue }` BEFORE the add
    makes `Tagged(u64, Tracker)` drop its Tracker at the offset of the u64.)"""
    r = RuleResult("C03.F15", "generated clone/drop/eq bodies: every field with a layout is added to the layout walk before the next field (no skip before the add)", floor=5)
    bodies = [b for b in F.bodies_in(["src/lir/lower/drops.rs", "src/lir/lower/clones.rs", "src/lir/lower/eq.rs"]) if b.mir and "{closure" not in b.path]
    for b in bodies:
        adds = [(bi, t) for bi, t in mir.calls(b) if hir.last(mir.callee_def(t) or "") == "add" and "LayoutBuilder" in (mir.callee(t) or mir.callee_def(t) or "")]
        if not adds:
            continue
        defs = mir.Defs(b)
        merged = {}
        for h, nodes in mir.natural_loops(b):
            merged.setdefault(h, set()).update(nodes)
        gs = mir.gates(b, defs)
        # edges taken when a field has no layout: the bad side of a gate on a layout_of result
        legit = set()
        for g in gs:
            if any(hir.last(c[1] or "") == "layout_of" or hir.last(c[2] or "") == "layout_of" for c in g["chain"]):
                for tb in g["bad"]:
                    legit.add((g["bb"], tb))
        for bi, t in adds:
            inner = [(h, nodes) for h, nodes in merged.items() if bi in nodes]
            if not inner:
                continue
            h, nodes = min(inner, key=lambda x: len(x[1]))
            nxt = [x for x in nodes if b.blocks[x]["term"]["k"] == "call" and hir.last(mir.callee_def(b.blocks[x]["term"]) or "") == "next"
                   and not any(x in n2 and n2 < nodes for _, n2 in merged.items())]
            dest = (t.get("dest") or [None])[0]
            used = dest is not None and (any(dest in mir.rv_locals(st["rv"]) for blk in b.blocks for st in blk["stmts"] if st["k"] == "assign")
                                         or any(mir.is_place_op(a) and a[1] and a[1][0] == dest for _, tt in mir.calls(b) for a in tt.get("args") or []))
            if not nxt or not used:
                continue
            add_blocks = {x for x, _ in adds if x in nodes}
            # walk from the iterator step to the loop header without passing an add
            seen, work = set(), [y for x in nxt for y in mir.succs(b.blocks[x])]
            reached = False
            while work:
                x = work.pop()
                if x in seen or x not in nodes:
                    continue
                seen.add(x)
                if x in add_blocks:
                    continue
                for y in mir.succs(b.blocks[x]):
                    if (x, y) in legit:
                        continue
                    if y == h:
                        reached = True
                    work.append(y)
            r.inst("%s: walk step at line %s" % (hir.last(b.path), t.get("line")), {"fn": b.path, "skips_possible_before_add": reached})
            if reached:
                r.bad(b.path, "field skipped before it is added to the layout walk", relfile(b.file), t.get("line") or b.line,
                      "%s can go from one field to the next without LayoutBuilder::add (other than for a field without a layout): the offsets of all later fields of the "
                      "value are then computed as if the skipped field did not exist - the generated function clones / drops / compares them at the wrong address" % hir.last(b.path))
    return r


def rule_f16(F):
    """The by-value built-ins of lists (`contains`, `index`: the script hands the searched element over, the MIR lowering has taken it
    out of the caller's frame) own that element: the function that runs the element type's drop function on a parameter does so on
    EVERY path to its return - an early `return false` for an empty list leaks it.  Shared with C15.M8."""
    from . import c15
    r = c15.rule_m8(F)
    r.rule = "C03.F16"
    r.desc = "host functions that are handed an element by value drop it on every return path (the caller has given it up)"
    for v in r.violations:
        v.rule = "C03.F16"
    return r


def rule_f17(F):
    """A `match` works on a value of its own: the examinee is stored in a temporary (`assign_to_var`: an independent copy, owned by
    the match) before the dispatch, on every path.  Matching a bare local in place looks like a saved clone, but the arm bindings are
    taken out of the examinee only when their guard block runs - after the guards of earlier arms, which may assign to that local:
    the old value is dropped and the next arm of the variant clones a payload that no longer exists (read after drop)."""
    r = RuleResult("C03.F17", "match lowering: the examinee is copied into a temporary of the match before the dispatch, on every path", floor=1)
    ps = [p for p in F.paths() if p.startswith("mir::lower::match_expr::") and hir.last(p) in ("r#match", "match") and "{closure" not in p]
    if not ps:
        r.missing("mir::lower::match_expr Lowerer::match")
        return r
    b = F.body(ps[0])
    defs = mir.Defs(b)
    exprs = [bi for bi, t in mir.calls(b) if hir.last(mir.callee(t) or "") == "expr" and "Lowerer" in (mir.callee(t) or "")]
    sinks = [bi for bi, t in mir.calls(b) if hir.last(mir.callee(t) or "") in ("emit_switch", "match_case")]
    if not exprs or not sinks:
        r.missing("the lowering of the examinee / the dispatch in Lowerer::match")
        return r
    e0 = exprs[0]
    stores = [bi for bi, t in mir.calls(b) if hir.last(mir.callee(t) or "") == "assign_to_var"
              and any(mir.is_place_op(a) and e0 in mir.back_calls(b, defs, a[1][0]) for a in t["args"][1:])]
    seen, work, leak = set(), list(mir.succs(b.blocks[e0])), False
    while work:
        x = work.pop()
        if x in seen or x in stores:
            continue
        seen.add(x)
        if x in sinks:
            leak = True
            break
        work.extend(mir.succs(b.blocks[x]))
    r.inst("examinee", {"stores_of_the_examinee": len(stores), "dispatch_reachable_without_the_copy": leak})
    if leak or not stores:
        r.bad(b.path, "examinee matched in place", relfile(b.file), b.blocks[e0]["term"].get("line") or b.line,
              "a path from the lowering of the examinee to the dispatch does not store it in a temporary of the match: the arms read their bindings out of the matched variable itself, "
              "after the guards of earlier arms (which may assign to it and thereby drop the old value) have run")
    return r


def rules(ctx):
    F = ctx["F"]
    return [rule_f1(F), rule_f2(F), rule_f3(F), rule_f4(F), rule_f5(F), rule_f6(F), rule_f7(F), rule_f8(F), rule_f9(F), rule_f10(F), rule_f11(F), rule_f12(F), rule_f13(F), rule_f14(F), rule_f15(F), rule_f16(F), rule_f17(F)]
