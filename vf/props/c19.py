"""C19 - the test runner and CLI report outcomes truthfully."""
from .. import mir, hir
from ..facts import relfile
from ..report import RuleResult
from .c07 import local_reads
from .c09 import names

EXPLANATION = (
    "What a particular script's tests do is not decided. Decided (small, table-like code): X1 the CLI maps Ok to ExitCode::SUCCESS and "
    "Err to ExitCode::FAILURE; in cli_inner every fallible step of check/test/run (reading, parsing, type checking, run_tests, "
    "get_function) has its result propagated and none is discarded; `run` calls the entry function exactly once; X2 TestCase::run maps "
    "Accept to Ok and Reject to Err; run_tests returns Ok exactly on failures == 0, increments failures exactly on the not-Ok edge and "
    "runs every collected test once, unconditionally; X3 the prefix that marks test functions is the same literal at every site "
    "(type checker, MIR lowerer, test discovery), contains a byte the lexer turns into a punctuation token (so no script identifier can "
    "collide with it or call it), discovery matches on the last path segment and the collected names are sorted before use."
)
EXPLANATION += (  # round-3 supplement
    ' X2 finds the failure counter (or the folded result) by data flow. X4 every CLI sub-command loads its input with FileTree::read.'
)
EXPLANATION += (
    ' X5 Module::get_function looks every name up under the package prefix (the one test discovery strips) on every path, so the mapping from the name a test case is built from to the exported symbol is injective. X6 the four item checkers (function, filter_map, constant, test) each resolve the deferred obligations of the body before accepting the item.'
)
ASSUMPTIONS = [
    "process exit codes are produced only by roto::cli (main.rs returns its ExitCode)",
]


def rule_x1(F):
    r = RuleResult("C19.X1", "CLI: Ok -> SUCCESS, Err -> FAILURE; every fallible step propagated; entry function called once", floor=2 + 8)
    b = F.body("cli::cli")
    if b is None:
        r.missing("cli::cli")
    else:
        ms = hir.find_match_on(b.hir["value"], "Result::", min_arms=2) or [m for m in hir.nodes(b.hir["value"], "match")]
        rows = {}
        for m in ms[:1]:
            sc = m["e"]
            if not (hir.call_def(sc) or "").endswith("cli::cli_inner"):
                r.bad(b.path, "scrutinee", relfile(b.file), b.line, "cli() no longer decides its exit code from cli_inner's result")
            for row in hir.table(m):
                res = None
                for n in hir.walk(row["body"]):
                    if n.get("k") == "path" and "ExitCode::" in (hir.res_def(n) or ""):
                        res = hir.last(hir.res_def(n))
                rows[hir.last(row["alts"][0].split("(")[0])] = res
        r.inst("exit code table", rows)
        if rows.get("Ok") != "SUCCESS" or rows.get("Err") != "FAILURE":
            r.bad(b.path, "exit code table", relfile(b.file), b.line, "exit codes are %s; expected Ok -> SUCCESS, Err -> FAILURE" % rows)
    ci = F.body("cli::cli_inner")
    if ci is None:
        r.missing("cli::cli_inner")
        return r
    fam = _cli_family(F, ci)
    n = 0
    for fb in fam:
        locs = fb.mir["locals"]
        defs = mir.Defs(fb)
        gs = mir.gates(fb, defs)
        for bi, t in mir.calls(fb):
            d = t["dest"]
            if len(d) != 1:
                continue
            ty = locs[d[0]]["ty"]
            name = mir.callee(t)
            if not ty.startswith("std::result::Result<"):
                continue
            if name.startswith("std::") or name.startswith("<std::") or "Try" in name or "FromResidual" in name or "clap" in name:
                continue
            n += 1
            reads = local_reads(fb, d[0])
            gated = [g for g in gs if any(c[0] == bi for c in g["chain"])]
            if not gated:
                # `if step().is_err() { return Err(..) }`: a branch on a value computed from the result
                for sb_, sblk in enumerate(fb.blocks):
                    st_ = sblk["term"]
                    if st_["k"] == "switch" and mir.is_place_op(st_["o"]) and bi in mir.back_calls(fb, defs, st_["o"][1][0]):
                        gated = [sb_]
            consumed = sorted({x[0].split("::")[-1] for x in reads})
            r.inst("%s" % hir.last(name) + " #%d" % n, {"call": name, "in": fb.path, "line": t["line"], "consumed_by": consumed, "checked": bool(gated)})
            loud = any(x in ("unwrap", "expect") for x in consumed)
            if bi in mir.back_calls(fb, defs, 0):
                continue        # the step's result is (part of) the function's own result: every match arm yields its Result
            if not reads:
                r.bad(fb.path, "%s result dropped" % hir.last(name), relfile(fb.file), t["line"], "the result of %s is ignored: the command would report success although this step failed" % hir.last(name))
            elif not gated and not loud and d[0] != 0:
                r.bad(fb.path, "%s result unchecked" % hir.last(name), relfile(fb.file), t["line"], "the result of %s never decides the command's outcome (consumed by %s)" % (hir.last(name), consumed))
    # run_tests failure -> Err
    rt = [bi for fb in fam for bi, t in mir.calls(fb) if hir.last(mir.callee(t)) == "run_tests"]
    if not rt:
        r.bad(ci.path, "run_tests", relfile(ci.file), ci.line, "the test command no longer runs the tests")
    # run: the function handle is called exactly once
    calls = [(fb, bi) for fb in fam for bi, t in mir.calls(fb) if mir.callee_def(t).startswith("codegen::TypedFunc") and hir.last(mir.callee_def(t)) in ("call", "call_tuple")]
    r.inst("entry function calls", {"sites": len(calls)})
    if len(calls) != 1:
        r.bad(ci.path, "run once", relfile(ci.file), ci.line, "`run` must call the entry function exactly once (found %d call sites)" % len(calls))
    else:
        # not inside a loop: neither the call block (in its function) nor the call of the helper that contains it (up to cli_inner)
        fb, cb_ = calls[0]
        chain = [(fb, cb_)]
        cur = fb
        for _ in range(3):
            up = [(ub, bi) for ub in fam for bi, t in mir.calls(ub) if (mir.callee(t) or "") == cur.path]
            if not up:
                break
            if len(up) > 1:
                r.bad(ci.path, "run once", relfile(ci.file), ci.line, "the helper that calls the entry function is itself called from %d places" % len(up))
            chain.append(up[0])
            cur = up[0][0]
        for xb, xbi in chain:
            if xbi in {s_ for x in mir.reachable_from(xb, xbi) for s_ in mir.succs(xb.blocks[x])}:
                r.bad(ci.path, "run once", relfile(ci.file), ci.line, "the entry function is called inside a loop")
    return r


def _run_tests_mir(rb):
    """Counting and aggregation of run_tests decided on MIR (independent of if / match / early-return spelling).
    Returns (counting_ok, aggregate_ok, number of failure counters)."""
    b = rb
    defs = mir.Defs(b)
    dom = mir.dominators(b)
    loops = mir.natural_loops(b)
    runs = [bi for bi, t in mir.calls(b) if hir.last(mir.callee(t) or "") == "run" and "TestCase" in (mir.callee(t) or "")]
    if len(runs) != 1:
        return False, False, 0
    R = runs[0]
    mine = [(h, nodes) for h, nodes in loops if R in nodes]
    if not mine:
        return False, False, 0
    h, nodes = min(mine, key=lambda x: len(x[1]))
    # the branch on the result of this run
    best = None
    for si in sorted(nodes):
        tt = b.blocks[si]["term"]
        if tt["k"] != "switch" or R not in dom[si] or not mir.is_place_op(tt["o"]):
            continue
        l = tt["o"][1][0]
        if R not in mir.back_calls(b, defs, l):
            continue
        ds = defs.whole_defs(l)
        ok_t, fail_t = None, None
        if len(ds) == 1 and ds[0][2] == "assign" and ds[0][3]["rv"]["k"] == "discr":
            ok_t = [x for v, x in tt["targets"] if v == 0]
            fail_t = [x for v, x in tt["targets"] if v != 0] + ([tt["otherwise"]] if not (b.blocks[tt["otherwise"]]["term"]["k"] == "unreachable") else [])
        elif len(ds) == 1 and ds[0][2] == "call":
            n = hir.last(mir.callee_def(ds[0][3]) or "")
            t_true = [tt["otherwise"]] + [x for v, x in tt["targets"] if v != 0]
            t_false = [x for v, x in tt["targets"] if v == 0]
            if n in ("eq", "is_ok"):
                ok_t, fail_t = t_true, t_false
            elif n in ("ne", "is_err"):
                ok_t, fail_t = t_false, t_true
        if ok_t is not None and fail_t:
            best = (si, ok_t, fail_t)
            break
    if best is None:
        return False, False, 0
    si, ok_t, fail_t = best

    def region(starts):
        out = set()
        for x in starts:
            out |= mir.reachable_from(b, x, stop={h, si}) - {h, si}
        return out & nodes
    ok_r, fail_r = region(ok_t), region(fail_t)
    # counters: L = L + 1
    incs = {}
    for bi in nodes:
        for st in b.blocks[bi]["stmts"]:
            if st["k"] != "assign" or len(st["p"]) != 1:
                continue
            rv = st["rv"]
            src = None
            if rv["k"] in ("bin", "checked") and rv.get("op") in ("Add", "AddWithOverflow"):
                src = rv
            elif rv["k"] == "use" and mir.is_place_op(rv["o"]) and len(rv["o"][1]) == 2:
                for d in defs.whole_defs(rv["o"][1][0]):
                    if d[2] == "assign" and d[3]["rv"]["k"] in ("bin", "checked") and d[3]["rv"].get("op") in ("Add", "AddWithOverflow"):
                        src = d[3]["rv"]
            if src is None:
                continue
            consts = [mir.op_const(o) for o in (src["a"], src["b"])]
            if not any(c is not None and c.get("v") == 1 for c in consts):
                continue
            opl = [o[1][0] for o in (src["a"], src["b"]) if mir.is_place_op(o)]
            if opl and opl[0] == st["p"][0] and rv["k"] == "use":
                incs.setdefault(st["p"][0], set()).add(bi)
            elif opl and rv["k"] != "use" and opl[0] == st["p"][0]:
                incs.setdefault(st["p"][0], set()).add(bi)
    fail_counters = {l for l, bs in incs.items() if bs and bs <= fail_r and not (bs & ok_r)}
    counting_ok = bool(fail_counters)
    # aggregate
    oks = [bi for bi, blk in enumerate(b.blocks) for st in blk["stmts"] if st["k"] == "assign" and st["p"] == [0] and st["rv"]["k"] == "agg" and st["rv"].get("variant") == "Ok"]
    errs = [bi for bi, blk in enumerate(b.blocks) for st in blk["stmts"] if st["k"] == "assign" and st["p"] == [0] and st["rv"]["k"] == "agg" and st["rv"].get("variant") == "Err"]
    agg_ok = False
    for l in fail_counters:
        for ti, tblk in enumerate(b.blocks):
            tt = tblk["term"]
            if ti in nodes or tt["k"] != "switch" or not mir.is_place_op(tt["o"]):
                continue
            sl = tt["o"][1][0]
            t_true = [tt["otherwise"]] + [x for v, x in tt["targets"] if v != 0]
            t_false = [x for v, x in tt["targets"] if v == 0]
            zero_s, nonzero_s = None, None
            if sl == l:
                zero_s, nonzero_s = t_false, t_true
            else:
                for d in defs.whole_defs(sl):
                    if d[2] == "assign" and d[3]["rv"]["k"] == "bin":
                        rv = d[3]["rv"]
                        def same(o):
                            if not mir.is_place_op(o):
                                return False
                            x = o[1][0]
                            for _ in range(4):
                                if x == l:
                                    return True
                                dd = defs.whole_defs(x)
                                if len(dd) == 1 and dd[0][2] == "assign" and dd[0][3]["rv"]["k"] == "use" and mir.is_place_op(dd[0][3]["rv"]["o"]) and len(dd[0][3]["rv"]["o"][1]) == 1:
                                    x = dd[0][3]["rv"]["o"][1][0]
                                else:
                                    break
                            return x == l
                        a_is = same(rv["a"])
                        b_is = same(rv["b"])
                        za = (mir.op_const(rv["a"]) or {}).get("v") == 0
                        zb = (mir.op_const(rv["b"]) or {}).get("v") == 0
                        op = rv.get("op")
                        if a_is and zb:
                            pass
                        elif b_is and za:
                            op = {"Lt": "Gt", "Gt": "Lt", "Le": "Ge", "Ge": "Le"}.get(op, op)
                        else:
                            continue
                        if op in ("Eq", "Le"):
                            zero_s, nonzero_s = t_true, t_false
                        elif op in ("Ne", "Gt"):
                            zero_s, nonzero_s = t_false, t_true
            if zero_s is None:
                continue
            zr = set().union(*[mir.reachable_from(b, x) for x in zero_s]) if zero_s else set()
            nr = set().union(*[mir.reachable_from(b, x) for x in nonzero_s]) if nonzero_s else set()
            if oks and errs and all(o in zr and o not in nr for o in oks) and all(e in nr and e not in zr for e in errs):
                agg_ok = True
    return counting_ok, agg_ok, len(fail_counters)


def rule_x2(F):
    r = RuleResult("C19.X2", "TestCase::run: Accept->Ok, Reject->Err; run_tests: Ok iff no failure; each test run once, unconditionally", floor=4)
    b = None
    for p in F.paths():
        if p.endswith("TestCase::<C>::run") or (p.endswith("::run") and "codegen::testing::TestCase" in p):
            b = F.body(p)
    if b is None:
        r.missing("TestCase::run")
    else:
        rows = {}
        for m in hir.find_match_on(b.hir["value"], "Verdict::", min_arms=2):
            for row in hir.table(m):
                rows[row["alts"][0].split("(")[0]] = hir.last((row["result"] or "").replace("(..)", ""))
        if not rows:
            # `if let Verdict::Accept(..) = verdict { Ok(()) } else { Err(()) }`: a two-row table over the two variants of Verdict
            for iff in hir.nodes(b.hir["value"], "if"):
                c = iff["cond"]
                if c.get("k") != "let" or iff.get("else") is None:
                    continue
                pd = hir.pat_desc(c["pat"])
                named = "Verdict::Accept" if "Verdict::Accept" in pd else "Verdict::Reject" if "Verdict::Reject" in pd else None
                if named is None:
                    continue
                other = "Verdict::Reject" if named == "Verdict::Accept" else "Verdict::Accept"
                rows[named] = hir.last((hir.short_result(iff["then"]) or "").replace("(..)", ""))
                rows[other] = hir.last((hir.short_result(iff["else"]) or "").replace("(..)", ""))
            # `matches!(verdict, Verdict::Accept(..))`-style boolean forms are not read: they would fail closed below
        r.inst("verdict table", rows)
        if rows.get("Verdict::Accept") != "Ok" or rows.get("Verdict::Reject") != "Err":
            r.bad(b.path, "verdict table", relfile(b.file), b.line, "a test's verdict is mapped %s; expected Accept -> Ok, Reject -> Err" % rows)
    rb = F.body("codegen::testing::run_tests")
    if rb is None:
        r.missing("codegen::testing::run_tests")
        return r
    h = rb.hir["value"]
    # counting: the counter(s) incremented exactly on the not-Ok side of `test.run(..) == Ok(())`
    cnt_ok = False
    fail_counters = set()
    run_calls = [c for c in hir.nodes(h, "mcall") if c["m"] == "run"]

    def incs(node):
        out = set()
        for n in hir.nodes(node or {}, "assignop"):
            l = hir.res_local(hir.peel_refs(n["lhs"]))
            if n.get("op") == "+=" and l is not None:
                out.add(l)
        return out
    rld = hir.LocalDefs(rb.hir)

    def is_run_result(e, depth=0):
        """e is the result of test.run(..), directly or through a let-bound local"""
        e = hir.peel_refs(hir.strip(e))
        if any(x["m"] == "run" for x in hir.nodes(e, "mcall")) and e.get("k") in ("mcall",):
            return e["m"] == "run"
        if e.get("k") == "path" and hir.res_local(e) is not None and depth < 3:
            d = rld.get(hir.res_local(e))
            if d and d[1] is not None and not (d[2] and d[2][0] == "arm"):
                return is_run_result(d[1], depth + 1)
        return False

    def cond_polarity(c):
        """'ok' if the condition is true exactly when the test passed, 'fail' if exactly when it did not, else None"""
        c = hir.strip(c)
        if c.get("k") == "bin" and c.get("op") in ("==", "!="):
            for x, y in ((c["a"], c["b"]), (c["b"], c["a"])):
                if is_run_result(x) and "Ok" in str(hir.result_desc(y)):
                    return "ok" if c["op"] == "==" else "fail"
            return None
        if c.get("k") == "mcall" and c["m"] in ("is_ok", "is_err") and is_run_result(c["recv"]):
            return "ok" if c["m"] == "is_ok" else "fail"
        if c.get("k") == "un" and c.get("op") == "!":
            p_ = cond_polarity(c["a"])
            return {"ok": "fail", "fail": "ok"}.get(p_)
        return None
    for iff in hir.nodes(h, "if"):
        pol = cond_polarity(iff["cond"])
        if pol is None:
            continue
        okside = iff["then"] if pol == "ok" else iff.get("else")
        failside = iff.get("else") if pol == "ok" else iff["then"]
        fail_counters = incs(failside) - incs(okside)
        cnt_ok = bool(fail_counters)
    # final: Ok exactly when the failure counter is zero (if / match form)
    final = hir.strip(h).get("expr")
    ok = False

    def is_counter(e):
        return hir.res_local(hir.peel_refs(hir.strip(e))) in fail_counters

    def is_zero(e):
        e = hir.strip(e)
        return e.get("k") == "lit" and e.get("v") == 0
    if final and final.get("k") == "if" and fail_counters:
        c = hir.strip(final["cond"])
        if c.get("k") == "bin":
            a, bb, op = c.get("a"), c.get("b"), c.get("op")
            if is_zero(a) and is_counter(bb):
                a, bb = bb, a
                op = {"<": ">", ">": "<", "<=": ">=", ">=": "<="}.get(op, op)
            if is_counter(a) and is_zero(bb):
                t, e = str(hir.result_desc(final["then"])), str(hir.result_desc(final.get("else")))
                if op in ("==", "<="):
                    ok = "Ok" in t and "Err" in e
                elif op in ("!=", ">"):
                    ok = "Err" in t and "Ok" in e
    elif final and final.get("k") == "match" and fail_counters and is_counter(final["e"]):
        rows = hir.table(final)
        zero = [rw for rw in rows if rw["alts"] in (["0"], ["lit:0"]) and not rw.get("guard")]
        rest = [rw for rw in rows if rw["alts"] == ["_"] and not rw.get("guard")]
        ok = (len(rows) == 2 and len(zero) == 1 and len(rest) == 1 and rows[0] is zero[0]
              and "Ok" in str(zero[0]["result"]) and "Err" in str(rest[0]["result"]))
    if not ok and final is not None:
        # fold form: the returned local starts as Ok(()) and every iteration does `acc = acc.and(<result of this test>)`
        acc = hir.res_local(hir.peel_refs(hir.strip(final)))
        d = rld.get(acc) if acc is not None else None
        if d and d[1] is not None and "Ok" in str(hir.result_desc(d[1])):
            assigns = [a_ for a_ in hir.nodes(h, "assign") if hir.res_local(hir.peel_refs(hir.strip(a_["lhs"]))) == acc]
            in_loop = [a_ for lp in hir.nodes(h, "loop") for a_ in hir.nodes(lp, "assign") if a_ in assigns]

            def folds(a_):
                rhs = hir.strip(a_["rhs"])
                return (rhs.get("k") == "mcall" and rhs["m"] == "and" and hir.res_local(hir.peel_refs(hir.strip(rhs["recv"]))) == acc
                        and rhs["args"] and is_run_result(rhs["args"][0]))
            ok = bool(assigns) and len(in_loop) == len(assigns) and all(folds(a_) for a_ in assigns)
    if (not ok or not cnt_ok) and rb.mir:
        # the same two facts read off the MIR (whatever the spelling: match on the result, early return, ..)
        c_ok, a_ok, n_cnt = _run_tests_mir(rb)
        cnt_ok = cnt_ok or c_ok
        ok = ok or a_ok
        if n_cnt and not fail_counters:
            fail_counters = set(range(n_cnt))
    r.inst("aggregate result", {"ok": ok, "failure_counters": len(fail_counters)})
    if not ok:
        r.bad(rb.path, "aggregate", relfile(rb.file), rb.line, "run_tests must return Ok exactly when failures == 0")
    r.inst("failure counting", {"ok": cnt_ok, "run_call_sites": len(run_calls)})
    if not cnt_ok:
        r.bad(rb.path, "counting", relfile(rb.file), rb.line, "failures must be incremented exactly when a test's result is not Ok(())")
    if len(run_calls) != 1:
        r.bad(rb.path, "run once", relfile(rb.file), rb.line, "each test must be run by exactly one call site (found %d)" % len(run_calls))
    # every collected test: loop over get_tests(...).collect() without filter/skip/take
    bad_adapt = [c["m"] for c in hir.nodes(h, "mcall") if c["m"] in ("filter", "skip", "take", "step_by", "skip_while", "take_while", "rev", "dedup")]
    r.inst("all tests iterated", {"adaptors": bad_adapt})
    if bad_adapt:
        r.bad(rb.path, "all tests", relfile(rb.file), rb.line, "the list of tests is narrowed or reordered with %s before running" % bad_adapt)
    gt = [c for c in hir.nodes(h, "call") if (hir.call_def(c) or "").endswith("testing::get_tests")]
    if not gt:
        r.bad(rb.path, "get_tests", relfile(rb.file), rb.line, "run_tests no longer runs the tests found by get_tests")
    return r


def fmt_prefix(s):
    """Leading literal piece of a compact format_args byte string."""
    if not s:
        return None
    n = ord(s[0])
    if n < 0x80 and len(s) > n:
        return s[1:1 + n]
    return None


def fmt_pieces(s):
    """Pieces of a compact format_args byte string: literal strings and None for an argument."""
    out = []
    i = 0
    while i < len(s):
        n = ord(s[i])
        if n == 0:
            break
        if n >= 0x80:
            out.append(None)
            i += 1
            continue
        out.append(s[i + 1:i + 1 + n])
        i += 1 + n
    return out


def rule_x3(F):
    r = RuleResult("C19.X3", "one test-name prefix everywhere; it cannot be spelled in a script; discovery by last segment, sorted", floor=5)
    sites = {}
    wanted = {
        "typechecker test()": [p for p in F.paths() if p.endswith("::test") and "typechecker::function" in p],
        "mir tree()": ["mir::lower::Lowerer::<'r>::tree"],
        "mir test()": ["mir::lower::Lowerer::<'r>::test"],
        "get_tests": [p for p in F.paths() if p.startswith("codegen::testing::get_tests")],
    }
    # where the item tree is lowered, the naming of a test item may sit in a private helper that `tree` calls per declaration
    tb = F.body("mir::lower::Lowerer::<'r>::tree")
    if tb is not None and tb.mir:
        seen_ = set(wanted["mir tree()"])
        frontier = [tb]
        for _ in range(2):
            nxt = []
            for bb in frontier:
                cs = {mir.callee(t) or "" for _, t in mir.calls(bb)} | {st["rv"].get("def") for blk in bb.blocks for st in blk["stmts"] if st["k"] == "assign" and st["rv"]["k"] == "agg" and st["rv"].get("ak") == "closure"}
                for c in cs:
                    hb = F.body(c or "")
                    if hb is not None and hb.mir and c not in seen_ and c.startswith("mir::lower::") and hir.last(c.split("::{closure")[0]) not in ("test", "expr", "block", "function", "stmt"):
                        seen_.add(c)
                        nxt.append(hb)
            frontier = nxt
        wanted["mir tree()"] = sorted(seen_)
    for label, ps in wanted.items():
        vals = set()
        for p in ps:
            b = F.body(p)
            if b is None or not b.hir:
                continue
            for n in hir.walk(b.hir.get("value") or {}):
                if n.get("k") == "lit" and isinstance(n.get("v"), str):
                    if n.get("lk") == "bytestr" and any("FormatLiteral" in m for m in (n.get("mac") or [])):
                        pre = fmt_prefix(n["v"])
                        if pre and "#" in pre and "test" in pre:
                            vals.add(pre)
                        pcs = fmt_pieces(n["v"])
                        if len(pcs) >= 2 and pcs[0] is None and isinstance(pcs[1], str) and pcs[1].startswith("#"):
                            # `format!("{prefix}#{ident}")`: the prefix is an argument - the identifier-like literals handed to it in
                            # this function (or the function the closure belongs to)
                            fam = [b] + [F.body(q) for q in F.paths() if q.startswith(p.split("::{closure")[0] + "::{closure") or q == p.split("::{closure")[0]]
                            for fb_ in fam:
                                if fb_ is None or not fb_.hir:
                                    continue
                                for n2 in hir.walk(fb_.hir.get("value") or {}):
                                    if n2.get("k") == "lit" and n2.get("lk") == "str" and isinstance(n2.get("v"), str) and n2["v"].isidentifier() and "test" in n2["v"]:
                                        vals.add(n2["v"] + pcs[1])
                    elif n.get("lk") == "str" and n["v"].endswith("#") and "test" in n["v"]:
                        vals.add(n["v"])
            if label == "get_tests":
                for c in hir.nodes(b.hir.get("value") or {}, "mcall"):
                    if c["m"] in ("starts_with", "replace", "strip_prefix", "contains") and c["args"]:
                        a0 = hir.peel_refs(c["args"][0])
                        if a0.get("k") == "lit" and a0.get("lk") == "str" and a0["v"] not in ("pkg.", "."):
                            vals.add(a0["v"])
        if label == "get_tests" and not vals:
            continue       # decided below by evaluating the discovery predicate with the prefix the other sites use
        sites[label] = sorted(vals)
        r.inst(label, {"site": label, "prefix": sorted(vals)})
        if not vals:
            r.bad(label, "prefix", "-", 0, "no test-name prefix literal found in %s" % label)
    allv = {v for vs in sites.values() for v in vs}
    if len(allv) > 1:
        r.bad("test prefix", "agreement", "-", 0, "the sites disagree on the test-name prefix: %s - tests would not be discovered, or could be shadowed" % sites)
    prefix = next(iter(allv)) if len(allv) == 1 else None
    # the prefix contains a punctuation byte of the lexer
    lb = None
    for p in F.paths():
        if p.endswith("::one_char_punctuation"):
            lb = F.body(p)
    punct = set()
    if lb:
        for m in hir.nodes(lb.hir["value"], "match"):
            for row in hir.table(m):
                for a in row["alts"]:
                    if a.startswith("lit:") and a[4:].isdigit():
                        punct.add(chr(int(a[4:])))
    r.inst("prefix is not an identifier", {"prefix": prefix, "punctuation_bytes_in_prefix": sorted(set(prefix or "") & punct)})
    if prefix is not None and not (set(prefix) & punct):
        r.bad("test prefix", "unspellable", "-", 0, "the prefix %r consists of identifier characters only: a script function of that name would shadow or call a test" % prefix)
    gb = F.body("codegen::testing::get_tests")
    if gb is None:
        r.missing("codegen::testing::get_tests")
        return r
    ms = [c["m"] for c in hir.nodes(gb.hir["value"], "mcall")]
    st = gb.hir["value"].get("stmts") or []
    # the collection that is sorted is the one the function returns (whatever it is called)
    tail = hir.strip(gb.hir["value"]).get("expr")
    def chain_root(e):
        e = hir.peel_refs(hir.strip(e or {}))
        while e.get("k") == "mcall":
            e = hir.peel_refs(hir.strip(e["recv"]))
        return hir.res_local(e) if e.get("k") == "path" else None
    ret_local = chain_root(tail)
    sort_i = [i for i, s in enumerate(st) if any(c["m"] in ("sort", "sort_unstable") and ret_local is not None
                                                and hir.res_local(hir.peel_refs(hir.strip(c["recv"]))) == ret_local for c in hir.nodes(s, "mcall"))]
    if not sort_i:
        # the collecting and sorting may be a private helper of the module (`sorted_test_names(..)`): there, too, what is sorted is what
        # the helper returns, and get_tests takes its names from the helper
        for hb in hir.with_callees(F, gb, depth=2, same_file=True):
            if hb.path == gb.path or not hb.path.startswith("codegen::testing::"):
                continue
            hv = hir.strip(hb.hir["value"])
            hret = chain_root(hv.get("expr"))
            hst = hv.get("stmts") or []
            if hret is not None and any(c["m"] in ("sort", "sort_unstable") and hir.res_local(hir.peel_refs(hir.strip(c["recv"]))) == hret for s_ in hst for c in hir.nodes(s_, "mcall")) \
                    and any((hir.call_def(c) or "") == hb.path for c in hir.nodes(gb.hir["value"], "call")):
                sort_i = ["in " + hir.last(hb.path)]
    r.inst("sorted", {"sort_stmt": sort_i})
    if not sort_i:
        r.bad(gb.path, "sorted", relfile(gb.file), gb.line, "the discovered test names are not sorted: the order of test runs would depend on HashMap iteration")
    # discovery on the last segment, by prefix: the predicate that get_tests filters the function names with is EVALUATED (vf/sx:
    # str / Option methods on concrete strings, constants and helper functions followed) on names built with the prefix the
    # other sites use
    from .. import sx
    pred = None
    for f_ in hir.nodes_deep(F, gb.hir["value"], "mcall", depth=1):
        if f_["m"] in ("filter", "filter_map") and f_["args"]:
            a0 = hir.strip(f_["args"][0])
            if a0.get("k") == "closure":
                pred = {"params": a0["params"], "value": a0["body"]}
                break
            if a0.get("k") == "path" and F.has(hir.res_def(a0) or ""):
                pred = F.body(hir.res_def(a0)).hir
                break
    pfx = prefix or "test#"
    vectors = [("pkg." + pfx + "a", True), ("pkg.sub." + pfx + "b", True), ("pkg.a.b." + pfx + "c", True), ("pkg.main", False), ("pkg.sub.main", False),
               ("pkg." + pfx + "x.helper", False), ("pkg.x" + pfx + "y", False)]
    if pred is None:
        r.bad(gb.path, "predicate", relfile(gb.file), gb.line, "get_tests does not select the test functions with a filter over the function names")
    else:
        got = []
        try:
            ex = sx.Exec(F)
            for name, want in vectors:
                res = {x if isinstance(x, bool) else ("Some" if sx.is_ctor(x) and x[1] == "Some" else "None" if x == "None" else "?") for x, _ in ex.paths(pred, {0: sx.Str(name)})}
                res = {True if x == "Some" else False if x == "None" else x for x in res}
                got.append((name, want, sorted(res, key=str)))
        except (sx.TooManyPaths, sx.Unknown) as e_:
            got = None
            r.bad(gb.path, "predicate", relfile(gb.file), gb.line, "cannot evaluate the discovery predicate: %s" % e_)
        if got is not None:
            r.inst("discovery predicate", {"evaluated_on": [(n_, g_) for n_, _, g_ in got]})
            wrong = [(n_, w_, g_) for n_, w_, g_ in got if g_ != [w_]]
            if wrong:
                r.bad(gb.path, "predicate", relfile(gb.file), gb.line,
                      "tests must be recognised by the prefix %r of the LAST path segment: %s" % (pfx, "; ".join("%s -> %s (expected %s)" % (n_, g_, w_) for n_, w_, g_ in wrong[:3])))
    return r


def _cli_nodes(F, node, kind, depth=2, _seen=None):
    """nodes of `node`, continued into the functions of the `cli` module that it calls"""
    _seen = _seen if _seen is not None else set()
    for n in hir.walk(node):
        if n.get("k") == kind:
            yield n
        c = hir.call_def(n) if n.get("k") in ("call", "mcall") else None
        if depth > 0 and c and c.startswith("cli::") and c not in _seen and F.has(c):
            _seen.add(c)
            cb = F.body(c)
            if cb is not None and cb.hir:
                yield from _cli_nodes(F, cb.hir.get("value") or {}, kind, depth - 1, _seen)


def _cli_family(F, root):
    """cli_inner and the functions of the `cli` module it calls (transitively): the commands may be written out in helpers"""
    out, work = [], [root]
    while work:
        b = work.pop()
        if b is None or not b.mir or any(x.path == b.path for x in out):
            continue
        out.append(b)
        for _, t in mir.calls(b):
            c = mir.callee(t) or ""
            if c.startswith("cli::") and c not in ("cli::cli", "cli::print_highlighted") and F.has(c):
                work.append(F.body(c))
    return out


def rule_x4(F):
    """`roto check|test|run <path>` work on whatever the path is - a single file or a package directory: every sub-command loads
    its input with the loader that dispatches on file vs. directory (`FileTree::read`), none with a single-file loader (which reports
    a package directory as unreadable: no test runs, and the exit status is a failure although nothing rejected)."""
    r = RuleResult("C19.X4", "every CLI sub-command loads its input with FileTree::read (file or package directory)", floor=3)
    ci = F.body("cli::cli_inner")
    if ci is None or not ci.hir:
        r.missing("cli::cli_inner")
        return r
    ms = hir.find_match_on(ci.hir["value"], "Command::", min_arms=2)
    if not ms:
        r.missing("match over the sub-commands in cli_inner")
        return r
    for arm in ms[0]["arms"]:
        cmd = hir.last(hir.pat_paths(arm["pat"])[0]) if hir.pat_paths(arm["pat"]) else "?"
        # the command's work may live in a private function of the CLI module (`Command::Test { file } => test_command(rt, file)?`)
        loaders = sorted({hir.last(hir.call_def(c) or "") for c in _cli_nodes(F, arm["body"], "call") if "FileTree::" in (hir.call_def(c) or "")})
        if not loaders:
            continue
        r.inst("sub-command %s" % cmd, {"command": cmd, "loaders": loaders})
        if loaders != ["read"]:
            r.bad(ci.path, "sub-command %s loader" % cmd, relfile(ci.file), arm["line"],
                  "`roto %s` loads its input with FileTree::%s instead of FileTree::read: a package directory is not discovered (its tests do not run / its entry function is not found) although `roto check` accepts it" % (cmd.lower(), "/".join(loaders)))
    return r


def _format_prefixes(F, b, defs, depth=0):
    """block -> leading literal of what is formatted there: std::fmt::format calls of this body, and calls of crate helpers whose own
    result is such a formatted string (`Self::qualified(name)`)."""
    out = {}
    for bi, t in mir.calls(b):
        c = mir.callee(t) or ""
        if hir.last(c) == "format" and "fmt" in c:
            pre = None
            for cb in mir.back_calls(b, defs, t["args"][0][1][0]) if t["args"] and mir.is_place_op(t["args"][0]) else []:
                ct = b.blocks[cb]["term"]
                for a in ct["args"]:
                    cst = mir.op_const(a)
                    text = str(cst.get("text", "")) if cst is not None else ""
                    if not text and mir.is_place_op(a):
                        root, _p = mir.origin(b, defs, a[1])
                        text = root[6:] if root.startswith("const:") else ""
                    if text.startswith("b\""):
                        raw = text[2:-1].encode().decode("unicode_escape")
                        pre = fmt_prefix(raw) or pre
            out[bi] = pre
        elif depth < 2 and F.has(c) and not c.startswith("std::") and not c.startswith("core::"):
            hb = F.body(c)
            if hb is not None and hb.mir and "String" in hb.mir["locals"][0]["ty"]:
                hd = mir.Defs(hb)
                hp = _format_prefixes(F, hb, hd, depth + 1)
                srcs = [hp[x] for x in mir.back_calls(hb, hd, 0) if x in hp]
                if hp and srcs and all(x is not None and x == srcs[0] for x in srcs):
                    out[bi] = srcs[0]
    return out


def lookup_key_prefixes(F, b):
    """For the lookup `functions.get(key)` in a body: the literal prefix of every definition of the key (None for a definition
    that is not a formatted string). Returns (list of prefixes, line) or None if there is no such lookup."""
    defs = mir.Defs(b)
    gets = [(bi, t) for bi, t in mir.calls(b) if (mir.callee_def(t) or "").endswith("HashMap::<K, V, S, A>::get") and t["args"] and mir.is_place_op(t["args"][0])
            and "functions" in mir.origin_key(b, defs, t["args"][0][1])]
    if not gets:
        return None
    fmts = _format_prefixes(F, b, defs)
    res = []
    for gbi, gt in gets:
        key = gt["args"][1] if len(gt["args"]) > 1 else None
        if not mir.is_place_op(key):
            res.append(([None], gt.get("line", b.line)))
            continue
        l = key[1][0]
        for _ in range(8):
            ds = defs.whole_defs(l)
            if len(ds) == 1 and ds[0][2] == "assign" and ds[0][3]["rv"]["k"] in ("ref", "use", "cast"):
                rv = ds[0][3]["rv"]
                src = rv.get("p") or (rv["o"][1] if mir.is_place_op(rv.get("o")) else None)
                if not src:
                    break
                l = src[0]
            elif len(ds) == 1 and ds[0][2] == "call" and hir.last(mir.callee_def(ds[0][3]) or "") in ("deref", "as_str", "as_ref", "borrow", "must_use") and ds[0][3]["args"] and mir.is_place_op(ds[0][3]["args"][0]):
                l = ds[0][3]["args"][0][1][0]
            else:
                break
        sources = []
        for d in defs.whole_defs(l):
            if d[2] == "call":
                calls_ = {d[0]} | (set().union(*[mir.back_calls(b, defs, a[1][0]) for a in d[3]["args"] if mir.is_place_op(a)]) if d[3]["args"] else set())
            else:
                calls_ = set().union(*[mir.back_calls(b, defs, x) for x in mir.rv_locals(d[3]["rv"])]) if mir.rv_locals(d[3]["rv"]) else set()
            pres = [fmts[c] for c in calls_ if c in fmts]
            sources.append(pres[0] if pres else None)
        res.append((sources, gt.get("line", b.line)))
    return res


def rule_x5(F):
    """Which function a test case (or `roto run`) calls: the exported symbols are keyed by their full path `pkg.<path>`, test
    discovery strips that one prefix and hands the rest to Module::get_function, which must put exactly that prefix back - on every
    path.  (If a name that already starts with `pkg.` is looked up as it is, the tests of a sub-module named `pkg` resolve to the
    root module's tests of the same name: they are reported under the sub-module's name without ever running.)"""
    r = RuleResult("C19.X5", "get_function looks every name up under the package prefix that test discovery stripped (the name -> symbol mapping is injective)", floor=1)
    ps = [p for p in F.paths() if p.endswith("::get_function") and p.startswith("codegen::Module")]
    if not ps:
        r.missing("codegen::Module::get_function")
        return r
    b = F.body(ps[0])
    looked = lookup_key_prefixes(F, b)
    if not looked:
        r.missing("the lookup in `functions` in Module::get_function")
        return r
    stripped = set()
    for p in F.paths():
        if p.startswith("codegen::testing::get_tests"):
            tb = F.body(p)
            if tb is not None and tb.hir:
                # (the stripping may sit in a private helper of the test module, and the prefix may be a constant)
                for c in hir.nodes_deep(F, tb.hir.get("value") or {}, "mcall", depth=2):
                    if c["m"] in ("strip_prefix", "trim_start_matches") and c["args"]:
                        a0 = hir.peel_refs(c["args"][0])
                        if a0.get("k") == "lit" and a0.get("lk") == "str":
                            stripped.add(a0["v"])
                        elif a0.get("k") == "path" and F.has(hir.res_def(a0) or ""):
                            cb_ = F.body(hir.res_def(a0))
                            v_ = hir.strip((cb_.hir or {}).get("value") or {}) if cb_ is not None and cb_.hir else {}
                            if v_.get("k") == "lit" and v_.get("lk") == "str":
                                stripped.add(v_["v"])
    for sources, line in looked:
        r.inst("lookup key in get_function", {"definitions_of_the_key": len(sources), "prefixes": sources, "stripped_by_get_tests": sorted(stripped)})
        if not sources or any(x is None for x in sources):
            r.bad(b.path, "name looked up without the package prefix on some path", relfile(b.file), line,
                  "on some path the name is looked up in the symbol table as it was given, without the package prefix being prepended: two different names then reach the same symbol "
                  "(`pkg.f` and `f`), and a test of a sub-module called `pkg` resolves to the root module's test of the same name - it is reported as run without running")
        elif stripped and any(x not in stripped for x in sources):
            r.bad(b.path, "prefix differs from the one test discovery strips", relfile(b.file), line,
                  "get_function prepends %s but test discovery strips %s" % (sorted(set(sources)), sorted(stripped)))
    if not stripped:
        r.missing("the prefix stripped by codegen::testing::get_tests")
    return r


def rule_x6(F):
    """`roto check` / `roto test` answer for the whole script, test blocks included: a test block is type-checked like the other
    items, which includes resolving the deferred obligations of its body (the `to_string` of every f-string interpolation) before the
    item is accepted.  Sibling agreement of the four item checkers in typechecker::function (function, filter_map, constant, test):
    every successful exit is dominated by a call of resolve_obligations placed after the body was checked.  (Without it the
    obligations of a test block at the end of a file are never resolved: an ill-typed f-string passes `roto check`, a well-typed one
    panics in lowering and `roto test` dies although every block accepts.)"""
    r = RuleResult("C19.X6", "every item checker (function, filter_map, constant, test) resolves the deferred obligations of its body before accepting the item", floor=4)
    n = 0

    def summary(path, depth=0):
        """(accepting exits, all resolved, body checked before the resolution) of one function.  An accepting exit is an `Ok(..)`
        written to the return place or a call whose result is returned as it is; it is resolved when a call of resolve_obligations
        - or of a crate helper that itself only accepts resolved - dominates it (or is that tail call)."""
        b = F.body(path)
        if not b or not b.mir or depth > 3:
            return None
        dom = mir.dominators(b)
        res, checks = [], []          # (block, includes a body check of its own)
        for bi, t in mir.calls(b):
            c = mir.callee(t) or ""
            if hir.last(c) == "resolve_obligations":
                res.append((bi, False))
            elif hir.last(c) in ("block", "expr") and "typechecker" in c:
                checks.append(bi)
            elif (mir.callee_def(t) or "").startswith("std::ops::Fn") and hir.last(mir.callee_def(t) or "") in ("call", "call_mut", "call_once"):
                checks.append(bi)            # the body check handed in by the caller as a closure
            elif "typechecker" in c and c != path and F.body(c) is not None:
                sm = summary(c, depth + 1)
                if sm and sm["exits"] and sm["resolved"]:
                    res.append((bi, sm["checked"]))
        exits = [bi for bi, blk in enumerate(b.blocks) for st in blk["stmts"] if st["k"] == "assign" and st["p"] == [0] and st["rv"]["k"] == "agg" and st["rv"].get("variant") == "Ok"]
        exits += [bi for bi, t in mir.calls(b) if t.get("dest") == [0] and "from_residual" not in (mir.callee(t) or "")]
        exits = sorted(set(exits))
        ok_res, ok_chk = True, True
        for e in exits:
            rs = [(rb, own) for rb, own in res if rb in dom[e]]
            if not rs:
                ok_res = False
                continue
            if not any(own or any(cb in dom[rb] for cb in checks) for rb, own in rs):
                ok_chk = False
        return {"exits": len(exits), "resolved": ok_res, "checked": ok_chk, "res": len(res), "b": b}

    for name in ("function", "filter_map", "constant", "test"):
        ps = [p for p in F.paths() if p.endswith("TypeChecker>::" + name) and "typechecker::function" in p]
        if not ps:
            r.missing("typechecker::function::" + name)
            continue
        sm = summary(ps[0])
        if not sm:
            continue
        b = sm["b"]
        n += 1
        good = bool(sm["exits"]) and sm["resolved"] and sm["checked"]
        r.inst("item checker `%s`" % name, {"fn": b.path, "resolving_calls": sm["res"], "accepting_exits": sm["exits"], "every_accepting_exit_behind_one": good})
        if not good:
            r.bad(b.path, "obligations of the body not resolved", relfile(b.file), b.line,
                  "the checker of `%s` items can accept the item without resolving the deferred obligations of its body (its siblings all do): the `to_string` of an f-string interpolation is "
                  "neither checked nor recorded unless a later item happens to drain the list" % name)
    return r


def rule_x7(F):
    """Every test block is executed: a test block is compiled only if the compilation order contains it, and the order is what the
    SCC computation emits.  Shared with C14.D6."""
    from . import c14
    r = c14.rule_d6(F)
    r.rule = "C19.X7"
    r.desc = "no test block is dropped from the compilation order: Tarjan stack membership is exact (every popped vertex is unmarked)"
    for v in r.violations:
        v.rule = "C19.X7"
    return r


def rule_x8(F):
    """A script with a compile error never counts as checked: when the grammar has been parsed, `run_parser` asks the LEXER whether
    anything is left, and leftover input - also a character that is no token at all - is a parse error.  The test must be made on
    `Lexer::next` / `Lexer::peek` (which yield an invalid character as `Some(Err(..))`); `Parser::peek` maps a lexing error to `None`,
    exactly like the end of input, so a stray `@` between two items would end the file silently: `roto check` says "All ok!" and the
    test blocks after it never run."""
    r = RuleResult("C19.X8", "leftover input after the grammar is a parse error, decided on the lexer itself (an invalid character does not end the file silently)", floor=1)
    ps = [p for p in F.paths() if p.startswith("parser::") and hir.last(p) == "run_parser" and "{closure" not in p]
    if not ps:
        r.missing("parser::Parser::run_parser")
        return r
    b = F.body(ps[0])
    defs = mir.Defs(b)
    oks = set(mir.ok_exits(b, "Ok"))
    gs = mir.gates(b, defs)
    decided = []
    for g in gs:
        names = [c[1] for c in g["chain"]]
        lex = [n for n in names if "parser::lexer::Lexer" in n and hir.last(n) in ("next", "peek", "peek_many")]
        if not lex or g["family"] != "Option":
            continue
        some_r = set()
        for x in g["good"]:
            some_r |= mir.reachable_from(b, x) | {x}
        none_r = set()
        for x in g["bad"]:
            none_r |= mir.reachable_from(b, x) | {x}
        if oks and not (oks & some_r) and oks <= none_r:
            decided.append(hir.last(lex[0]))
    r.inst("run_parser end-of-input test", {"ok_exits": len(oks), "decided_by_lexer_call": decided})
    if not decided:
        r.bad(b.path, "leftover input not decided on the lexer", relfile(b.file), b.line,
              "no test on Lexer::next / Lexer::peek stands between the parsed grammar and the successful exit of run_parser (Some -> error, None -> Ok): leftover input that is not a "
              "valid token - a stray character between two items - ends the file silently, the rest of the script is never compiled and its test blocks never run")
    return r


def rule_x9(F):
    """Every test block of every module is run - of every module FILE of the package directory, then: which entries of the
    directory become modules is decided by their name (`*.roto`, not `pkg` / `mod`) and nothing else.  The entry's type is asked
    for one thing only, directory or not (the descent); the read of a module file is not made to depend on `is_file` /
    `is_symlink` / `metadata`: `DirEntry::file_type` does not follow links, so a module that is a symbolic link (a shared checks
    module) would silently drop out of the tree and `roto test` would report success without having run its tests."""
    r = RuleResult("C19.X9", "module discovery: whether a directory entry is read as a module depends on its name only, never on a file-type test other than is_dir", floor=1)
    TYPE_TESTS = ("is_file", "is_symlink", "is_block_device", "is_char_device", "is_fifo", "is_socket", "symlink_metadata", "metadata", "read_link")
    n = 0
    for b in F.bodies_in(["src/file_tree.rs"]):
        if not b.mir or "::tests::" in b.path or "{closure" in b.path:
            continue
        if not any((mir.callee_def(t) or "").endswith("fs::read_dir") for _, t in mir.calls(b)):
            continue
        reads = [bi for bi, t in mir.calls(b) if hir.last(mir.callee(t) or "") == "read" and "SourceFile" in (mir.callee(t) or "")]
        reads += [bi for bi, t in mir.calls(b) if (mir.callee(t) or "").startswith("file_tree::") and hir.last(mir.callee(t) or "") not in ("find_files", "process_subdir", "read_error")
                  and F.has(mir.callee(t)) and F.body(mir.callee(t)).mir and any(hir.last(mir.callee(t2) or "") == "read" and "SourceFile" in (mir.callee(t2) or "") for _, t2 in mir.calls(F.body(mir.callee(t))))]
        if not reads:
            continue
        defs = mir.Defs(b)
        dom = mir.dominators(b)
        tests = {bi: hir.last(mir.callee_def(t) or "") for bi, t in mir.calls(b) if hir.last(mir.callee_def(t) or "") in TYPE_TESTS
                 and ("FileType" in (mir.callee_def(t) or "") or "Path" in (mir.callee_def(t) or "") or "fs::" in (mir.callee_def(t) or "") or "DirEntry" in (mir.callee_def(t) or ""))}
        for rb in sorted(set(reads)):
            n += 1
            guilty = None
            for di in dom[rb]:
                t = b.blocks[di]["term"]
                if t["k"] != "switch" or not mir.is_place_op(t["o"]):
                    continue
                hit = mir.back_calls(b, defs, t["o"][1][0]) & set(tests)
                if hit:
                    guilty = tests[sorted(hit)[0]]
            r.inst("%s: read of a module file #%d" % (hir.last(b.path), n), {"fn": b.path, "line": b.blocks[rb]["term"].get("line"), "depends_on_file_type_test": guilty})
            if guilty:
                r.bad(b.path, "module file read depends on a file-type test", relfile(b.file), b.blocks[rb]["term"].get("line") or b.line,
                      "%s reads a module file only if `%s` said so: an entry that is a symbolic link to a module file is not a regular file for DirEntry::file_type, so the module - and "
                      "every test block in it - silently disappears from the package (`roto test` exits 0 without having run them)" % (hir.last(b.path), guilty))
    if n == 0:
        r.missing("the read of module files in the directory walk of src/file_tree.rs")
    return r


def rules(ctx):
    F = ctx["F"]
    return [rule_x1(F), rule_x2(F), rule_x3(F), rule_x4(F), rule_x5(F), rule_x6(F), rule_x7(F), rule_x8(F), rule_x9(F)]
