"""C13 - names resolve to the item the module rules designate."""
from .. import mir, hir
from ..facts import relfile
from ..report import RuleResult
from .c09 import names
from .c19 import fmt_prefix

EXPLANATION = (
    "Which item every reference denotes in every module tree is not decided. Decided are the lookup rules the statement spells out, as "
    "order/dominance facts in the two functions that implement them: R1 in ScopeGraph::resolve_name each loop iteration looks in "
    "`declarations`, then (only when recursing) in the scope's `imports`, then steps to the parent, and a hit in declarations returns "
    "without consulting imports; R2 in resolve_module_part_of_path only the first segment is looked up recursively (recurse starts "
    "true and is set to false before the back edge) and the scope for the next segment is the scope of the declaration just found; "
    "R3 ResolvedName is exactly {scope, ident} with derived Eq/Ord/Hash, so same-named items in different scopes are different keys; "
    "R4 TypeChecker::imports can only end with Ok when no import is left and re-runs every remaining import through `?` when no progress "
    "is made; R5 the file-name literals used for discovery are one consistent table (pkg.roto / mod.roto / roto extension, root module "
    "name = the `pkg` keyword); R6 exported function names are joined with the separator that get_function prepends after `pkg`."
)
EXPLANATION += (  # round-3 supplement
    ' R2 is decided on MIR data flow (scope starts at the parameter and is fed back from the found declaration, flag starts true and is false afterwards). R7 lexical scopes are children of the scope the expression is checked in.'
)
EXPLANATION += (
    ' R8 a segment fetched from the path iterator after the first one - also the one that follows leading `super`s - reaches resolve_name only with the search-enclosing-scopes flag set to false (path rule on the MIR of resolve_module_part_of_path). R9 module tree construction: the index registered in the children of a parent is the position of the own push of that child (len() read directly before that push, or len()-1 directly after it; through helper return values). R10 the occupied case of ScopeGraph::insert_import has no successful exit.'
)
ASSUMPTIONS = [
    "BTreeMap/HashMap lookups are exact-key lookups",
]


def rule_r1(F):
    """Decided by evaluating resolve_name (vf/sx: every path, lookup helpers followed) for both values of `recurse`: which tables are
    consulted, in which order, and where the function can return - however the loop and the lookups are written."""
    from .. import sx
    r = RuleResult("C13.R1", "lookup order in resolve_name: declarations, then imports (only when recursing), then parent", floor=3)
    b = F.body("typechecker::scope::ScopeGraph::resolve_name")
    if b is None or not b.hir:
        r.missing("ScopeGraph::resolve_name")
        return r
    rpos = [i_ for i_, p_ in enumerate(b.hir["params"]) if str(p_.get("ty")) == "bool"]
    if len(rpos) != 1:
        r.missing("the `recurse` flag (single bool parameter) of resolve_name")
        return r
    parents = {p_ for p_ in F.paths() if p_.startswith("typechecker::scope::ScopeGraph::") and hir.last(p_) == "parent"}

    def looks_up(path, field, depth=0):
        hb = F.body(path) if path and F.has(path) else None
        if hb is None or not hb.mir or depth > 2 or not path.startswith("typechecker::scope::"):
            return False
        hdefs = mir.Defs(hb)
        for _, ht in mir.calls(hb):
            if hir.last(mir.callee_def(ht)) == "get" and ht["args"] and mir.is_place_op(ht["args"][0]) and field in mir.origin_key(hb, hdefs, ht["args"][0][1]):
                return True
            c_ = mir.callee(ht) or ""
            if c_ != path and hir.last(c_) not in ("resolve_name", "parent") and looks_up(c_, field, depth + 1):
                return True
        return False

    helper_kind = {}
    for p_ in F.paths():
        if p_.startswith("typechecker::scope::ScopeGraph::") and "{closure" not in p_ and p_ != b.path and p_ not in parents:
            if looks_up(p_, "imports"):
                helper_kind[hir.last(p_)] = "I"
            elif looks_up(p_, "declarations"):
                helper_kind[hir.last(p_)] = "D"

    def kinds(evs):
        out = []
        pending_import = False
        for e in evs:
            if e[0] != "mcall":
                continue
            if e[1] == "get" and sx.mentions(e[2], "imports") or (e[1] == "get" and ".imports" in str(e[2])):
                out.append("I")
                pending_import = True
            elif e[1] == "get" and ("declarations" in str(e[2])):
                if pending_import:
                    pending_import = False      # the declaration an import refers to: part of the import lookup
                else:
                    out.append("D")
            elif e[1] == "parent":
                out.append("P")
                pending_import = False
            elif e[1] in helper_kind:
                out.append(helper_kind[e[1]])
                pending_import = False
        return out

    try:
        ex = sx.Exec(F, opaque=parents)
        flat = [kinds(evs) for _, evs in ex.paths(b.hir, {rpos[0]: False})]
        deep = [kinds(evs) for _, evs in ex.paths(b.hir, {rpos[0]: True})]
    except (sx.TooManyPaths, sx.Unknown) as e_:
        r.bad(b.path, "events", relfile(b.file), b.line, "cannot evaluate resolve_name: %s" % e_)
        return r
    r.inst("events", {"recurse=false": sorted({" ".join(k) for k in flat}), "recurse=true": sorted({" ".join(k) for k in deep})})
    if not flat or not deep or not all("D" in k for k in flat + deep) or not any("I" in k for k in deep) or not any("P" in k for k in deep):
        r.bad(b.path, "events", relfile(b.file), b.line, "resolve_name no longer consults declarations (always), imports and parent (when recursing): %s / %s" % (sorted({" ".join(k) for k in flat}), sorted({" ".join(k) for k in deep})))
        return r
    bad_order = [k for k in deep if not all(a <= c for a, c in zip([("D", "I", "P").index(x) for x in k], [("D", "I", "P").index(x) for x in k][1:])) or k[0] != "D"]
    if bad_order:
        r.bad(b.path, "order", relfile(b.file), b.line, "lookup order must be declarations < imports < parent on every iteration (found %s)" % " ".join(bad_order[0]))
    r.inst("recurse test", {"paths_without_recursion": len(flat)})
    if any("I" in k or "P" in k for k in flat):
        r.bad(b.path, "non-recursive lookup", relfile(b.file), b.line, "with recurse == false the lookup still reaches imports or the parent scope: later path segments would be found outside the item before them")
    ok = any(k == ["D"] for k in deep)
    r.inst("declaration hit returns", {"ok": ok})
    if not ok:
        r.bad(b.path, "shadowing", relfile(b.file), b.line, "a declaration found in the scope does not return immediately: an import or an outer declaration could take precedence")
    return r


_WALK = {}


def _path_walk_eval(F):
    """resolve_module_part_of_path EVALUATED (vf/sx, loop walked twice, helpers of the type checker opaque): the sequence of lookups
    on every path.  Returns None when the method cannot be evaluated, else (number of paths, number of lookups seen, problems) with
    problems = [(kind, text)], kind in {'init', 'later', 'scope'}."""
    if id(F) in _WALK:
        return _WALK[id(F)]
    from .. import sx
    ps = [p for p in F.paths() if p.endswith("::resolve_module_part_of_path")]
    b = F.body(ps[0]) if ps else None
    out = None
    if b is not None and b.hir:
        spos = [i for i, p_ in enumerate(b.hir["params"]) if "ScopeRef" in str(p_.get("ty") or "")]
        sname = b.hir["params"][spos[0]].get("name") if spos else None
        ipos = [i for i, p_ in enumerate(b.hir["params"]) if "Iterator" in str(p_.get("ty") or "")]
        iname = b.hir["params"][ipos[0]].get("name") if ipos else None
        opq = {p for p in F.paths() if p.startswith("typechecker::") and p != b.path and not (p.startswith(b.path.rsplit("::", 1)[0]) and hir.last(p) not in
               ("resolve_name", "parent_module", "get_declaration", "expr", "error_not_defined", "error_too_many_supers", "error_expected_module", "error_simple"))}
        try:
            paths = sx.Exec(F, opaque=opq, unroll=2, max_paths=4000).paths(b.hir, {})
        except (sx.TooManyPaths, sx.Unknown):
            paths = None
        if paths is not None and sname:
            problems, nlook, first_true, second_false = [], 0, False, False
            for res, evs in paths:
                # a helper of the type checker that is handed the path iterator has (possibly) walked the leading `super`s: it counts
                # like the parent_module lookups it makes
                def _takes_iter(e_):
                    return e_[0] == "mcall" and e_[1] not in ("resolve_name", "next") and iname and any(sx.mentions(a_, iname) for a_ in e_[3])
                evs = [(e[0], "parent_module", e[2], e[3]) if _takes_iter(e) else e for e in evs]
                evs = [e for e in evs if e[0] == "mcall" and e[1] in ("resolve_name", "parent_module", "next")]
                looks = 0
                for i, e in enumerate(evs):
                    if e[1] != "resolve_name" or len(e[3]) != 3:
                        continue
                    looks += 1
                    nlook += 1
                    sc, idn, fl = e[3]
                    if not isinstance(fl, bool):
                        problems.append(("init", "the flag handed to resolve_name is not decided by the path (%s)" % sx.short(fl, 40)))
                        continue
                    before = evs[:i]
                    if fl:
                        if looks > 1 or any(x[1] == "parent_module" for x in before) or sum(1 for x in before if x[1] == "next") != 1:
                            problems.append(("later", "a segment that is not the first of the path (lookup #%d on its path, after %s) is looked up with the search through the enclosing scopes switched on"
                                             % (looks, [x[1] for x in before])))
                        elif not (isinstance(sc, sx.Sym) and str(sc) == sname):
                            problems.append(("scope", "the first segment is not looked up from the scope the path is written in (%s)" % sx.short(sc, 40)))
                        else:
                            first_true = True
                    else:
                        if looks == 1 and not any(x[1] == "parent_module" for x in before):
                            problems.append(("init", "the first path segment is looked up with the search through the enclosing scopes switched off"))
                        if isinstance(sc, sx.Sym) and str(sc) == sname:
                            problems.append(("scope", "a later segment is looked up in the scope the path is written in, not in the scope of the item found before it"))
                        if looks >= 2:
                            second_false = True
            if not first_true:
                problems.append(("init", "no path looks the first segment up through the enclosing scopes"))
            if not second_false:
                problems.append(("later", "no second lookup was seen (the walk over the later segments was not evaluated)"))
            out = (len(paths), nlook, sorted(set(problems)))
    _WALK.clear()
    _WALK[id(F)] = out
    return out


def rule_r2(F):
    """Decided on the MIR data flow of resolve_module_part_of_path (the shape and the names of the loop do not matter): the three
    values handed to resolve_name are variables; `scope` starts at the function's scope parameter and is re-assigned from the
    scope of the declaration resolve_name just found; the 'search enclosing scopes' flag starts true and is false from the second
    segment on; the identifier comes from the path iterator."""
    r = RuleResult("C13.R2", "path walking: first segment looked up recursively, later segments only among the members of the item before them", floor=2)
    ps = [p for p in F.paths() if p.endswith("::resolve_module_part_of_path")]
    if not ps:
        r.missing("resolve_module_part_of_path")
        return r
    b = F.body(ps[0])
    ev_ = _path_walk_eval(F)
    if ev_ is not None and not any("not evaluated" in t_ or "not decided" in t_ for _, t_ in ev_[2]):
        # decided by evaluation: which segment is looked up how, in which scope - however the walk is written (tuples, helpers for
        # the leading `super`s, a private enum for their outcome)
        r.inst("recurse starts true", {"decided_by": "evaluation", "paths": ev_[0], "lookups": ev_[1]})
        r.inst("loop", {"decided_by": "evaluation", "problems": [t_ for _, t_ in ev_[2]][:4]})
        for kind, text in ev_[2]:
            if kind in ("init", "scope"):
                r.bad(b.path, "recurse init" if kind == "init" else "scope feedback", relfile(b.file), b.line, text)
        return r
    defs = mir.Defs(b)
    calls = [(bi, t) for bi, t in mir.calls(b) if hir.last(mir.callee(t)) == "resolve_name" and len(t["args"]) == 4]
    if not calls:
        r.missing("call of resolve_name in resolve_module_part_of_path")
        return r
    cbi, ct = calls[0]

    def base(op):
        """the user variable an argument temp was copied from"""
        l = op[1][0]
        for _ in range(6):
            ds = defs.whole_defs(l)
            if len(ds) == 1 and ds[0][2] == "assign" and ds[0][3]["rv"]["k"] in ("use", "ref"):
                rv = ds[0][3]["rv"]
                src = rv["o"][1] if rv["k"] == "use" and mir.is_place_op(rv.get("o")) else rv.get("p")
                if not src or any(x != "*" for x in src[1:]):
                    break
                l = src[0]
            else:
                break
        return l

    def sources(l):
        """(block, description) of every assignment to variable l; parameters count as assigned at entry"""
        out = []
        if 1 <= l <= b.mir["argc"]:
            out.append((-1, "arg%d" % l))
        for d in defs.whole_defs(l):
            if d[2] == "assign":
                rv = d[3]["rv"]
                if rv["k"] == "use":
                    c = mir.op_const(rv["o"])
                    out.append((d[0], ("const:%s" % {1: "True", 0: "False", True: "True", False: "False"}.get(c.get("v"), c.get("v"))) if c is not None else mir.origin_key(b, defs, rv["o"][1])))
                else:
                    out.append((d[0], rv["k"]))
            else:
                a0 = d[3]["args"][0] if d[3]["args"] else None
                via = [hir.last(c[2]) for c in mir.value_chain(b, defs, a0[1][0])] if mir.is_place_op(a0) else []
                out.append((d[0], "call:" + mir.callee(d[3]) + ("<-" + ",".join(via[:3]) if via else "")))
        return out
    after = mir.reachable_from(b, cbi)
    again = {x for x in after if cbi in mir.reachable_from(b, x)} | {cbi}
    s_scope, s_ident, s_rec = (base(a) if mir.is_place_op(a) else None for a in ct["args"][1:4])
    src_scope = sources(s_scope) if s_scope is not None else []
    src_ident = sources(s_ident) if s_ident is not None else []
    src_rec = sources(s_rec) if s_rec is not None else []
    starts_at_param = any(d.startswith("arg") and "ScopeRef" in b.mir["locals"][int(d[3:].split(".")[0])]["ty"] for _, d in src_scope if d.startswith("arg") and d[3:].split(".")[0].isdigit())
    fed_back = any(bb in again and "resolve_name" in d and ".scope" in d for bb, d in src_scope)
    other_scope = [d for bb, d in src_scope if bb in again and not ("resolve_name" in d and ".scope" in d)]
    rec_true = any(d == "const:True" and bb not in again for bb, d in src_rec)
    rec_false = any(d == "const:False" and bb in again for bb, d in src_rec)
    rec_other = [d for bb, d in src_rec if d not in ("const:True", "const:False")] + [d for bb, d in src_rec if d == "const:True" and bb in again]
    ident_iter = bool(src_ident) and all("next" in d for _, d in src_ident)
    r.inst("recurse starts true", {"ok": rec_true, "assignments": [d for _, d in src_rec]})
    if not rec_true or rec_other:
        r.bad(b.path, "recurse init", relfile(b.file), b.line, "the first path segment must be looked up through the enclosing scopes: the flag passed to resolve_name must start as `true` (assignments: %s)" % [d for _, d in src_rec])
    r.inst("loop", {"scope_starts_at_parameter": starts_at_param, "scope fed back from found declaration": fed_back, "other scope assignments in the loop": other_scope,
                    "recurse=false before back edge": rec_false, "identifier from the path iterator": ident_iter})
    if not starts_at_param or not ident_iter:
        r.bad(b.path, "call", relfile(b.file), b.line, "the loop must call resolve_name(scope, ident, recurse) with the scope variable starting at the scope parameter and the identifier taken from the path iterator")
    if not rec_false:
        r.bad(b.path, "recurse reset", relfile(b.file), b.line, "the flag is never set to false before the next lookup: later path segments are searched in enclosing scopes and imports, not only among the members of the item before them")
    if not fed_back or other_scope:
        r.bad(b.path, "scope feedback", relfile(b.file), b.line, "the scope for the next segment is not (only) the scope of the declaration that was just found (assignments in the loop: %s)" % [d for bb, d in src_scope if bb in again])
    return r


def rule_r3(F):
    r = RuleResult("C13.R3", "ResolvedName = {scope, ident} with derived Eq/Ord/Hash", floor=4)
    a = F.adt("typechecker::scope::ResolvedName")
    if a is None:
        r.missing("typechecker::scope::ResolvedName")
        return r
    fs = [f["name"] for f in a["variants"][0]["fields"]]
    r.inst("fields", {"fields": fs})
    if fs != ["scope", "ident"]:
        r.bad(a["path"], "fields", relfile(a["file"]), a["line"], "ResolvedName has fields %s; identity of a name must be exactly (scope, ident)" % fs)
    for tr in ("std::cmp::PartialEq", "std::cmp::Ord", "std::hash::Hash"):
        imps = [i for i in F.impls() if i.get("self_adt") == a["path"] and i.get("trait") == tr]
        r.inst(tr)
        if not imps or not all(i["derived"] for i in imps):
            r.bad(a["path"], tr, relfile(a["file"]), a["line"], "%s for ResolvedName is not derived: a hand-written impl could identify names from different scopes" % tr)
    return r


def rule_r4(F):
    r = RuleResult("C13.R4", "an import that cannot be resolved is an error: imports() ends Ok only with nothing left; no-progress re-runs through `?`", floor=2)
    ps = [p for p in F.paths() if p.endswith("TypeChecker::imports")]
    if not ps:
        r.missing("TypeChecker::imports")
        return r
    b = F.body(ps[0])
    defs = mir.Defs(b)
    gs = mir.gates(b, defs)
    imp = [bi for bi, t in mir.calls(b) if hir.last(mir.callee(t)) == "import"]
    g = [x for x in gs if any(c[0] in imp for c in x["chain"])]
    r.inst("import rerun gated", {"import_calls": len(imp), "gates": len(g)})
    if not imp or not g:
        r.bad(b.path, "rerun", relfile(b.file), b.line, "when no progress is made the remaining imports are not re-run with their error propagated: an unresolvable import would loop forever or be dropped")
    # the Ok exit is taken only on the 'nothing left' edge of a test of the number of unresolved imports (however it is spelled:
    # `if n == 0`, `match n { 0 => .. }`, `is_empty()`)
    dom = mir.dominators(b)
    oks = [bi for bi, blk in enumerate(b.blocks) for st in blk["stmts"] if st["k"] == "assign" and st["p"] == [0] and st["rv"]["k"] == "agg" and st["rv"].get("variant") == "Ok"]
    lens = {bi for bi, t in mir.calls(b) if hir.last(mir.callee_def(t) or "") in ("len", "is_empty")}
    ok = bool(oks)
    detail = []
    for ob in oks:
        guarded = False
        for si, sblk in enumerate(b.blocks):
            tt = sblk["term"]
            if tt["k"] != "switch" or si not in dom[ob] or not mir.is_place_op(tt["o"]):
                continue
            l = tt["o"][1][0]
            srcs = mir.back_calls(b, defs, l) & lens
            if not srcs:
                continue
            # which edges lead to the Ok exit?
            via = [(v, x) for v, x in tt["targets"] if x == ob or ob in mir.reachable_from(b, x, stop={si})]
            other = tt["otherwise"] == ob or ob in mir.reachable_from(b, tt["otherwise"], stop={si})
            kind = None
            ds = defs.whole_defs(l)
            if any(hir.last(mir.callee_def(b.blocks[x]["term"]) or "") == "is_empty" for x in srcs) and len(ds) == 1 and ds[0][2] == "call":
                kind = "is_empty"
                zero_edge = (not any(v == 0 for v, _ in via)) and (other or any(v == 1 for v, _ in via))
            elif len(ds) == 1 and ds[0][2] == "assign" and ds[0][3]["rv"]["k"] == "bin" and ds[0][3]["rv"].get("op") in ("Eq", "Ne"):
                rv = ds[0][3]["rv"]
                consts = [mir.op_const(o) for o in (rv["a"], rv["b"])]
                if any(c is not None and c.get("v") == 0 for c in consts):
                    kind = rv["op"] + " 0"
                    true_edge = other or any(v == 1 for v, _ in via)
                    false_edge = any(v == 0 for v, _ in via)
                    zero_edge = (true_edge and not false_edge) if rv["op"] == "Eq" else (false_edge and not true_edge)
                else:
                    zero_edge = False
            else:
                kind = "switch on the count"
                zero_edge = [v for v, _ in via] == [0] and not other
            detail.append({"line": tt.get("line"), "test": kind, "ok_only_when_zero": zero_edge})
            guarded = guarded or zero_edge
        ok = ok and guarded
    r.inst("Ok only when empty", {"ok": ok, "ok_returns": len(oks), "tests": detail[:4]})
    if not ok or len(oks) != 1:
        r.bad(b.path, "Ok exit", relfile(b.file), b.line, "imports() must return Ok only when no unresolved import is left")
    return r


def str_lits(F, path_pred):
    out = {}
    for p in F.paths():
        if not path_pred(p):
            continue
        b = F.body(p)
        if b is None or not b.hir:
            continue
        for n in hir.walk(b.hir.get("value") or {}):
            if n.get("k") == "lit" and n.get("lk") == "str":
                out.setdefault(p, set()).add(n["v"])
            if n.get("k") == "plit" and isinstance(n.get("v"), str) and "str" in str(n.get("ty", "")):
                out.setdefault(p, set()).add(n["v"])  # a string literal used as a pattern (`matches!(stem, "pkg" | "mod")`)
            if n.get("k") == "lit" and n.get("lk") == "bytestr" and any("FormatLiteral" in m for m in (n.get("mac") or [])):
                pre = fmt_prefix(n["v"])
                if pre:
                    out.setdefault(p, set()).add("fmt:" + pre)
    return out


def rule_r5(F):
    r = RuleResult("C13.R5", "file discovery literals form one consistent table", floor=5)
    lits = str_lits(F, lambda p: p.startswith("file_tree::"))
    def has(fn, lit):
        return any(lit in v for p, v in lits.items() if p.endswith(fn) or ("::" + fn + "::") in p)
    checks = [
        ("directory reads pkg.roto", has("directory", "pkg.roto")),
        ("process_subdir looks for mod.roto", has("process_subdir", "mod.roto")),
        ("read_internal treats mod.roto as the directory's module", has("read_internal", "mod.roto")),
        ("find_files filters on the roto extension", has("find_files", "roto") or any("roto" in v for p, v in lits.items() if "find_files" in p)),
        ("find_files skips pkg and mod stems", (has("find_files", "pkg") and has("find_files", "mod"))),
    ]
    for name, ok in checks:
        r.inst(name, {"ok": ok})
        if not ok:
            r.bad("file_tree", name, "src/file_tree.rs", 0, "discovery literal table broken: %s no longer holds" % name)
    # the root module is called like the `pkg` keyword
    roots = set()
    for p, v in lits.items():
        if p.endswith("single_file") or p.endswith("test_file") or "file_spec" in p or p.endswith("directory"):
            roots |= {x for x in v if x == "pkg"}
    kw = None
    for p in F.paths():
        if p.endswith("Keyword::as_str"):
            b = F.body(p)
            for m in hir.find_match_on(b.hir["value"], "Keyword::", min_arms=5):
                for row in hir.table(m):
                    if "Keyword::Pkg" in row["alts"]:
                        kw = hir.strip(row["body"]).get("v")
    r.inst("root module name", {"literal": sorted(roots), "keyword": kw})
    if kw is None or roots != {kw}:
        r.bad("file_tree", "root module name", "src/file_tree.rs", 0, "the root module is named %s but the path keyword is %r" % (sorted(roots), kw))
    return r


def rule_r6(F):
    r = RuleResult("C13.R6", "functions are exported under `pkg` + separator + module path, the form get_function looks up", floor=3)
    gf = F.body("codegen::Module::<Ctx>::get_function")
    fn_ = F.body("typechecker::info::TypeInfo::full_name")
    mn = F.body("typechecker::scope::ScopeGraph::module_name")
    if gf is None:
        r.missing("codegen::Module::get_function")
    if fn_ is None:
        r.missing("TypeInfo::full_name")
    if mn is None:
        r.missing("ScopeGraph::module_name")
    if r.anchor_missing:
        return r
    pre = None
    for n in hir.walk(gf.hir["value"]):
        if n.get("k") == "lit" and n.get("lk") == "bytestr" and any("FormatLiteral" in m for m in (n.get("mac") or [])):
            pre = fmt_prefix(n["v"]) or pre
    if pre is None:
        # the qualified name may be built by a helper: take the prefix of the key that is looked up in `functions`
        from .c19 import lookup_key_prefixes
        looked = lookup_key_prefixes(F, gf) or []
        cands = {x for srcs, _ln in looked for x in srcs}
        if len(cands) == 1 and None not in cands:
            pre = cands.pop()
    sep_full = [n.get("v") for n in hir.walk(fn_.hir["value"]) if n.get("k") == "lit" and n.get("lk") == "char"]
    sep_mod = [hir.strip(c["args"][0]).get("v") for c in hir.nodes(mn.hir["value"], "mcall") if c["m"] == "join" and c["args"]]
    r.inst("get_function prefix", {"prefix": pre})
    r.inst("full_name separator", {"sep": sep_full})
    r.inst("module_name separator", {"sep": sep_mod})
    if not pre or len(pre) < 2:
        r.bad(gf.path, "prefix", relfile(gf.file), gf.line, "get_function no longer prepends the root module name and separator")
        return r
    root, sep = pre[:-1], pre[-1]
    if sep_full != [sep]:
        r.bad(fn_.path, "separator", relfile(fn_.file), fn_.line, "full_name joins with %s but get_function looks functions up with %r" % (sep_full, sep))
    if sep_mod != [sep]:
        r.bad(mn.path, "separator", relfile(mn.file), mn.line, "module_name joins with %s but get_function looks functions up with %r" % (sep_mod, sep))
    if root != "pkg":
        r.bad(gf.path, "root", relfile(gf.file), gf.line, "get_function prefixes %r; the root module is pkg" % root)
    return r


LEXICAL = ("Block", "Then", "Else", "WhileBody", "ForBody", "MatchArm")


def rule_r7(F):
    """Lexical scoping: the scope of a block, branch, loop body or match arm is a child of the scope in which the enclosing
    expression is checked - never of a sibling's scope (an else branch must not see the then branch's lets and imports)."""
    r = RuleResult("C13.R7", "scopes of blocks, branches, loop bodies and match arms are children of the scope the expression is checked in", floor=8)
    for b in F.all_bodies():
        if not b.mir or "::tests::" in b.path or not b.file.startswith("src/typechecker/"):
            continue
        defs = None
        for bi, t in mir.calls(b):
            if not mir.callee(t).endswith("ScopeGraph::wrap") or len(t["args"]) < 3:
                continue
            defs = defs or mir.Defs(b)
            kind = None
            if mir.is_place_op(t["args"][2]):
                for d in defs.whole_defs(t["args"][2][1][0]):
                    if d[2] == "assign" and d[3]["rv"]["k"] == "agg":
                        kind = d[3]["rv"].get("variant")
            if kind not in LEXICAL:
                continue
            parent = mir.origin_key(b, defs, t["args"][1][1]) if mir.is_place_op(t["args"][1]) else "const"
            ok = False
            if parent.startswith("arg") and parent[3:].isdigit():
                ok = "ScopeRef" in b.mir["locals"][int(parent[3:])]["ty"]
            n = sum(1 for k in r.instances if k.startswith("%s %s" % (hir.last(b.path), kind)))
            r.inst("%s %s #%d" % (hir.last(b.path), kind, n), {"fn": b.path, "line": t["line"], "scope_type": kind, "parent": parent})
            if not ok:
                r.bad(b.path, "%s scope #%d parent" % (kind, n), relfile(b.file), t["line"],
                      "the %s scope is made a child of `%s` instead of the scope the expression is checked in: names declared or imported in a sibling scope become visible here (and shadow the outer ones)" % (kind, parent))
    return r


def rule_r8(F):
    """A segment that follows `super` is a later path segment: it is looked up only among the members of that module. On every
    path from a call that takes a further segment from the path iterator to the lookup, the 'search enclosing scopes' flag
    has been set to false."""
    r = RuleResult("C13.R8", "a path segment taken after the first (also one that follows `super`) is never looked up through the enclosing scopes", floor=2)
    ps = [p for p in F.paths() if p.endswith("::resolve_module_part_of_path")]
    if not ps:
        r.missing("resolve_module_part_of_path")
        return r
    b = F.body(ps[0])
    ev_ = _path_walk_eval(F)
    if ev_ is not None and not any("not evaluated" in t_ or "not decided" in t_ for _, t_ in ev_[2]):
        r.inst("later segments (evaluated)", {"paths": ev_[0], "lookups": ev_[1]})
        r.inst("segment after super (evaluated)", {"problems": [t_ for k_, t_ in ev_[2] if k_ == "later"][:3]})
        for kind, text in ev_[2]:
            if kind == "later":
                r.bad(b.path, "a further path segment looked up through the enclosing scopes", relfile(b.file), b.line,
                      text + ": it is searched in the enclosing scopes and imports instead of only among the members of the item before it (`super.pkg.f` resolves from inside "
                      "pkg.a.b although pkg.a has no member pkg)")
        return r
    defs = mir.Defs(b)
    dom = mir.dominators(b)
    calls = [(bi, t) for bi, t in mir.calls(b) if hir.last(mir.callee(t)) == "resolve_name" and len(t["args"]) == 4]
    if not calls:
        r.missing("call of resolve_name")
        return r
    nexts = [bi for bi, t in mir.calls(b) if hir.last(mir.callee_def(t) or "") == "next"]
    first = [n for n in nexts if all(n in dom[m] for m in nexts)]
    if len(nexts) < 2 or not first:
        r.missing("segment fetches (Iterator::next) in resolve_module_part_of_path")
        return r
    for cbi, ct in calls:
        a = ct["args"][3]
        c = mir.op_const(a)
        if c is not None:
            val = c.get("v")
            flag = None
        else:
            flag = a[1][0]
            for _ in range(6):
                ds = defs.whole_defs(flag)
                if len(ds) == 1 and ds[0][2] == "assign" and ds[0][3]["rv"]["k"] == "use" and mir.is_place_op(ds[0][3]["rv"]["o"]) and len(ds[0][3]["rv"]["o"][1]) == 1:
                    flag = ds[0][3]["rv"]["o"][1][0]
                else:
                    break
        falses = set()
        other = []
        if flag is not None:
            for d in defs.whole_defs(flag):
                if d[2] == "assign" and d[3]["rv"]["k"] == "use" and mir.op_const(d[3]["rv"]["o"]) is not None:
                    v = mir.op_const(d[3]["rv"]["o"]).get("v")
                    if v in (0, False):
                        falses.add(d[0])
                else:
                    other.append(d[0])
        for n in nexts:
            if n in first:
                continue
            # paths n -> cbi that avoid every block assigning false
            seen, work, hit = set(), list(mir.succs(b.blocks[n])), False
            while work:
                x = work.pop()
                if x in seen:
                    continue
                seen.add(x)
                if x in falses:
                    continue
                if x == cbi:
                    hit = True
                    break
                work.extend(mir.succs(b.blocks[x]))
            if flag is None:
                hit = val not in (0, False)
            r.inst("segment fetched at line %s -> lookup at line %s" % (b.blocks[n]["term"].get("line"), ct.get("line")),
                   {"flag_is_variable": flag is not None, "flag_set_false_on_every_path": not hit, "non_constant_assignments": len(other)})
            if other:
                r.missing("constant assignments to the recursion flag of resolve_name (found a computed one)")
            elif hit:
                r.bad(b.path, "a further path segment looked up through the enclosing scopes", relfile(b.file), b.blocks[n]["term"].get("line"),
                      "a path segment fetched after the first one (line %s) reaches resolve_name (line %s) with the flag still true: it is searched in the enclosing scopes and imports "
                      "instead of only among the members of the item before it (`super.pkg.f` resolves from inside pkg.a.b although pkg.a has no member pkg)"
                      % (b.blocks[n]["term"].get("line"), ct.get("line")))
    return r


FILE_T = "file_tree::SourceFile"


def _tree_events(b):
    """Growth events of the file vector in a body: block -> 'PUSH' (a direct push of one file) | 'OTHER' (a call that may push any
    number of files: a crate function given the vector / the tree mutably) and the blocks of len() reads."""
    ev, lens = {}, {}
    for bi, t in mir.calls(b):
        d = mir.callee_def(t) or ""
        g = t["f"].get("gargs") or []
        if d.startswith("std::vec::Vec") and g and g[0] == FILE_T:
            if hir.last(d) == "push":
                ev[bi] = "PUSH"
            elif hir.last(d) == "len":
                lens[bi] = t["dest"][0]
            elif hir.last(d) in ("insert", "extend", "append", "remove", "truncate", "clear", "pop", "swap_remove", "drain", "retain"):
                ev[bi] = "OTHER"
        elif (mir.callee(t) or "").startswith("file_tree::"):
            tys = [b.mir["locals"][a[1][0]]["ty"] for a in t["args"] if mir.is_place_op(a)]
            if any(x.startswith("&mut") and (FILE_T in x or "file_tree::FileTree" in x) for x in tys):
                ev[bi] = "OTHER"
    return ev, lens


def _index_kind(F, b, defs, ev, lens, preds, local, site, depth=0, summ=None):
    """Is the usize in `local` the position of one directly pushed file?  Returns (ok, description)."""
    if depth > 6:
        return False, "too deep"
    ds = defs.whole_defs(local)
    if len(ds) != 1:
        return False, "index with several definitions"
    bi, _, kind, st = ds[0]
    if kind == "assign":
        rv = st["rv"]
        if rv["k"] in ("use", "cast") and mir.is_place_op(rv.get("o")) and len(rv["o"][1]) == 1:
            return _index_kind(F, b, defs, ev, lens, preds, rv["o"][1][0], site, depth + 1, summ)
        if rv["k"] in ("bin", "checked") and rv.get("op") in ("Sub", "SubWithOverflow") and mir.is_place_op(rv["a"]) and (mir.op_const(rv["b"]) or {}).get("v") == 1:
            src = rv["a"][1][0]
            lb = [x for x, l in lens.items() if l == src or x in mir.back_calls(b, defs, src)]
            lb = [x for x in lb if x in lens]
            if not lb:
                return False, "x - 1 of something that is not the length of the file list"
            # the last growth event before the len() read must be a direct push on every path
            seen, work, kinds = set(), list(preds[lb[0]]), set()
            while work:
                x = work.pop()
                if x in seen:
                    continue
                seen.add(x)
                if x in ev:
                    kinds.add(ev[x])
                    continue
                work.extend(preds[x])
            return (kinds == {"PUSH"}), "len() - 1 read after %s" % (sorted(kinds) or ["no push"])
        if rv["k"] == "field" or (rv["k"] == "use" and mir.is_place_op(rv.get("o")) and len(rv["o"][1]) > 1):
            src = rv["o"][1] if rv["k"] == "use" else None
            if src is not None:
                return _index_kind(F, b, defs, ev, lens, preds, src[0], site, depth + 1, summ)
        return False, "computed index (%s)" % rv["k"]
    if kind == "call":
        if bi in lens:
            # the first growth event after the len() read must be a direct push on every path
            seen, work, kinds = set(), list(mir.succs(b.blocks[bi])), set()
            while work:
                x = work.pop()
                if x in seen:
                    continue
                seen.add(x)
                if x in ev:
                    kinds.add(ev[x])
                    continue
                if x == site:
                    kinds.add("no push before the index is used")
                    continue
                work.extend(mir.succs(b.blocks[x]))
            return (kinds == {"PUSH"}), "len() read before %s" % sorted(kinds)
        c = mir.callee(st) or ""
        if c.startswith("file_tree::") and summ is not None:
            ok, why = summ(c)
            return ok, "result of %s: %s" % (hir.last(c), why)
        return False, "result of %s" % hir.last(c)
    return False, "?"


def rule_r9(F):
    """The module tree is built from file indices: the index stored in a parent's `children` must be the position at which that
    child itself was pushed onto the file list (`let idx = files.len(); files.push(file); files[parent].children.push(idx)`): a
    length read with nothing but that one push after it, or `len() - 1` read with nothing but that push before it - also when the
    index travels through the return value of a helper.  (An index read after the child's own descendants were pushed names the
    last descendant: the nested directory becomes a global module and its last file gets two parents.)"""
    r = RuleResult("C13.R9", "module tree: the index registered as a child is the position at which that child's own file was pushed", floor=1)
    bodies = [b for b in F.bodies_in(["src/file_tree.rs"]) if b.mir and "::tests::" not in b.path]
    by = {b.path: b for b in bodies}
    memo = {}

    def summ(path):
        if path in memo:
            return memo[path]
        memo[path] = (True, "recursive")
        fb = by.get(path)
        if fb is None:
            memo[path] = (False, "unknown function")
            return memo[path]
        defs = mir.Defs(fb)
        ev, lens = _tree_events(fb)
        preds = mir.preds(fb)
        oks = []
        for d in defs.defs.get(0, []):
            if d[2] == "assign":
                rv = d[3]["rv"]
                if rv["k"] in ("use", "cast") and mir.is_place_op(rv.get("o")):
                    oks.append(_index_kind(F, fb, defs, ev, lens, preds, rv["o"][1][0], d[0], 0, summ))
                elif rv["k"] in ("bin", "checked"):
                    # _0 = x - 1 directly
                    tmp_defs = mir.Defs(fb)
                    oks.append(_index_kind(F, fb, tmp_defs, ev, lens, preds, 0, d[0], 0, summ) if len(defs.whole_defs(0)) == 1 else (False, "several returns"))
                else:
                    oks.append((False, "computed"))
            elif d[2] == "call":
                oks.append(_index_kind(F, fb, defs, ev, lens, preds, 0, d[0], 0, summ) if len(defs.whole_defs(0)) == 1 else (False, "several returns"))
        if not oks:
            memo[path] = (False, "no returned index")
        else:
            bad = [w for ok, w in oks if not ok]
            memo[path] = (not bad, "; ".join(bad) if bad else "; ".join(w for _, w in oks))
        return memo[path]
    n = 0
    for b in bodies:
        defs = None
        for bi, t in mir.calls(b):
            d = mir.callee_def(t) or ""
            g = t["f"].get("gargs") or []
            if not (d.startswith("std::vec::Vec") and hir.last(d) == "push" and g and g[0] == "usize" and len(t["args"]) == 2):
                continue
            defs = defs or mir.Defs(b)
            from .c08 import deps
            if not (mir.is_place_op(t["args"][0]) and any("children" in x for x in deps(b, defs, t["args"][0][1][0]))):
                # also accept the origin path
                if not (mir.is_place_op(t["args"][0]) and "children" in mir.origin_key(b, defs, t["args"][0][1])):
                    continue
            n += 1
            ev, lens = _tree_events(b)
            preds = mir.preds(b)
            a = t["args"][1]
            if not mir.is_place_op(a):
                ok, why = False, "constant index"
            else:
                ok, why = _index_kind(F, b, defs, ev, lens, preds, a[1][0], bi, 0, summ)
            r.inst("%s children.push line %s" % (hir.last(b.path), t.get("line")), {"fn": b.path, "line": t.get("line"), "index": why, "ok": ok})
            if not ok:
                r.bad(b.path, "child index is not the position of the child's own push", relfile(b.file), t.get("line"),
                      "the index pushed into `children` is %s, not the position at which the child's own file was pushed: a directory module with children is registered under the index of "
                      "its last descendant (the directory itself gets no parent and becomes a global module; that descendant gets two parents)" % why)
    if n < 1:
        r.missing("registrations of a child index in src/file_tree.rs (found %d)" % n)
    return r


def rule_r10(F):
    """Same-named items never interfere: a scope holds at most one import per identifier, and a second import of a name that is
    already imported there is an error - whichever item it names (the table is keyed by the identifier, so 'it is the same name' is
    true for every collision).  In ScopeGraph::insert_import the occupied case has no successful exit."""
    r = RuleResult("C13.R10", "a second import of an already imported name into the same scope is an error on every path", floor=1)
    ps = [p for p in F.paths() if p.endswith("ScopeGraph::insert_import")]
    if not ps:
        r.missing("ScopeGraph::insert_import")
        return r
    b = F.body(ps[0])
    if not b.mir:
        r.missing("MIR of insert_import")
        return r
    defs = mir.Defs(b)
    dom = mir.dominators(b)
    ins = mir.vacant_only_insertions(b, defs, dom)
    oks = mir.ok_exits(b)
    if not oks:
        r.missing("a successful exit of insert_import")
        return r
    for ob in oks:
        fresh = any(ib in dom[ob] for ib in ins)
        r.inst("successful exit", {"block": ob, "behind_an_insertion_of_a_new_key": fresh, "new_key_insertions": len(ins)})
        if not fresh:
            ln = next((st.get("line") for st in b.blocks[ob]["stmts"] if st["k"] == "assign" and st["p"] == [0]), b.line)
            r.bad(b.path, "occupied import entry accepted", relfile(b.file), ln,
                  "importing a name that is already imported into the scope can succeed (a successful exit that is not behind the insertion of a NEW key): the second import is dropped or "
                  "replaces the first silently, so `import a.f; import b.f;` compiles and which `f` a call reaches depends on the order of the two lines")
    return r


FIRST_LIKE = ("first", "split_first", "next", "first_mut")
LAST_LIKE = ("last", "split_last", "next_back", "pop", "last_mut")


def _imports_family(F):
    """The fixpoint over the imports of one scope: TypeChecker::imports, its closures, and the crate helpers they call (other than the
    single-import step and the error constructors)."""
    root = [p for p in F.paths() if p.endswith("TypeChecker::imports")]
    if not root:
        return None, []
    fam = [p for p in F.paths() if p == root[0] or p.startswith(root[0] + "::{closure")]
    work = list(fam)
    while work:
        b = F.body(work.pop())
        if b is None or not b.mir:
            continue
        for _, t in mir.calls(b):
            c = mir.callee(t) or ""
            if F.body(c) is not None and c not in fam and "typechecker" in c and not hir.last(c).startswith("error_") and hir.last(c) not in ("import", "resolve_module_part_of_path", "resolve_name", "insert_import"):
                fam.append(c)
                work.append(c)
                fam.extend(p for p in F.paths() if p.startswith(c + "::{closure"))
                work.extend(p for p in F.paths() if p.startswith(c + "::{closure"))
    return root[0], fam


def rule_r11(F):
    """Imports may be written in any order: the first segment of an import is looked up among the imports of its own scope before the
    enclosing scopes, so an import cannot be resolved while the scope still has an unresolved import that will bind that name - otherwise
    `{ import m.f; import b.m; }` takes `m` from further out and `{ import b.m; import m.f; }` does not.  Whatever the algorithm
    (deferral, dependency order), it has to relate the FIRST segment of one import to the LAST segment of the others, and every
    single-import step of the fixpoint has to be conditional on that relation."""
    r = RuleResult("C13.R11", "an import is only attempted when no unresolved import of the same scope binds the name of its first segment (imports work in any order)", floor=2)
    root, fam = _imports_family(F)
    if root is None:
        r.missing("TypeChecker::imports")
        return r
    relating = set()          # family bodies that compare a first-like with a last-like identifier
    for p in fam:
        b = F.body(p)
        if b is None or not b.mir:
            continue
        defs = mir.Defs(b)
        for bi, t in mir.calls(b):
            c = hir.last(mir.callee_def(t) or mir.callee(t) or "")
            if c not in ("eq", "ne", "contains", "contains_key", "get") or len(t["args"]) < 2:
                continue
            kinds = []
            for a in t["args"][:2]:
                ks = set()
                if mir.is_place_op(a):
                    for n in mir.back_call_names(F, b, defs, a[1][0]):
                        if n in FIRST_LIKE:
                            ks.add("first")
                        if n in LAST_LIKE:
                            ks.add("last")
                kinds.append(ks)
            if ("first" in kinds[0] and "last" in kinds[1]) or ("last" in kinds[0] and "first" in kinds[1]):
                relating.add(p)
                r.inst("first/last relation in %s" % p, {"fn": p, "line": t.get("line")})
    # close over callers inside the family: a body that calls a relating body is relating too
    changed = True
    while changed:
        changed = False
        for p in fam:
            b = F.body(p)
            if p in relating or b is None or not b.mir:
                continue
            uses = {mir.callee(t) or "" for _, t in mir.calls(b)}
            uses |= {st["rv"].get("def") for blk in b.blocks for st in blk["stmts"] if st["k"] == "assign" and st["rv"]["k"] == "agg" and st["rv"].get("ak") == "closure"}
            if uses & relating:
                relating.add(p)
                changed = True
    if not relating:
        r.bad(root, "imports not related to each other", relfile(F.body(root).file), F.body(root).line,
              "nothing in the import fixpoint compares the first segment of an import with the names the other unresolved imports of the scope are going to bind: an import whose first "
              "segment is also visible further out is resolved to that outer item when it happens to be written before the import that binds the name in its own scope")
        return r
    steps = 0
    for p in fam:
        b = F.body(p)
        if b is None or not b.mir:
            continue
        defs = mir.Defs(b)
        dom = mir.dominators(b)
        for cb, t in mir.calls(b):
            if hir.last(mir.callee(t) or "") != "import" or "TypeChecker" not in (mir.callee(t) or ""):
                continue
            steps += 1
            guarded = False
            for sb in dom[cb]:
                st = b.blocks[sb]["term"]
                if st["k"] != "switch" or sb == cb or not mir.is_place_op(st["o"]):
                    continue
                succ = list(mir.succs(b.blocks[sb]))
                reach = [x for x in succ if cb == x or cb in mir.reachable_from(b, x, stop={sb})]
                if len(reach) == len(succ):
                    continue
                feeders = mir.back_calls(b, defs, st["o"][1][0])
                if any((mir.callee(b.blocks[f]["term"]) or "") in relating for f in feeders):
                    guarded = True
                    break
            if not guarded:
                # the step may run over a selection of the imports: `for p in paths.iter().filter(|p| !has_to_wait(p)) { self.import(..) }`
                # - the imported path then comes out of an iterator that a relating closure has filtered
                clos = {st["p"][0]: st["rv"].get("def") for blk in b.blocks for st in blk["stmts"]
                        if st["k"] == "assign" and st["rv"]["k"] == "agg" and st["rv"].get("ak") == "closure" and len(st["p"]) == 1}
                for a in t["args"]:
                    if not mir.is_place_op(a):
                        continue
                    for fb in mir.back_calls(b, defs, a[1][0]):
                        ft = b.blocks[fb]["term"]
                        if hir.last(mir.callee_def(ft) or "") not in ("filter", "skip_while", "take_while", "filter_map"):
                            continue
                        for fa in ft["args"]:
                            if mir.is_place_op(fa) and clos.get(fa[1][0]) in relating:
                                guarded = True
            r.inst("single-import step in %s" % p, {"fn": p, "line": t.get("line"), "conditional_on_the_relation": guarded})
            if not guarded:
                r.bad(p, "import attempted regardless of the other unresolved imports", relfile(b.file), t.get("line"),
                      "this step resolves one import without asking whether another unresolved import of the scope binds its first segment: the result depends on the order in which the "
                      "imports are written (`{ import m.f; import b.m; f() }` vs `{ import b.m; import m.f; f() }` with another `m` visible further out)")
    if steps == 0:
        r.missing("a call of TypeChecker::import in the imports fixpoint")
    return r


def _reads_field(F, b, field, depth=0, seen=None):
    """Does the MIR of b (or of a crate function / closure it calls, to depth 2) read a place with a field projection called `field`?"""
    import json
    seen = seen if seen is not None else set()
    if b is None or not b.mir or b.path in seen:
        return False
    seen.add(b.path)
    if ('"%s"]' % field) in json.dumps(b.mir["blocks"]):
        return True
    if depth >= 2:
        return False
    nxt = set()
    for _, t in mir.calls(b):
        for d in (mir.callee(t), mir.callee_def(t)):
            if d and F.has(d):
                nxt.add(d)
    for pth in F.paths():
        if pth.startswith(b.path + "::{closure"):
            nxt.add(pth)
    return any(_reads_field(F, F.body(d), field, depth + 1, seen) for d in sorted(nxt))


def rule_r12(F):
    """Every function is retrievable from Rust by its MODULE PATH: the exported name of an item is built from the chain of modules
    that contain it.  That chain is recorded in one place only - `ModuleScope.parent_module`, written when the module tree is
    declared - so the function that spells a module's dotted path has to follow that field.  (The scope graph's own `parent` link is
    not the module tree: every module scope hangs directly under the global scope.)"""
    r = RuleResult("C13.R12", "the dotted path of a module (prefix of every exported function name) is built by following ModuleScope.parent_module", floor=2)
    cands = [b for b in F.all_bodies() if b.mir and b.hir and "{closure" not in b.path and b.path.startswith("typechecker::")
             and any("ModuleScope" in str(p_.get("ty") or "") for p_ in b.hir.get("params", []))
             and "String" in str((b.mir["locals"] or [{}])[0].get("ty") or "")]
    if not cands:
        r.missing("a function of the type checker that turns a &ModuleScope into its path (String)")
        return r
    for b in cands:
        r.inst("path builder %s" % b.path, {"fn": b.path})
        if not _reads_field(F, b, "parent_module"):
            r.bad(b.path, "module path not built from parent_module", relfile(b.file), b.line,
                  "%s produces the path of a module without reading ModuleScope.parent_module: the enclosing modules are then found some other way (e.g. the scope graph's "
                  "parent link, which is the global scope for every module), so a function in `pkg.a.b` is exported under a shorter name and `get_function(\"a.b.f\")` "
                  "does not find it" % hir.last(b.path))
    # the chain has to be there to be followed: some function of the type checker writes the field when modules are declared
    writers = [b.path for b in F.all_bodies() if b.mir and b.path.startswith("typechecker::") and "{closure" not in b.path and "Clone" not in b.path
               and any(s_["k"] == "assign" and s_["rv"]["k"] == "agg" and (s_["rv"].get("adt") or "").endswith("ModuleScope") for blk in b.blocks for s_ in blk["stmts"])]
    for w in writers:
        r.inst("ModuleScope constructed in %s" % w)
    if not writers:
        r.missing("construction of ModuleScope in the type checker")
    return r


def rule_r13(F):
    """A module that exists on disk is part of the tree or compilation fails: while a package directory is discovered, the result of
    reading a file (`SourceFile::read`) decides the outcome - when the read fails, no path from there ends the discovery with
    success.  (`let Ok(file) = SourceFile::read(&path) else { return Ok(()) }` leaves out a `name/mod.roto` that is unreadable or
    not UTF-8 together with everything below it; `name` is then looked up further out and can silently refer to another item.)"""
    r = RuleResult("C13.R13", "module discovery: a failed read of a source file never ends in success (no module is silently left out of the tree)", floor=3)
    n = 0
    for b in F.bodies_in(["src/file_tree.rs"]):
        if not b.mir or "::tests::" in b.path or "{closure" in b.path:
            continue
        defs = mir.Defs(b)
        gs = None
        oks = set(mir.ok_exits(b, "Ok"))
        for bi, t in mir.calls(b):
            c = mir.callee(t) or ""
            if not (c.endswith("SourceFile::read") or c.endswith("SourceFile::read_internal")):
                continue
            if not str(b.mir["locals"][0].get("ty") or "").startswith("std::result::Result<"):
                continue
            n += 1
            gs = gs if gs is not None else mir.gates(b, defs)
            mine = [g for g in gs if any(ch[0] == bi for ch in g["chain"])]
            swallowed = None
            returned = t.get("dest") == [0] or any(d[2] == "assign" and d[3]["rv"]["k"] == "use" and mir.is_place_op(d[3]["rv"]["o"]) and d[3]["rv"]["o"][1] == t.get("dest") for d in defs.defs.get(0, []))
            returned = returned or bi in mir.back_calls(b, defs, 0)     # handed on as (part of) this function's own result
            if not mine and not returned:
                swallowed = "its result is never tested"
            for g in mine:
                for x in g["bad"]:
                    reach = mir.reachable_from(b, x, stop={g["bb"]}) | {x}
                    if reach & oks:
                        swallowed = "the failing side of the test on its result can end with Ok"
            r.inst("%s reads a source file #%d" % (hir.last(b.path), n), {"fn": b.path, "line": t.get("line"), "failure_can_end_in_success": swallowed is not None})
            if swallowed:
                r.bad(b.path, "read failure swallowed", relfile(b.file), t.get("line") or b.line,
                      "%s reads a source file and %s: an unreadable module file (and every module below it) is silently left out of the tree, and names that should have referred to it "
                      "resolve to whatever is visible further out" % (hir.last(b.path), swallowed))
    if n == 0:
        r.missing("SourceFile::read calls in src/file_tree.rs")
    return r


RESTORERS = ("truncate", "pop", "clear", "drain", "split_off", "set_len")
READERS = ("clone", "to_vec", "iter", "as_slice", "extend_from_slice", "last", "first", "concat", "join", "index", "deref", "to_owned", "get")


def prefix_discipline(bodies):
    """Generic: a `&mut Vec<..>` parameter that a function both pushes to and reads (the shared prefix of a walk over nested lists:
    what was pushed for one item must be gone before the next item) is restored - truncate / pop - on every path from a push to a
    return of that function.  Returns (instances, violations) as lists of (body, line, text)."""
    inst, bad = [], []
    for b in bodies:
        if not b.mir or "{closure" in b.path:
            continue
        locs = b.mir["locals"]
        argc = b.mir.get("argc", 0)
        cand = [i for i in range(1, argc + 1) if str(locs[i].get("ty") or "").startswith("&mut std::vec::Vec<")]
        if not cand:
            continue
        defs = mir.Defs(b)

        def on(t, p):
            a0 = t["args"][0] if t["args"] else None
            if not mir.is_place_op(a0):
                return False
            k = mir.origin_key(b, defs, a0[1])
            return k == "arg%d" % p or k.startswith("arg%d." % p) or k.startswith("arg%d*" % p)
        rets = [bi for bi, blk in enumerate(b.blocks) if blk["term"]["k"] == "return"]
        for p in cand:
            pushes, reads, restores = [], [], []
            for bi, t in mir.calls(b):
                n = hir.last(mir.callee_def(t) or "")
                if not on(t, p):
                    continue
                if n == "push":
                    pushes.append(bi)
                elif n in RESTORERS:
                    restores.append(bi)
                elif n in READERS:
                    reads.append(bi)
            if not pushes or not reads:
                continue
            leaks = []
            for pb in pushes:
                seen, work = set(), list(mir.succs(b.blocks[pb]))
                while work:
                    x = work.pop()
                    if x in seen or x in restores:
                        continue
                    seen.add(x)
                    if x in rets:
                        leaks.append(pb)
                        break
                    work.extend(mir.succs(b.blocks[x]))
            inst.append((b, b.line, "%s: prefix parameter #%d (pushes %d, restores %d)" % (b.path, p, len(pushes), len(restores))))
            if leaks:
                bad.append((b, b.blocks[leaks[0]]["term"].get("line") or b.line,
                            "%s pushes onto the shared prefix `%s` and can return without taking it off again" % (hir.last(b.path), locs[p].get("name") or "arg%d" % p)))
    return inst, bad


def rule_r14(F, FM=None):
    """Nested lists of paths (`import a.{b.{c, d}, e}`; `use geo::{metric::km, scale}` in `library!`): every item gets the segments
    written before ITS list, nothing of its earlier siblings.  The walkers of the reference tree build each item's prefix afresh;
    where a shared mutable prefix is used instead, it must be restored on every path (search rule, canary-backed)."""
    r = RuleResult("C13.R14", "nested path lists: a shared prefix stack is restored on every path (no segment of an earlier sibling leaks into a later one)", floor=0)
    bodies = [b for b in F.bodies_in(["src/parser/expr.rs", "src/parser/mod.rs", "src/runtime/mod.rs", "src/runtime/items.rs"]) if b.mir]
    if FM is not None:
        bodies += [b for b in FM.all_bodies() if b.mir]
    inst, bad = prefix_discipline(bodies)
    r.inst("bodies searched", {"bodies": len(bodies), "shared_prefix_parameters": [t for _, _, t in inst]})
    for b, ln, text in bad:
        r.bad(b.path, "prefix not restored", relfile(b.file), ln,
              text + ": the segments written before a nested sub-list stay on the prefix, so a later item of the enclosing list is resolved below the wrong module "
              "(`import foo.{a.{x, y}, b}` imports `foo.a.b`)")
    return r


def canary(C):
    bodies = [b for b in C.all_bodies() if b.mir]
    inst, bad = prefix_discipline(bodies)
    return [{"rule": "C13.R14", "fired": ["%s" % b.path for b, _, _ in bad], "expect_min": 1, "expect_absent": ["tree_balanced", "collect"]}]


def rule_r15(F):
    """Registered `use a::b::c` paths are walked like script paths: every segment after the first is looked up among the members of
    the item found for the segment before it, never again in the scope the `use` is written in (shared with C18.I1: the accumulator
    of the walk feeds the next lookup).  Looked up at the root, `use outer::inner::answer` binds `inner.answer` when the root has an
    `inner` of its own."""
    from . import c18
    r = c18.rule_i1(F)
    r.rule = "C13.R15"
    r.desc = "registered use-paths: each later segment is looked up in the scope of the previous segment (accumulator feedback), not in the scope of the use item"
    for v in r.violations:
        v.rule = "C13.R15"
    return r


def rules(ctx):
    F = ctx["F"]
    return [rule_r1(F), rule_r2(F), rule_r3(F), rule_r4(F), rule_r5(F), rule_r6(F), rule_r7(F), rule_r8(F), rule_r9(F), rule_r10(F), rule_r11(F), rule_r12(F), rule_r13(F), rule_r14(F, ctx.get("FM")), rule_r15(F)]
